#!/venv/bin/python
"""Self-validation helper: tools/mut.py <ID>[,<ID>...] <tier> <file-under-repo> <old> <new> [<file> <old> <new> ...]
Applies the textual replacement(s) to a scratch worktree of /repo (never /repo itself), runs the check(s) against it with
VERIF_REPO, prints the verdict lines, removes the worktree."""
import os, subprocess, sys, tempfile, shutil
ids, tier, rest = sys.argv[1].split(","), sys.argv[2], sys.argv[3:]
wt = tempfile.mkdtemp(prefix="vf-mut-", dir="/tmp"); os.rmdir(wt)
subprocess.run(["git", "-C", "/repo", "worktree", "add", "-q", "--detach", wt, "HEAD"], check=True)
try:
    for i in range(0, len(rest), 3):
        f, old, new = rest[i:i+3]
        p = os.path.join(wt, f); s = open(p).read()
        if s.count(old) < 1: print(f"MUTANT NOT APPLICABLE: {old!r} not found in {f}"); sys.exit(3)
        open(p, "w").write(s.replace(old, new, 1))
    if os.environ.get("MUT_BASELINE"):
        r = subprocess.run(["/venv/bin/python", "-m", "pytest", "-q", "-p", "no:cacheprovider", "--timeout=900", "-x"], cwd=wt, env={**os.environ, "PYTHONPATH": wt + "/src"}, capture_output=True, text=True, timeout=900)
        print("baseline:", r.stdout.strip().splitlines()[-1] if r.stdout.strip() else r.stderr[-300:])
    for pid in ids:
        r = subprocess.run(["./check", pid, "--tier", tier], cwd="/verif", env={**os.environ, "VERIF_REPO": wt, "VERIF_REPLAY_DIR": "/tmp/vf-mut-replay"}, capture_output=True, text=True, timeout=3600)
        lines = [l[:230] for l in r.stdout.splitlines() if not l.startswith("KNOWN-FINDING")]
        print(f"[{pid}] rc={r.returncode}"); print("\n".join(lines[-int(os.environ.get('MUT_LINES', '4')):]))
finally:
    subprocess.run(["git", "-C", "/repo", "worktree", "remove", "--force", wt])
    shutil.rmtree(wt, ignore_errors=True)
