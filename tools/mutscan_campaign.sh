#!/bin/sh
# Systematic mutant campaign over the anchored mechanisms of each property (see tools/mutscan.py). Results: $OUT/<ID>.json + log.
# usage: tools/mutscan_campaign.sh <outdir> <jobs> <max-per-target> <ID>...
OUT=$1; JOBS=$2; MAX=$3; shift 3
mkdir -p "$OUT"
cd "$(dirname "$0")/.."
S=src/gallia
run() { id=$1; tag=$2; files=$3; scope=$4; tools/mutscan.py $id --files "$files" ${scope:+--scope "$scope"} --max $MAX --jobs $JOBS --baseline --out "$OUT/$id-$tag.json" 2>&1 | tee -a "$OUT/$id.log"; }
for id in "$@"; do
  case $id in
    C01) run C01 service "$S/services/uds/core/service.py" 'Request'; run C01 utils "$S/services/uds/core/utils.py" 'check_|sub_function_split|uds_memory_parameters|address_and_size_length|any_repr|to_bytes|from_bytes' ;;
    C02) run C02 service "$S/services/uds/core/service.py" 'Response' ;;
    C03) run C03 helpers "$S/services/uds/helpers.py" 'parse_pdu|raise_for'; run C03 matches "$S/services/uds/core/service.py" 'matches|parse_dynamic|RawPositive|RawNegative|NegativeResponse' ;;
    C04) run C04 client "$S/services/uds/core/client.py" 'request_unsafe|_read|_request|send_raw|UDSClient.request$' ;;
    C05) run C05 client "$S/services/uds/core/client.py,$S/services/uds/ecu.py,$S/transports/base.py" 'UDSClient\.(_request|reconnect|request)|ECU\.(_request|_tester_present|start_cyclic|stop_cyclic|ping)|BaseTransport\.(request|reconnect)' ;;
    C06) run C06 doip "$S/transports/doip.py" '' ;;
    C07) run C07 hsfz "$S/transports/hsfz.py" '' ;;
    C08) run C08 net "$S/transports/doip.py,$S/transports/hsfz.py,$S/transports/tcp.py,$S/transports/unix.py,$S/transports/base.py" 'close|connect|_read_worker|read|write|reconnect|_read_frame|_read_ack' ;;
    C09) run C09 scan "$S/commands/scan/uds/sessions.py" ''; run C09 ecu "$S/services/uds/ecu.py" 'set_session|check_and_set_session|wait_for_ecu|leave_session|_wait_for_ecu|read_session' ;;
    C10) run C10 scan "$S/commands/scan/uds/services.py,$S/commands/scan/uds/identifiers.py" ''; run C10 ecu "$S/services/uds/ecu.py,$S/services/uds/helpers.py" 'check_and_set_session|suggests_|set_session' ;;
    C11) run C11 db "$S/db/handler.py" 'insert_scan_result|_executor_func|disconnect|connect|_json_value|bytes_repr|insert_scan_run|insert_run_meta|complete_run_meta'; run C11 ecu "$S/services/uds/ecu.py,$S/command/uds.py" 'ECU\.(_request|update_state)|UDSScanner\.(_apply_implicit|setup|teardown)' ;;
    C12) run C12 server "$S/services/uds/server.py" 'DBUDSServer' ;;
    C13) run C13 server "$S/services/uds/server.py" '^UDSServer\.' ;;
    C14) run C14 server "$S/services/uds/server.py" 'UDSServerTransport|RandomUDSServer' ;;
    C15) run C15 base "$S/command/base.py,$S/command/uds.py" '' ;;
    C16) run C16 server "$S/services/uds/server.py,$S/commands/script/vecu.py" 'RandomUDSServer\.(randomize|stateful_rng|__init__|setup)|RNG|VirtualECU' ;;
    C17) run C17 log "$S/log.py,$S/cli/hr.py" 'PenlogReader|PenlogRecord|_JSONFormatter|_ZstdFileHandler|_main|parse_args' ;;
    C18) run C18 cfg "$S/config.py,$S/command/config.py,$S/pydantic_argparse/argparse/parser.py,$S/pydantic_argparse/parsers/boolean.py,$S/pydantic_argparse/parsers/container.py,$S/pydantic_argparse/parsers/standard.py,$S/pydantic_argparse/parsers/enum.py,$S/pydantic_argparse/parsers/literal.py" '' ;;
    C19) run C19 lines "$S/transports/base.py,$S/transports/tcp.py,$S/transports/unix.py,$S/services/uds/server.py" 'LinesTransportMixin|TCPTransport|UnixTransport|TCPLinesTransport|UnixLinesTransport|TCPUDSServerTransport|UnixUDSServerTransport' ;;
    C20) run C20 uri "$S/net.py,$S/transports/base.py,$S/utils.py,$S/command/config.py" 'split_host_port|join_host_port|TargetURI|unravel|auto_int|Ranges|_process_ranges|HexInt|HexBytes|AutoInt' ;;
  esac
done
