#!/venv/bin/python
"""Systematic self-validation of a check: generate first-order mutants of the anchored gallia code, run the check's quick tier
against each on a scratch copy (never /repo), and list the survivors.

usage: tools/mutscan.py <ID> --files <path under /repo>[,<path>...] [--scope REGEX] [--ops cmp,bool,not,const,cond,del,loop,with]
                        [--max N] [--seed S] [--jobs J] [--tier quick] [--out FILE] [--baseline]

--scope     only nodes inside a def/class whose dotted name matches REGEX (default: everything in the file)
--baseline  run the 31 baseline tests on every survivor (in a private network namespace) and record whether they pass

A survivor is a *candidate* blind spot: it is either an equivalent mutant (no behavioural difference the property talks about),
outside the property, or a real gap.  The report is read by a human; nothing here changes a verdict.
"""

from __future__ import annotations

import argparse
import ast
import concurrent.futures as cf
import json
import os
import random
import re
import shutil
import subprocess
import sys
import tempfile
from pathlib import Path

ROOT = Path(__file__).resolve().parent.parent
REPO = Path("/repo")

CMP_SWAP = {ast.Eq: ast.NotEq, ast.NotEq: ast.Eq, ast.Lt: ast.LtE, ast.LtE: ast.Lt, ast.Gt: ast.GtE, ast.GtE: ast.Gt,
            ast.Is: ast.IsNot, ast.IsNot: ast.Is, ast.In: ast.NotIn, ast.NotIn: ast.In}


def qualnames(tree: ast.AST) -> dict[ast.AST, str]:
    out: dict[ast.AST, str] = {}

    def walk(node: ast.AST, prefix: str) -> None:
        for ch in ast.iter_child_nodes(node):
            name = prefix
            if isinstance(ch, (ast.FunctionDef, ast.AsyncFunctionDef, ast.ClassDef)):
                name = f"{prefix}.{ch.name}" if prefix else ch.name
            out[ch] = name
            walk(ch, name)

    walk(tree, "")
    return out


def is_logging_call(node: ast.AST) -> bool:
    if isinstance(node, ast.Expr):
        node = node.value
    if isinstance(node, ast.Await):
        node = node.value
    if isinstance(node, ast.Call) and isinstance(node.func, ast.Attribute) and isinstance(node.func.value, ast.Name):
        return node.func.value.id in ("logger", "logging", "log")
    return False


def gen_mutants(src: str, scope: re.Pattern[str] | None, ops: set[str]) -> list[dict[str, object]]:
    tree = ast.parse(src)
    qn = qualnames(tree)
    lines = src.splitlines(keepends=True)
    starts = [0]
    for ln in lines:
        starts.append(starts[-1] + len(ln.encode()))
    bsrc = src.encode()

    def seg(node: ast.AST) -> tuple[int, int]:
        return starts[node.lineno - 1] + node.col_offset, starts[node.end_lineno - 1] + node.end_col_offset  # type: ignore[attr-defined]

    # nodes inside annotations / docstrings / decorators are skipped
    skip: set[int] = set()
    for node in ast.walk(tree):
        for field in ("annotation", "returns"):
            a = getattr(node, field, None)
            if a is not None:
                for sub in ast.walk(a):
                    skip.add(id(sub))
        if isinstance(node, (ast.FunctionDef, ast.AsyncFunctionDef, ast.ClassDef)):
            for d in node.decorator_list:
                for sub in ast.walk(d):
                    skip.add(id(sub))
            if node.body and isinstance(node.body[0], ast.Expr) and isinstance(node.body[0].value, ast.Constant) and isinstance(node.body[0].value.value, str):
                skip.add(id(node.body[0]))
                skip.add(id(node.body[0].value))
        if isinstance(node, ast.Assert):
            for sub in ast.walk(node):
                skip.add(id(sub))
        if is_logging_call(node) or (isinstance(node, ast.Assign) and isinstance(node.value, ast.Call) and isinstance(node.value.func, ast.Name) and node.value.func.id == "get_logger"):
            for sub in ast.walk(node):
                skip.add(id(sub))

    muts: list[dict[str, object]] = []

    def add(node: ast.AST, new: str, op: str, desc: str) -> None:
        a, b = seg(node)
        old = bsrc[a:b].decode()
        if old == new:
            return
        muts.append({"op": op, "line": node.lineno, "scope": qn.get(node, ""), "old": old[:160], "new": new[:160], "a": a, "b": b, "repl": new, "desc": desc})  # type: ignore[attr-defined]

    for node in ast.walk(tree):
        if id(node) in skip or not hasattr(node, "lineno"):
            continue
        name = qn.get(node, "")
        if scope is not None and not scope.search(name):
            continue
        if "cmp" in ops and isinstance(node, ast.Compare):
            for i, o in enumerate(node.ops):
                sw = CMP_SWAP.get(type(o))
                if sw is None:
                    continue
                m = ast.Compare(left=node.left, ops=node.ops[:i] + [sw()] + node.ops[i + 1 :], comparators=node.comparators)
                add(node, ast.unparse(m), "cmp", f"{type(o).__name__}->{sw.__name__}")
        if "bool" in ops and isinstance(node, ast.BoolOp):
            m2 = ast.BoolOp(op=ast.Or() if isinstance(node.op, ast.And) else ast.And(), values=node.values)
            add(node, "(" + ast.unparse(m2) + ")", "bool", "and<->or")
        if "not" in ops and isinstance(node, ast.UnaryOp) and isinstance(node.op, ast.Not):
            add(node, "(" + ast.unparse(node.operand) + ")", "not", "drop not")
        if "const" in ops and isinstance(node, ast.Constant) and isinstance(node.value, int) and not isinstance(node.value, bool):
            add(node, repr(node.value + 1), "const", "n->n+1")
            if node.value not in (0, 1):
                add(node, repr(node.value - 1), "const", "n->n-1")
        if "const" in ops and isinstance(node, ast.Constant) and isinstance(node.value, bool):
            add(node, repr(not node.value), "const", "flip bool")
        if "cond" in ops and isinstance(node, (ast.If, ast.While, ast.IfExp)):
            add(node.test, "(not (" + ast.unparse(node.test) + "))", "cond", "negate condition")
        if "del" in ops and isinstance(node, (ast.Expr, ast.Assign, ast.AugAssign, ast.Raise)) and not is_logging_call(node):
            if isinstance(node, ast.Expr) and isinstance(node.value, ast.Constant):
                continue
            add(node, "pass", "del", f"delete {type(node).__name__}")
        if "del" in ops and isinstance(node, ast.Return) and node.value is not None and not (isinstance(node.value, ast.Constant) and node.value.value is None):
            add(node, "return None", "del", "return None")
        if "with" in ops and isinstance(node, (ast.With, ast.AsyncWith)) and node.body:
            # drop the context manager (lock, timeout scope, ...) but keep the body
            a = starts[node.lineno - 1] + node.col_offset
            b = starts[node.body[0].lineno - 1] + node.body[0].col_offset
            header = bsrc[a:b].decode()
            i = header.rfind(":")
            if i > 0:
                muts.append({"op": "with", "line": node.lineno, "scope": qn.get(node, ""), "old": header[: i + 1][:160], "new": "if True:", "a": a, "b": a + len(header[:i].encode()),
                             "repl": "if True", "desc": "drop context manager"})
        if "loop" in ops and isinstance(node, ast.Break):
            add(node, "continue", "loop", "break->continue")
        if "loop" in ops and isinstance(node, ast.Continue):
            add(node, "break", "loop", "continue->break")
    # stable order, drop duplicates
    seen = set()
    out = []
    for m in sorted(muts, key=lambda m: (m["a"], m["b"], str(m["repl"]))):  # type: ignore[arg-type,return-value]
        k = (m["a"], m["b"], m["repl"])
        if k not in seen:
            seen.add(k)
            out.append(m)
    return out


def run_one(job: dict[str, object]) -> dict[str, object]:
    pid, tier, rel, mut, want_baseline = job["pid"], job["tier"], str(job["file"]), job["mut"], job["baseline"]
    wt = Path(tempfile.mkdtemp(prefix="vf-mutscan-", dir="/tmp"))
    res: dict[str, object] = {k: mut[k] for k in ("op", "line", "scope", "old", "new", "desc")}  # type: ignore[index]
    res["file"] = rel
    try:
        subprocess.run(["rsync", "-a", "--exclude", ".git", "--exclude", "__pycache__", str(REPO) + "/", str(wt) + "/"], check=True)
        p = wt / rel
        b = p.read_bytes()
        nb = b[: mut["a"]] + str(mut["repl"]).encode() + b[mut["b"] :]  # type: ignore[index,misc]
        try:
            compile(nb, rel, "exec")
        except SyntaxError as e:
            res["status"] = "invalid"
            res["error"] = str(e)[:100]
            return res
        p.write_bytes(nb)
        env = {**os.environ, "VERIF_REPO": str(wt), "VERIF_REPLAY_DIR": str(wt / ".replay"), "VERIF_EVIDENCE_DIR": str(wt / ".evidence")}
        try:
            c = subprocess.run(["./check", str(pid), "--tier", str(tier)], cwd=str(ROOT), env=env, capture_output=True, text=True, timeout=1500)
        except subprocess.TimeoutExpired:
            res["status"] = "killed"
            res["keys"] = ["<check timed out>"]
            return res
        keys = [ln.split("key=")[1].split(" ")[0] for ln in c.stdout.splitlines() if ln.startswith("VIOLATION") and "key=" in ln]
        res["rc"] = c.returncode
        res["keys"] = keys[:6]
        if c.returncode == 1:
            res["status"] = "killed"
        elif c.returncode == 0:
            res["status"] = "survived"
        else:
            res["status"] = "inconclusive" if c.returncode == 2 else "error"
            res["tail"] = (c.stdout + c.stderr)[-300:]
        if res["status"] == "survived" and want_baseline:
            cmd = "ip link set lo up 2>/dev/null; exec /venv/bin/python -m pytest -q -x -p no:cacheprovider --timeout=600"
            try:
                bt = subprocess.run(["unshare", "-n", "sh", "-c", cmd], cwd=str(wt), env={**os.environ, "PYTHONPATH": str(wt / "src")}, capture_output=True, text=True, timeout=900)
                last = bt.stdout.strip().splitlines()[-1] if bt.stdout.strip() else bt.stderr[-120:]
                res["baseline_pass"] = bt.returncode == 0
                res["baseline"] = last[:100]
            except subprocess.TimeoutExpired:
                res["baseline_pass"] = False
                res["baseline"] = "timeout"
        return res
    finally:
        shutil.rmtree(wt, ignore_errors=True)


def main() -> int:
    ap = argparse.ArgumentParser()
    ap.add_argument("pid")
    ap.add_argument("--files", required=True)
    ap.add_argument("--scope", default=None)
    ap.add_argument("--ops", default="cmp,bool,not,const,cond,del,loop,with")
    ap.add_argument("--max", type=int, default=0)
    ap.add_argument("--seed", type=int, default=0)
    ap.add_argument("--jobs", type=int, default=4)
    ap.add_argument("--tier", default="quick")
    ap.add_argument("--out", default=None)
    ap.add_argument("--baseline", action="store_true")
    a = ap.parse_args()
    scope = re.compile(a.scope) if a.scope else None
    jobs = []
    for rel in a.files.split(","):
        src = (REPO / rel).read_text()
        for m in gen_mutants(src, scope, set(a.ops.split(","))):
            jobs.append({"pid": a.pid, "tier": a.tier, "file": rel, "mut": m, "baseline": a.baseline})
    total = len(jobs)
    if a.max and total > a.max:
        random.Random(a.seed).shuffle(jobs)
        jobs = jobs[: a.max]
        jobs.sort(key=lambda j: (j["file"], j["mut"]["a"]))  # type: ignore[index]
    print(f"{a.pid}: {total} mutants generated, {len(jobs)} selected", flush=True)
    results = []
    with cf.ThreadPoolExecutor(max_workers=a.jobs) as ex:
        for i, r in enumerate(ex.map(run_one, jobs)):
            results.append(r)
            if r["status"] != "killed":
                print(f"  [{i + 1}/{len(jobs)}] {r['status']:9s} {r['file']}:{r['line']} {r['scope']} [{r['desc']}] {str(r['old'])[:70]!r} -> {str(r['new'])[:70]!r}" + (f" baseline={'pass' if r.get('baseline_pass') else 'FAIL'}" if "baseline_pass" in r else ""), flush=True)
    cnt: dict[str, int] = {}
    for r in results:
        cnt[str(r["status"])] = cnt.get(str(r["status"]), 0) + 1
    print(f"{a.pid}: " + ", ".join(f"{k}={v}" for k, v in sorted(cnt.items())))
    if a.out:
        Path(a.out).write_text(json.dumps({"property": a.pid, "tier": a.tier, "files": a.files, "scope": a.scope, "generated": total, "selected": len(jobs), "counts": cnt, "results": results}, indent=1) + "\n")
    return 0


if __name__ == "__main__":
    sys.exit(main())
