#!/venv/bin/python
"""Regenerate MANIFEST.json from the check modules present under vf/checks (run from /verif)."""
import importlib, json, sys, os
from pathlib import Path
ROOT = Path(__file__).resolve().parent.parent
sys.path.insert(0, str(ROOT))
os.environ.setdefault("VERIF_REPO", "/repo")
from vf import runner
runner.bootstrap_path()
props = [json.loads(l) for l in (ROOT / "properties.jsonl").read_text().splitlines() if l.strip()]
hooks_commits = json.loads((ROOT / "tools" / "hooks.json").read_text()) if (ROOT / "tools" / "hooks.json").exists() else []
CLAIMED = set((ROOT / "tools" / "claimed.txt").read_text().split())
checks, na = [], []
ENGINES = {}
for p in props:
    pid = p["id"]
    f = ROOT / "vf" / "checks" / f"{pid.lower()}.py"
    if not f.exists() or pid not in CLAIMED:
        na.append({"property_id": pid, "reason": "no check registered yet: the runtime monitor for this property is not built (see DESIGN.md section 3 for the plan)"})
        continue
    m = importlib.import_module(f"vf.checks.{pid.lower()}")
    if getattr(m, "NOT_CLAIMED", None):
        na.append({"property_id": pid, "reason": m.NOT_CLAIMED})
        continue
    eng = getattr(m, "ENGINE", "runtime-monitor")
    ENGINES.setdefault(eng, []).append(pid)
    checks.append({
        "property_id": pid,
        "quick_cmd": f"./check {pid} --tier quick",
        "thorough_cmd": f"./check {pid} --tier thorough",
        "evidence_file": f"evidence/{pid}.json",
        "replay_cmd_template": f"./check {pid} --replay {{path}}",
        "engine": eng,
        "level_claimed": {"category": m.LEVEL, "text": m.LEVEL_TEXT, "design_ref": f"DESIGN.md section 3, {pid}"},
        "level_note": m.LEVEL_NOTE,
        "technique": m.TECHNIQUE,
    })
ENGINE_DOC = {
    "grammar-generators": ("vf/checks", "generate-with-denotation inputs, oracle = equality with the constructed meaning"),
    "iso14229-reference": ("vf/iso14229.py", "independent ISO 14229-1 reference encoder/decoder used as oracle on the real codec"),
    "vtime-memstream": ("vf/vtime.py", "virtual-time asyncio loop + in-memory streams/scripted transports; offline history checkers"),
    "ecu-groundtruth": ("vf/ecu_models.py", "scanner / replay runs against ECU models with an ECU-side ground-truth log"),
    "subprocess-lifecycle": ("vf/checks", "one interpreter per run; artefacts and exit status inspected from outside"),
    "runtime-monitor": ("vf", "runtime monitor"),
}
manifest = {
    "version": 1,
    "setup_cmd": "./setup.sh",
    "hooks": {
        "guard": "GALLIA_VERIF",
        "enable": "no source hooks are needed: every observation is made at a boundary reachable from the harness process (transports handed to the client, asyncio.open_connection replaced in the harness, ECU-side logs, sqlite files, artifacts dir, stdout); checks import /repo/src directly (VERIF_REPO)",
        "baseline_off_cmd": "cd /repo && env -u GALLIA_VERIF /venv/bin/python -m pytest -ra -q -p no:cacheprovider --timeout=900 --continue-on-collection-errors",
        "source_commits": hooks_commits,
        "add_only": True,
    },
    "engines": [{"name": k, "path": ENGINE_DOC.get(k, ("vf", ""))[0], "serves_properties": v, "kind_free_text": ENGINE_DOC.get(k, ("", k))[1]} for k, v in ENGINES.items()],
    "checks": checks,
    "not_applicable": na,
    "notes": "Runtime monitoring only. Verdicts are three-valued (exit 0 held on what was observed / exit 1 VIOLATION / exit 2 INCONCLUSIVE). Genuine defects recorded rather than repaired are listed in known_findings.json by mechanism key and reported as KNOWN-FINDING lines; repaired ones are 'fixed' entries that suppress nothing.",
}
import jsonschema
jsonschema.validate(manifest, json.loads((ROOT / "schemas" / "MANIFEST.schema.json").read_text()))
(ROOT / "MANIFEST.json").write_text(json.dumps(manifest, indent=1) + "\n")
print(f"MANIFEST.json: {len(checks)} checks, {len(na)} not claimed")
