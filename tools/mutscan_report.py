#!/venv/bin/python
"""Condense the reports of tools/mutscan.py into mutscan/<ID>-<tag>.json (survivors and inconclusive mutants only, plus counts)
and mutscan/SUMMARY.md.  usage: tools/mutscan_report.py <dir with *.json from mutscan.py> [<dir> ...]

Classification of survivors is done by hand in mutscan/TRIAGE.json: {"<ID>": [{"match": "<regex on 'file:line scope [desc] old -> new'>",
"class": "equivalent|outside-statement|owned-by:<ID>|gap-closed:<commit or check change>|open-gap", "why": "..."}]}; the first
matching rule wins, unmatched survivors are listed as "untriaged"."""

from __future__ import annotations

import glob
import json
import re
import sys
from pathlib import Path

ROOT = Path(__file__).resolve().parent.parent
OUT = ROOT / "mutscan"


def main() -> int:
    OUT.mkdir(exist_ok=True)
    triage = json.loads((OUT / "TRIAGE.json").read_text()) if (OUT / "TRIAGE.json").exists() else {}
    rows = []
    for d in sys.argv[1:]:
        for f in sorted(glob.glob(f"{d}/C*-*.json")):
            rep = json.loads(Path(f).read_text())
            pid = rep["property"]
            rules = [(re.compile(r["match"]), r["class"], r.get("why", "")) for r in triage.get(pid, [])]
            keep = []
            classes: dict[str, int] = {}
            for r in rep["results"]:
                if r["status"] == "killed":
                    continue
                ident = f"{r['file']}:{r['line']} {r['scope']} [{r['desc']}] {r['old']} -> {r['new']}"
                cls, why = "untriaged", ""
                if r["status"] != "survived":
                    cls = "not-held (harness error / watchdog / reach too low: exit 2)"
                else:
                    if r.get("baseline_pass") is False:
                        cls, why = "fails-the-baseline-tests", "not a change that passes the existing tests"
                    for rx, c, w in rules:
                        if rx.search(ident):
                            cls, why = c, w
                            break
                classes[cls] = classes.get(cls, 0) + 1
                keep.append({k: r.get(k) for k in ("status", "file", "line", "scope", "desc", "old", "new", "baseline_pass")} | {"class": cls, "why": why})
            name = Path(f).name
            (OUT / name).write_text(json.dumps({"property": pid, "tier": rep["tier"], "files": rep["files"], "scope": rep["scope"], "generated": rep["generated"],
                                                "selected": rep["selected"], "counts": rep["counts"], "survivor_classes": classes, "not_killed": keep}, indent=1) + "\n")
            rows.append((pid, name, rep, classes))
    lines = ["# Systematic first-order mutants against the quick tier of each check (tools/mutscan.py)", "",
             "Operators: comparison swaps, and/or, dropped `not`, integer +-1, flipped booleans, negated conditions, deleted statements, `return None`, break/continue.",
             "Scope: the anchored mechanisms of each property (tools/mutscan_campaign.sh). `selected` is a seeded sample when more were generated.",
             "A mutant that makes the check exit 2 (harness error, watchdog, reach too low) is *not held*, i.e. it does not pass as unchanged either.", "",
             "| check | target | generated | selected | killed (exit 1) | not held (exit 2) | survived | of which: " + " | ".join(["equivalent / outside statement / owned by another property", "fail baseline tests", "gap closed", "open gap", "untriaged"]) + " |",
             "|---|---|---|---|---|---|---|---|---|---|---|---|"]
    for pid, name, rep, classes in sorted(rows):
        c = rep["counts"]
        eq = sum(v for k, v in classes.items() if k.startswith(("equivalent", "outside-statement", "owned-by")))
        bf = classes.get("fails-the-baseline-tests", 0)
        gc = sum(v for k, v in classes.items() if k.startswith("gap-closed"))
        og = sum(v for k, v in classes.items() if k.startswith("open-gap"))
        ut = classes.get("untriaged", 0)
        lines.append(f"| {pid} | {name[len(pid) + 1:-5]} | {rep['generated']} | {rep['selected']} | {c.get('killed', 0)} | {c.get('inconclusive', 0) + c.get('error', 0)} | {c.get('survived', 0)} | {eq} | {bf} | {gc} | {og} | {ut} |")
    (OUT / "SUMMARY.md").write_text("\n".join(lines) + "\n")
    print("\n".join(lines))
    return 0


if __name__ == "__main__":
    sys.exit(main())
