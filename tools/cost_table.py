#!/venv/bin/python
"""Print the markdown table 'measured on the final tree' (DESIGN.md 7.9) from evidence/*.json (quick tier, as written by the
checks themselves) and, optionally, from the log of a sweep (`== Cxx thorough seed n` / `Cxx thorough: held ...; evaluations=.. wall=..s`).
usage: tools/cost_table.py [sweep log ...]"""

from __future__ import annotations

import json
import re
import sys
from pathlib import Path

ROOT = Path(__file__).resolve().parent.parent


def main() -> int:
    thorough: dict[str, list[tuple[str, int, float]]] = {}
    rx = re.compile(r"^(C\d\d) thorough: (.*?); evaluations=(\d+).*?wall=([\d.]+)s")
    for f in sys.argv[1:]:
        for line in Path(f).read_text(errors="replace").splitlines():
            m = rx.match(line)
            if m:
                thorough.setdefault(m.group(1), []).append((m.group(2), int(m.group(3)), float(m.group(4))))
    print("| id | quick: verdict | evaluations | distinct cases | reach counters (required) | shards | wall s | thorough: runs held / run | evaluations (max) | wall min (max) |")
    print("|---|---|---:|---:|---:|---:|---:|---|---:|---:|")
    for p in sorted((ROOT / "evidence").glob("C*.json")):
        e = json.loads(p.read_text())
        c = e["coverage"]
        t = thorough.get(e["property_id"], [])
        held = sum(1 for v, _, _ in t if v.startswith("held"))
        tcell = f"{held} / {len(t)}" if t else "-"
        tev = max((n for _, n, _ in t), default=0)
        tw = max((w for _, _, w in t), default=0.0)
        print(f"| {e['property_id']} | {c.get('verdict', '?')}{' (+' + str(len(c.get('known_findings_observed', []))) + ' known)' if c.get('known_findings_observed') else ''} | {c['evaluations']} | "
              f"{c['distinct_nontrivial']} | {len(c.get('reach', {}))} ({len(c.get('reach_required', {}))}) | {len(c.get('shards', [])) if isinstance(c.get('shards'), list) else c.get('shards', '')} | {e['wall_s']:.0f} | "
              f"{tcell} | {tev or '-'} | {tw / 60:.1f} |")
    return 0


if __name__ == "__main__":
    sys.exit(main())
