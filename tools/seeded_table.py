#!/venv/bin/python
"""Print the markdown table of seeded changes (DESIGN.md section 7.6) from seeded/*/meta.json."""
import glob
import json
import os

ROOT = os.path.dirname(os.path.dirname(os.path.abspath(__file__)))
rows = []
for d in sorted((p for p in glob.glob(os.path.join(ROOT, "seeded", "*")) if os.path.isdir(p))):
    m = json.load(open(os.path.join(d, "meta.json")))
    keys: list[str] = []
    tier = ""
    for r in m.get("what_was_run", []):
        if r.get("violation_keys"):
            keys = r["violation_keys"]
            tier = r["cmd"].split("--tier ")[1]
            break
    name = os.path.basename(d)
    what = (m.get("breaks") or m.get("summary") or "").replace("|", "/").replace("\n", " ")
    if len(what) > 150:
        what = what[:147] + "..."
    det = f"{tier}: `{keys[0]}`" + (f" (+{len(keys) - 1})" if len(keys) > 1 else "") if m.get("detected_by_check") else ("**not detected** (by design: " + m["not_detected_by_design"][:90] + "...)" if m.get("not_detected_by_design") else "obsolete after " + m["obsolete_after_fix"] if m.get("obsolete_after_fix") else "**not detected**")
    rows.append(f"| {name} | {what} | {det} |")
print("| seeded change | what it changes | detected by |")
print("|---|---|---|")
print("\n".join(rows))
print()
tot = len(rows)
hit = sum(1 for r in rows if "not detected" not in r)
print(f"{hit} of {tot} seeded changes are detected by the registered checks.")
