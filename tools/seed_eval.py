#!/venv/bin/python
"""Evaluate externally written property-breaking changes (from fresh sub-agents) and file the confirmed ones under seeded/.

usage: tools/seed_eval.py <property id> <dir with patch.diff demo.py meta.json> [--name NAME] [--tiers quick,thorough]

Steps (all on a scratch worktree of /repo under /tmp, removed afterwards; /repo itself is never touched):
  1. demo.py on the clean tree must exit 0,
  2. patch applies; the 31 baseline tests pass with it,
  3. demo.py with the patch must exit 1,
  4. ./check <id> --tier quick (then thorough if quick stays silent) with VERIF_REPO=<worktree>: record verdict and keys.
A change that passes 1-3 is kept as seeded/<id>-<name>/ with meta.json extended by what was run and what was detected.
"""

from __future__ import annotations

import json
import os
import shutil
import subprocess
import sys
import tempfile
from pathlib import Path

ROOT = Path(__file__).resolve().parent.parent


def sh(cmd: list[str], cwd: str | None = None, env: dict[str, str] | None = None, timeout: int = 1800) -> subprocess.CompletedProcess[str]:
    return subprocess.run(cmd, cwd=cwd, env=env, capture_output=True, text=True, timeout=timeout)


def main() -> int:
    pid, src = sys.argv[1], Path(sys.argv[2])
    name = sys.argv[sys.argv.index("--name") + 1] if "--name" in sys.argv else src.name
    tiers = (sys.argv[sys.argv.index("--tiers") + 1] if "--tiers" in sys.argv else "quick,thorough").split(",")
    patch, demo = src / "patch.diff", src / "demo.py"
    meta = json.loads((src / "meta.json").read_text()) if (src / "meta.json").exists() else {}
    wt = tempfile.mkdtemp(prefix="vf-seed-", dir="/tmp")
    os.rmdir(wt)
    sh(["git", "-C", "/repo", "worktree", "add", "-q", "--detach", wt, "HEAD"])
    res: dict[str, object] = {"property": pid, "name": name}
    try:
        env = {**os.environ, "PYTHONPATH": wt + "/src"}
        d0 = sh(["/venv/bin/python", str(demo)], cwd=str(src), env=env, timeout=300)
        res["demo_clean_rc"] = d0.returncode
        ap = sh(["git", "-C", wt, "apply", "--whitespace=nowarn", str(patch)])
        if ap.returncode != 0:
            ap = sh(["git", "-C", wt, "apply", "--3way", "--whitespace=nowarn", str(patch)])
        res["patch_applies"] = ap.returncode == 0
        if ap.returncode != 0:
            res["patch_error"] = ap.stderr[-400:]
            print(json.dumps(res, indent=1))
            return 2
        # the suite binds fixed loopback ports (6801, 1234): run it in a private network namespace so that concurrent runs cannot collide
        cmd = "ip link set lo up 2>/dev/null; exec /venv/bin/python -m pytest -q -p no:cacheprovider --timeout=900"
        for attempt in range(3):
            bt = sh(["unshare", "-n", "sh", "-c", cmd], cwd=wt, env=env, timeout=1200)
            if bt.returncode != 0 and "unshare" in (bt.stderr or "")[:200]:
                bt = sh(["sh", "-c", cmd.split("; exec ")[1]], cwd=wt, env=env, timeout=1200)
            last = bt.stdout.strip().splitlines()[-1] if bt.stdout.strip() else bt.stderr[-200:]
            if "Errno 98" not in bt.stdout and "address already in use" not in bt.stdout.lower():
                break
        res["baseline"] = last
        res["baseline_ok"] = bt.returncode == 0 and "31 passed" in last
        d1 = sh(["/venv/bin/python", str(demo)], cwd=str(src), env=env, timeout=300)
        res["demo_mutant_rc"] = d1.returncode
        res["demo_mutant_tail"] = (d1.stdout + d1.stderr)[-300:]
        confirmed = res["demo_clean_rc"] == 0 and res["baseline_ok"] and d1.returncode == 1
        res["confirmed"] = confirmed
        detected = False
        runs = []
        if confirmed:
            for tier in tiers:
                c = sh(["./check", pid, "--tier", tier], cwd=str(ROOT), env={**os.environ, "VERIF_REPO": wt, "VERIF_REPLAY_DIR": "/tmp/vf-seed-replay"}, timeout=3600)
                keys = [ln.split("key=")[1].split(" ")[0] for ln in c.stdout.splitlines() if ln.startswith("VIOLATION") and "key=" in ln]
                runs.append({"cmd": f"VERIF_REPO=<worktree with patch> ./check {pid} --tier {tier}", "rc": c.returncode, "violation_keys": keys[:12], "last_line": c.stdout.strip().splitlines()[-1][:200] if c.stdout.strip() else ""})
                if c.returncode == 1 and keys:
                    detected = True
                    break
        res["check_runs"] = runs
        res["detected"] = detected
        if confirmed:
            out = ROOT / "seeded" / f"{pid}-{name}"
            out.mkdir(parents=True, exist_ok=True)
            shutil.copy(patch, out / "patch.diff")
            shutil.copy(demo, out / "demo.py")
            meta.update({"property": pid, "breaks": meta.get("summary", ""), "needs_to_manifest": meta.get("needs", ""),
                         "verified": {"demo_clean_rc": res["demo_clean_rc"], "demo_with_patch_rc": res["demo_mutant_rc"], "baseline_with_patch": res["baseline"]},
                         "what_was_run": runs, "detected_by_check": detected})
            (out / "meta.json").write_text(json.dumps(meta, indent=1) + "\n")
        print(json.dumps(res, indent=1))
        return 0
    finally:
        sh(["git", "-C", "/repo", "worktree", "remove", "--force", wt])
        shutil.rmtree(wt, ignore_errors=True)


if __name__ == "__main__":
    sys.exit(main())
