#!/venv/bin/python
"""Builds /verif/fixtures/c11-schema-4.0.sqlite: a scan database as an EARLIER run of the released code leaves it behind.

The file is written once by the UNCHANGED DBHandler of /repo (never by a tree under test) - connect(), insert_run_meta(),
insert_scan_run(), a few exchanges of a real ECU client on a scripted transport, disconnect() - and committed.  C11 appends the
runs of its histories to a copy of it ("one database per project, many runs, also across updates of gallia"): the rows of the
earlier run must stay as they are and every exchange of the appended run must get its row.

usage: tools/make_c11_fixture.py [--force]      (refuses to overwrite an existing fixture without --force; refuses any tree but /repo)
"""

from __future__ import annotations

import asyncio
import sqlite3
import subprocess
import sys
from datetime import UTC, datetime
from pathlib import Path

ROOT = Path(__file__).resolve().parent.parent
OUT = ROOT / "fixtures" / "c11-schema-4.0.sqlite"
sys.path.insert(0, "/repo/src")
sys.path.insert(1, str(ROOT))


async def build(path: Path, commit: str) -> int:
    import gallia
    import gallia.command  # noqa: F401  (before gallia.plugins.plugin)
    from gallia.command.config import GalliaBaseModel
    from gallia.db.handler import DBHandler, schema_version
    from gallia.services.uds.core import service
    from gallia.services.uds.core.client import UDSRequestConfig

    from vf import dbharness as dh

    if not str(Path(gallia.__file__).resolve()).startswith("/repo/src/"):
        raise SystemExit(f"gallia imported from {gallia.__file__}: the fixture must be written by the unchanged tree in /repo")
    if schema_version != "4.0":
        raise SystemExit(f"/repo announces schema version {schema_version}: name a new fixture for it")

    class _Cfg(GalliaBaseModel):
        pass

    h = DBHandler(path)
    await asyncio.wait_for(h.connect(), 30)
    try:
        await h.insert_run_meta(script=f"vf.tools.make_c11_fixture@{commit}", config=_Cfg(), start_time=datetime.now(UTC).astimezone(), path=None)
        await h.insert_scan_run("vf://c11/earlier-run")
        tr = dh.WireTransport()
        ecu = dh.make_ecu(tr, h, 1)
        script: list[tuple[object, list[tuple[object, ...]], object]] = [
            (service.TesterPresentRequest(False), [("reply", b"\x7e\x00")], None),
            (service.DiagnosticSessionControlRequest(3), [("reply", bytes([0x50, 3, 0, 50, 1, 244]))], None),
            (service.ReadDataByIdentifierRequest(0xF190), [("reply", b"\x62\xf1\x90VF-C11-FIXTURE")], UDSRequestConfig(tags=["ANALYZE"])),
            (service.ReadDataByIdentifierRequest(0xFFFF), [("T",), ("T",)], None),
            (service.RawRequest(b"\x31\x01\x02\x03"), [("reply", b"\x7f\x31\x78"), ("reply", b"\x7f\x31\x31")], None),
            (service.RequestSeedRequest(1), [("reply", b"\x67\x01\x11\x22\x33\x44")], None),
            (service.SendKeyRequest(2, b"\x44\x33\x22\x11"), [("reply", b"\x67\x02")], None),
            (service.ReadDataByIdentifierRequest(0x1234), [("reply", b"\x62\x12\x34\x00")], UDSRequestConfig(tags=["OTHER"])),
        ]
        for req, events, cfg in script:
            tr.arm(events)  # type: ignore[arg-type]
            try:
                await ecu.request(req, cfg)  # type: ignore[arg-type]
            except Exception:  # noqa: BLE001
                pass
        await h.complete_run_meta(datetime.now(UTC).astimezone(), 0, None)
    finally:
        await asyncio.wait_for(h.disconnect(), 30)
    return len(script)


def main() -> int:
    if OUT.exists() and "--force" not in sys.argv:
        print(f"{OUT} exists (use --force to rebuild it)")
        return 1
    commit = subprocess.run(["git", "-C", "/repo", "rev-parse", "--short", "HEAD"], capture_output=True, text=True, timeout=30).stdout.strip()
    dirty = subprocess.run(["git", "-C", "/repo", "status", "--porcelain", "--", "src"], capture_output=True, text=True, timeout=30).stdout.strip()
    if dirty:
        raise SystemExit(f"/repo/src has local changes:\n{dirty}")
    OUT.parent.mkdir(exist_ok=True)
    tmp = OUT.with_name(OUT.name + ".tmp")
    for suffix in ("", "-wal", "-shm"):
        tmp.with_name(tmp.name + suffix).unlink(missing_ok=True)
    n = asyncio.run(build(tmp, commit))
    con = sqlite3.connect(tmp)
    try:
        rows = con.execute("SELECT count(*) FROM scan_result").fetchone()[0]
        version = con.execute("SELECT version FROM version WHERE schema = 'main'").fetchone()[0]
    finally:
        con.close()
    for suffix in ("-wal", "-shm"):
        tmp.with_name(tmp.name + suffix).unlink(missing_ok=True)
    if rows != n:
        raise SystemExit(f"{rows} rows for {n} exchanges: the unchanged tree does not hold the property on this script")
    tmp.replace(OUT)
    print(f"{OUT}: schema {version}, {rows} scan_result rows, written by /repo {commit}, {OUT.stat().st_size} bytes")
    return 0


if __name__ == "__main__":
    sys.exit(main())
