#!/bin/sh
# setup_cmd: offline install of the two third-party helpers beside the checks, byte-compile vf/.
set -e
cd "$(dirname "$0")"
if [ ! -d .deps/icontract ] || [ ! -d .deps/jsonschema ]; then
    PIP_NO_INDEX=1 /venv/bin/python -m pip install --quiet --no-index \
        --find-links /opt/veriftools/wheels --target .deps icontract jsonschema >/dev/null
fi
/venv/bin/python -m compileall -q vf >/dev/null
mkdir -p evidence replay .scratch
echo "setup ok"
