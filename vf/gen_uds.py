"""Generators for UDS request kinds: constructor arguments of gallia's request classes paired with the bytes
the independent reference (vf/iso14229.py) prescribes and the field values expected after parsing.

A Case is (class name, args, kwargs, expected bytes, expected public attributes).  Invalid cases carry
expect=None and name the parameter that is outside its documented range.
"""

from __future__ import annotations

import random
from dataclasses import dataclass, field
from typing import Any, Callable, Iterator

from vf import iso14229 as iso


@dataclass
class Case:
    cls: str
    args: tuple[Any, ...]
    kwargs: dict[str, Any]
    expect: bytes | None
    fields: dict[str, Any] = field(default_factory=dict)
    bad: str = ""  # for invalid cases: which parameter is out of range

    def ident(self) -> tuple[Any, ...]:
        return (self.cls, self.args, tuple(sorted(self.kwargs.items())), self.bad)

    def to_json(self) -> dict[str, Any]:
        return {"cls": self.cls, "args": list(self.args), "kwargs": self.kwargs, "expect": self.expect, "bad": self.bad}


def bvals(mx: int, rng: random.Random | None = None) -> list[int]:
    s = {0, 1, mx // 2, mx - 1, mx}
    if rng is not None:
        s.add(rng.randint(0, mx))
    return sorted(v for v in s if 0 <= v <= mx)


REC_LENS = [0, 1, 2, 255, 4093]


def rec(rng: random.Random, n: int | None = None, nonempty: bool = False) -> bytes:
    if n is None:
        n = rng.choice(REC_LENS + [rng.randint(0, 40)])
    if nonempty and n == 0:
        n = 1
    k = rng.randrange(4)
    if k == 0:
        return bytes(n)
    if k == 1:
        return b"\xff" * n
    return rng.randbytes(n)


def rnd_sf(rng: random.Random) -> int:
    return rng.choice([0, 1, 2, 3, 0x3F, 0x40, 0x7E, 0x7F, rng.randint(0, 0x7F)])


def rnd_did(rng: random.Random) -> int:
    return rng.choice([0, 1, 0x00FF, 0x0100, 0x7FFF, 0x8000, 0xF186, 0xFFFE, 0xFFFF, rng.randint(0, 0xFFFF)])


def rnd_mem(rng: random.Random) -> tuple[int, int, int | None]:
    """(address, size, explicit alfid or None) — widths 1..15 each"""
    aw = rng.randint(1, 15)
    sw = rng.randint(1, 15)
    addr = rng.choice([0, 1, 256 ** (aw - 1) if aw > 1 else 2, 256**aw - 1, rng.randrange(256**aw)])
    size = rng.choice([0, 1, 256 ** (sw - 1) if sw > 1 else 2, 256**sw - 1, rng.randrange(256**sw)])
    if rng.random() < 0.5:
        return addr, size, None
    return addr, size, iso.alfid_byte(aw, sw)


BAD_SF = [0x80, 0xFF, 0x100, -1]
BAD_DID = [0x10000, -1, 0xFFFFFF]
BAD_BYTE = [0x100, -1, 0xFFFF]

# ------------------------------------------------------------------------------------------------
GEN: dict[str, Callable[[random.Random], Iterator[Case]]] = {}
BADGEN: dict[str, Callable[[random.Random], Iterator[Case]]] = {}


def reg(name: str) -> Callable[[Callable[[random.Random], Iterator[Case]]], Callable[[random.Random], Iterator[Case]]]:
    def deco(f: Callable[[random.Random], Iterator[Case]]) -> Callable[[random.Random], Iterator[Case]]:
        GEN[name] = f
        return f

    return deco


def regbad(name: str) -> Callable[[Callable[[random.Random], Iterator[Case]]], Callable[[random.Random], Iterator[Case]]]:
    def deco(f: Callable[[random.Random], Iterator[Case]]) -> Callable[[random.Random], Iterator[Case]]:
        BADGEN[name] = f
        return f

    return deco


def _simple_sf(cls: str, attr: str, enc: Callable[[int, bool], bytes]) -> None:
    @reg(cls)
    def g(rng: random.Random) -> Iterator[Case]:
        sf, spr = rnd_sf(rng), rng.random() < 0.5
        yield Case(cls, (sf, spr), {}, enc(sf, spr), {attr: sf, "suppress_response": spr})

    @regbad(cls)
    def b(rng: random.Random) -> Iterator[Case]:
        for v in BAD_SF:
            yield Case(cls, (v, rng.random() < 0.5), {}, None, bad="sub-function")


_simple_sf("DiagnosticSessionControlRequest", "diagnostic_session_type", iso.req_session)
_simple_sf("ECUResetRequest", "reset_type", iso.req_reset)


@reg("RequestSeedRequest")
def _g_seed(rng: random.Random) -> Iterator[Case]:
    sf, spr, r = rnd_sf(rng) | 1, rng.random() < 0.5, rec(rng)
    yield Case("RequestSeedRequest", (sf, r, spr), {}, iso.req_security(sf, r, spr), {"security_access_type": sf, "security_access_data_record": r, "suppress_response": spr})


@regbad("RequestSeedRequest")
def _b_seed(rng: random.Random) -> Iterator[Case]:
    for v in [0x81, 0xFF, 0x101, -1]:
        yield Case("RequestSeedRequest", (v, b"", False), {}, None, bad="sub-function")
    yield Case("RequestSeedRequest", (rnd_sf(rng) & 0x7E, b"", False), {}, None, bad="even securityAccessType for requestSeed")


@reg("SendKeyRequest")
def _g_key(rng: random.Random) -> Iterator[Case]:
    sf, spr, r = max(2, rnd_sf(rng) & 0x7E), rng.random() < 0.5, rec(rng, nonempty=True)
    yield Case("SendKeyRequest", (sf, r, spr), {}, iso.req_security(sf, r, spr), {"security_access_type": sf, "security_key": r, "suppress_response": spr})


@regbad("SendKeyRequest")
def _b_key(rng: random.Random) -> Iterator[Case]:
    for v in [0x80, 0xFE, 0x100, -2]:
        yield Case("SendKeyRequest", (v, b"\x01", False), {}, None, bad="sub-function")
    yield Case("SendKeyRequest", (rnd_sf(rng) | 1, b"\x01", False), {}, None, bad="odd securityAccessType for sendKey")


@reg("CommunicationControlRequest")
def _g_cc(rng: random.Random) -> Iterator[Case]:
    sf, ct, spr = rnd_sf(rng), rng.choice(bvals(0xFF, rng)), rng.random() < 0.5
    yield Case("CommunicationControlRequest", (sf, ct, spr), {}, iso.req_comm_control(sf, ct, spr), {"control_type": sf, "communication_type": ct, "suppress_response": spr})


@regbad("CommunicationControlRequest")
def _b_cc(rng: random.Random) -> Iterator[Case]:
    for v in BAD_SF:
        yield Case("CommunicationControlRequest", (v, 1, False), {}, None, bad="sub-function")
    for v in BAD_BYTE:
        yield Case("CommunicationControlRequest", (1, v, False), {}, None, bad="communicationType")


@reg("TesterPresentRequest")
def _g_tp(rng: random.Random) -> Iterator[Case]:
    spr = rng.random() < 0.5
    yield Case("TesterPresentRequest", (spr,), {}, iso.req_tester_present(spr), {"suppress_response": spr})


@reg("ControlDTCSettingRequest")
def _g_cdtcs(rng: random.Random) -> Iterator[Case]:
    sf, r, spr = rnd_sf(rng), rec(rng), rng.random() < 0.5
    yield Case("ControlDTCSettingRequest", (sf, r, spr), {}, iso.req_control_dtc(sf, r, spr), {"dtc_setting_type": sf, "dtc_setting_control_option_record": r, "suppress_response": spr})


@regbad("ControlDTCSettingRequest")
def _b_cdtcs(rng: random.Random) -> Iterator[Case]:
    for v in BAD_SF:
        yield Case("ControlDTCSettingRequest", (v, b"", False), {}, None, bad="sub-function")


@reg("ReadDataByIdentifierRequest")
def _g_rdbi(rng: random.Random) -> Iterator[Case]:
    n = rng.choice([1, 1, 2, 3, 8, rng.randint(1, 40)])
    dids = [rnd_did(rng) for _ in range(n)]
    if n == 1 and rng.random() < 0.5:
        yield Case("ReadDataByIdentifierRequest", (dids[0],), {}, iso.req_rdbi(dids), {"data_identifiers": dids})
    else:
        yield Case("ReadDataByIdentifierRequest", (dids,), {}, iso.req_rdbi(dids), {"data_identifiers": dids})


@regbad("ReadDataByIdentifierRequest")
def _b_rdbi(rng: random.Random) -> Iterator[Case]:
    for v in BAD_DID:
        yield Case("ReadDataByIdentifierRequest", (v,), {}, None, bad="dataIdentifier")
        yield Case("ReadDataByIdentifierRequest", ([1, v],), {}, None, bad="dataIdentifier")


def _bad_mem(rng: random.Random) -> list[tuple[int, int, int | None, str]]:
    aw, sw = rng.randint(1, 14), rng.randint(1, 14)
    return [
        (-1, 1, None, "negative address"),
        (1, -1, None, "negative size"),
        (256**15, 1, None, "address wider than 15 bytes"),
        (1, 256**15, None, "size wider than 15 bytes"),
        (256**aw, 1, iso.alfid_byte(aw, sw), "address does not fit the given ALFID"),
        (1, 256**sw, iso.alfid_byte(aw, sw), "size does not fit the given ALFID"),
        (1, 1, 0x00, "ALFID 0x00 (both nibbles zero)"),
        (0x1234, 0x10, 0x00, "ALFID 0x00 (both nibbles zero)"),
        (1, 1, 0x01, "ALFID with zero size nibble"),
        (1, 1, 0x10, "ALFID with zero address nibble"),
        (1, 1, 0x111, "ALFID above 0xFF"),
        (1, 1, -1, "negative ALFID"),
    ]


@reg("ReadMemoryByAddressRequest")
def _g_rmba(rng: random.Random) -> Iterator[Case]:
    a, s, f = rnd_mem(rng)
    exp = iso.req_rmba(a, s, f)
    yield Case("ReadMemoryByAddressRequest", (a, s, f), {}, exp, {"memory_address": a, "memory_size": s, "address_and_length_format_identifier": exp[1]})


@regbad("ReadMemoryByAddressRequest")
def _b_rmba(rng: random.Random) -> Iterator[Case]:
    for a, s, f, why in _bad_mem(rng):
        yield Case("ReadMemoryByAddressRequest", (a, s, f), {}, None, bad=why)


@reg("DefineByIdentifierRequest")
def _g_dbi(rng: random.Random) -> Iterator[Case]:
    n = rng.choice([1, 1, 2, 8, rng.randint(1, 20)])
    d, spr = rnd_did(rng), rng.random() < 0.5
    srcs = [(rnd_did(rng), rng.choice(bvals(0xFF, rng)), rng.choice(bvals(0xFF, rng))) for _ in range(n)]
    exp = iso.req_dddi_by_id(d, srcs, spr)
    fields = {"dynamically_defined_data_identifier": d, "source_data_identifiers": [s[0] for s in srcs],
              "positions_in_source_data_record": [s[1] for s in srcs], "memory_sizes": [s[2] for s in srcs], "suppress_response": spr}
    if n == 1 and rng.random() < 0.5:
        yield Case("DefineByIdentifierRequest", (d, srcs[0][0], srcs[0][1], srcs[0][2], spr), {}, exp, fields)
    else:
        yield Case("DefineByIdentifierRequest", (d, [s[0] for s in srcs], [s[1] for s in srcs], [s[2] for s in srcs], spr), {}, exp, fields)


@regbad("DefineByIdentifierRequest")
def _b_dbi(rng: random.Random) -> Iterator[Case]:
    for v in BAD_DID:
        yield Case("DefineByIdentifierRequest", (v, [1], [1], [1], False), {}, None, bad="dynamicallyDefinedDataIdentifier")
        yield Case("DefineByIdentifierRequest", (1, [v], [1], [1], False), {}, None, bad="sourceDataIdentifier")
    for v in BAD_BYTE:
        yield Case("DefineByIdentifierRequest", (1, [1], [v], [1], False), {}, None, bad="positionInSourceDataRecord")
        yield Case("DefineByIdentifierRequest", (1, [1], [1], [v], False), {}, None, bad="memorySize")
    yield Case("DefineByIdentifierRequest", (1, [1, 2], [1], [1], False), {}, None, bad="list lengths differ")


@reg("DefineByMemoryAddressRequest")
def _g_dbm(rng: random.Random) -> Iterator[Case]:
    n = rng.choice([1, 1, 2, 8])
    d, spr = rnd_did(rng), rng.random() < 0.5
    aw, sw = rng.randint(1, 15), rng.randint(1, 15)
    regions = [(rng.choice([0, 256**aw - 1, rng.randrange(256**aw)]), rng.choice([0, 256**sw - 1, rng.randrange(256**sw)])) for _ in range(n)]
    f = None if rng.random() < 0.5 else iso.alfid_byte(aw, sw)
    exp = iso.req_dddi_by_mem(d, regions, f, spr)
    fields = {"dynamically_defined_data_identifier": d, "memory_addresses": [r[0] for r in regions], "memory_sizes": [r[1] for r in regions],
              "address_and_length_format_identifier": exp[4], "suppress_response": spr}
    if n == 1 and rng.random() < 0.5:
        yield Case("DefineByMemoryAddressRequest", (d, regions[0][0], regions[0][1], f, spr), {}, exp, fields)
    else:
        yield Case("DefineByMemoryAddressRequest", (d, [r[0] for r in regions], [r[1] for r in regions], f, spr), {}, exp, fields)


@regbad("DefineByMemoryAddressRequest")
def _b_dbm(rng: random.Random) -> Iterator[Case]:
    for v in BAD_DID:
        yield Case("DefineByMemoryAddressRequest", (v, [1], [1], None, False), {}, None, bad="dynamicallyDefinedDataIdentifier")
    for a, s, f, why in _bad_mem(rng):
        yield Case("DefineByMemoryAddressRequest", (1, [a], [s], f, False), {}, None, bad=why)
    yield Case("DefineByMemoryAddressRequest", (1, [1, 2], [1], None, False), {}, None, bad="list lengths differ")


@reg("ClearDynamicallyDefinedDataIdentifierRequest")
def _g_cdd(rng: random.Random) -> Iterator[Case]:
    d = None if rng.random() < 0.4 else rnd_did(rng)
    spr = rng.random() < 0.5
    yield Case("ClearDynamicallyDefinedDataIdentifierRequest", (d, spr), {}, iso.req_dddi_clear(d, spr), {"dynamically_defined_data_identifier": d, "suppress_response": spr})


@regbad("ClearDynamicallyDefinedDataIdentifierRequest")
def _b_cdd(rng: random.Random) -> Iterator[Case]:
    for v in BAD_DID:
        yield Case("ClearDynamicallyDefinedDataIdentifierRequest", (v, False), {}, None, bad="dynamicallyDefinedDataIdentifier")


@reg("WriteDataByIdentifierRequest")
def _g_wdbi(rng: random.Random) -> Iterator[Case]:
    d, r = rnd_did(rng), rec(rng, nonempty=True)
    yield Case("WriteDataByIdentifierRequest", (d, r), {}, iso.req_wdbi(d, r), {"data_identifier": d, "data_record": r})


@regbad("WriteDataByIdentifierRequest")
def _b_wdbi(rng: random.Random) -> Iterator[Case]:
    for v in BAD_DID:
        yield Case("WriteDataByIdentifierRequest", (v, b"\x01"), {}, None, bad="dataIdentifier")
    yield Case("WriteDataByIdentifierRequest", (1, b""), {}, None, bad="empty dataRecord")


@reg("WriteMemoryByAddressRequest")
def _g_wmba(rng: random.Random) -> Iterator[Case]:
    a, s, f = rnd_mem(rng)
    data = rec(rng, nonempty=True)
    if rng.random() < 0.5:
        # size derived from the data
        aw = rng.randint(1, 15)
        a = rng.choice([0, 256**aw - 1, rng.randrange(256**aw)])
        f2 = None if rng.random() < 0.5 else iso.alfid_byte(aw, rng.randint(2, 15))
        exp = iso.req_wmba(a, data, None, f2)
        yield Case("WriteMemoryByAddressRequest", (a, data, None, f2), {}, exp, {"memory_address": a, "data_record": data, "memory_size": len(data), "address_and_length_format_identifier": exp[1]})
    else:
        exp = iso.req_wmba(a, data, s, f)
        yield Case("WriteMemoryByAddressRequest", (a, data, s, f), {}, exp, {"memory_address": a, "data_record": data, "memory_size": s, "address_and_length_format_identifier": exp[1]})


@regbad("WriteMemoryByAddressRequest")
def _b_wmba(rng: random.Random) -> Iterator[Case]:
    for a, s, f, why in _bad_mem(rng):
        yield Case("WriteMemoryByAddressRequest", (a, b"\x01", s, f), {}, None, bad=why)


@reg("ClearDiagnosticInformationRequest")
def _g_cdi(rng: random.Random) -> Iterator[Case]:
    g = rng.choice(bvals(0xFFFFFF, rng))
    yield Case("ClearDiagnosticInformationRequest", (g,), {}, iso.req_clear_dtc(g), {"group_of_dtc": g})


@regbad("ClearDiagnosticInformationRequest")
def _b_cdi(rng: random.Random) -> Iterator[Case]:
    for v in [0x1000000, -1, 2**32]:
        yield Case("ClearDiagnosticInformationRequest", (v,), {}, None, bad="groupOfDTC")


DTC_MASK_KINDS = {
    "ReportNumberOfDTCByStatusMaskRequest": 0x01,
    "ReportDTCByStatusMaskRequest": 0x02,
    "ReportMirrorMemoryDTCByStatusMaskRequest": 0x0F,
    "ReportNumberOfMirrorMemoryDTCByStatusMaskRequest": 0x11,
    "ReportNumberOfEmissionsRelatedOBDDTCByStatusMaskRequest": 0x12,
    "ReportEmissionsRelatedOBDDTCByStatusMaskRequest": 0x13,
}
DTC_PLAIN_KINDS = {
    "ReportSupportedDTCRequest": 0x0A,
    "ReportFirstTestFailedDTCRequest": 0x0B,
    "ReportFirstConfirmedDTCRequest": 0x0C,
    "ReportMostRecentFirstTestFailedDTCRequest": 0x0D,
    "ReportMostRecentConfirmedDTCRequest": 0x0E,
    "ReportDTCWithPermanentStatusRequest": 0x15,
}


def _mk_dtc_mask(cls: str, sf: int) -> None:
    @reg(cls)
    def g(rng: random.Random) -> Iterator[Case]:
        m, spr = rng.choice(bvals(0xFF, rng)), rng.random() < 0.5
        yield Case(cls, (m, spr), {}, iso.req_read_dtc_mask(sf, m, spr), {"dtc_status_mask": m, "suppress_response": spr})

    @regbad(cls)
    def b(rng: random.Random) -> Iterator[Case]:
        for v in BAD_BYTE:
            yield Case(cls, (v, False), {}, None, bad="DTCStatusMask")


def _mk_dtc_plain(cls: str, sf: int) -> None:
    @reg(cls)
    def g(rng: random.Random) -> Iterator[Case]:
        # these kinds carry no mask in ISO: the only parameter is the suppress bit
        spr = rng.random() < 0.5
        yield Case(cls, (spr,), {}, iso.req_read_dtc_plain(sf, spr), {"suppress_response": spr})


for _c, _s in DTC_MASK_KINDS.items():
    _mk_dtc_mask(_c, _s)
for _c, _s in DTC_PLAIN_KINDS.items():
    _mk_dtc_plain(_c, _s)


@reg("ReportDTCExtDataRecordByDTCNumberRequest")
def _g_ext(rng: random.Random) -> Iterator[Case]:
    d, n, spr = rng.choice(bvals(0xFFFFFF, rng)), rng.choice(bvals(0xFF, rng)), rng.random() < 0.5
    exp = iso.req_read_dtc_ext(d, n, spr)
    fields = {"dtc_mask_record": d, "dtc_ext_data_record_number": n, "suppress_response": spr}
    if rng.random() < 0.5:
        yield Case("ReportDTCExtDataRecordByDTCNumberRequest", (d, n, spr), {}, exp, fields)
    else:
        yield Case("ReportDTCExtDataRecordByDTCNumberRequest", (d.to_bytes(3, "big"), n, spr), {}, exp, fields)


@regbad("ReportDTCExtDataRecordByDTCNumberRequest")
def _b_ext(rng: random.Random) -> Iterator[Case]:
    for v in [0x1000000, -1]:
        yield Case("ReportDTCExtDataRecordByDTCNumberRequest", (v, 1, False), {}, None, bad="DTCMaskRecord")
    for v in BAD_BYTE:
        yield Case("ReportDTCExtDataRecordByDTCNumberRequest", (1, v, False), {}, None, bad="DTCExtDataRecordNumber")
    yield Case("ReportDTCExtDataRecordByDTCNumberRequest", (b"\x01\x02", 1, False), {}, None, bad="DTCMaskRecord not 3 bytes")


@reg("InputOutputControlByIdentifierRequest")
def _g_io(rng: random.Random) -> Iterator[Case]:
    d, o, m = rnd_did(rng), rec(rng, nonempty=True), rec(rng, rng.choice([0, 0, 1, 4]))
    # the option/mask split is not recoverable from the bytes: only the identifier is compared after parsing
    yield Case("InputOutputControlByIdentifierRequest", (d, o, m), {}, iso.req_iocbi(d, o, m), {"data_identifier": d})


@regbad("InputOutputControlByIdentifierRequest")
def _b_io(rng: random.Random) -> Iterator[Case]:
    for v in BAD_DID:
        yield Case("InputOutputControlByIdentifierRequest", (v, b"\x00", b""), {}, None, bad="dataIdentifier")
    yield Case("InputOutputControlByIdentifierRequest", (1, b"", b""), {}, None, bad="empty controlOptionRecord")


def _mk_io_wrapper(cls: str, param: int) -> None:
    @reg(cls)
    def g(rng: random.Random) -> Iterator[Case]:
        d, m = rnd_did(rng), rec(rng, rng.choice([0, 0, 1, 4, 255]))
        yield Case(cls, (d, m), {}, iso.req_iocbi(d, bytes([param]), m), {"data_identifier": d, "control_option_record": bytes([param]), "control_enable_mask_record": m})

    @regbad(cls)
    def b(rng: random.Random) -> Iterator[Case]:
        for v in BAD_DID:
            yield Case(cls, (v, b""), {}, None, bad="dataIdentifier")


_mk_io_wrapper("ReturnControlToECURequest", 0)
_mk_io_wrapper("ResetToDefaultRequest", 1)
_mk_io_wrapper("FreezeCurrentStateRequest", 2)


@reg("ShortTermAdjustmentRequest")
def _g_sta(rng: random.Random) -> Iterator[Case]:
    d, st, m = rnd_did(rng), rec(rng, nonempty=True), rec(rng, rng.choice([0, 0, 1, 4]))
    yield Case("ShortTermAdjustmentRequest", (d, st, m), {}, iso.req_iocbi(d, b"\x03" + st, m), {"data_identifier": d})  # states/mask split not recoverable from bytes


@regbad("ShortTermAdjustmentRequest")
def _b_sta(rng: random.Random) -> Iterator[Case]:
    for v in BAD_DID:
        yield Case("ShortTermAdjustmentRequest", (v, b"\x01", b""), {}, None, bad="dataIdentifier")


def _mk_routine(cls: str, sf: int) -> None:
    @reg(cls)
    def g(rng: random.Random) -> Iterator[Case]:
        rid, r, spr = rnd_did(rng), rec(rng), rng.random() < 0.5
        yield Case(cls, (rid, r, spr), {}, iso.req_routine(sf, rid, r, spr), {"routine_identifier": rid, "routine_control_option_record": r, "suppress_response": spr})

    @regbad(cls)
    def b(rng: random.Random) -> Iterator[Case]:
        for v in BAD_DID:
            yield Case(cls, (v, b"", False), {}, None, bad="routineIdentifier")


_mk_routine("StartRoutineRequest", 1)
_mk_routine("StopRoutineRequest", 2)
_mk_routine("RequestRoutineResultsRequest", 3)


def _mk_updown(cls: str, sid: int) -> None:
    @reg(cls)
    def g(rng: random.Random) -> Iterator[Case]:
        a, s, f = rnd_mem(rng)
        c, e = rng.choice(bvals(0xF, rng)), rng.choice(bvals(0xF, rng))
        exp = iso.req_updown(sid, a, s, c, e, f)
        yield Case(cls, (a, s, c, e, f), {}, exp, {"memory_address": a, "memory_size": s, "compression_method": c, "encryption_method": e, "address_and_length_format_identifier": exp[2]})

    @regbad(cls)
    def b(rng: random.Random) -> Iterator[Case]:
        for a, s, f, why in _bad_mem(rng):
            yield Case(cls, (a, s, 0, 0, f), {}, None, bad=why)
        for v in [0x10, -1, 0xFF]:
            yield Case(cls, (1, 1, v, 0, None), {}, None, bad="compressionMethod")
            yield Case(cls, (1, 1, 0, v, None), {}, None, bad="encryptionMethod")


_mk_updown("RequestDownloadRequest", 0x34)
_mk_updown("RequestUploadRequest", 0x35)


@reg("TransferDataRequest")
def _g_td(rng: random.Random) -> Iterator[Case]:
    b, r = rng.choice(bvals(0xFF, rng)), rec(rng)
    yield Case("TransferDataRequest", (b, r), {}, iso.req_transfer_data(b, r), {"block_sequence_counter": b, "transfer_request_parameter_record": r})


@regbad("TransferDataRequest")
def _b_td(rng: random.Random) -> Iterator[Case]:
    for v in BAD_BYTE:
        yield Case("TransferDataRequest", (v, b""), {}, None, bad="blockSequenceCounter")


@reg("RequestTransferExitRequest")
def _g_rte(rng: random.Random) -> Iterator[Case]:
    r = rec(rng)
    yield Case("RequestTransferExitRequest", (r,), {}, iso.req_transfer_exit(r), {"transfer_request_parameter_record": r})


@reg("RawRequest")
def _g_raw(rng: random.Random) -> Iterator[Case]:
    r = rec(rng, nonempty=True)
    yield Case("RawRequest", (r,), {}, r, {"pdu": r})


# wrappers whose dynamic re-parse legitimately yields the generic request class of the service
DYNAMIC_GENERIC = {
    "ReturnControlToECURequest": "InputOutputControlByIdentifierRequest",
    "ResetToDefaultRequest": "InputOutputControlByIdentifierRequest",
    "FreezeCurrentStateRequest": "InputOutputControlByIdentifierRequest",
    "ShortTermAdjustmentRequest": "InputOutputControlByIdentifierRequest",
}


def any_valid_request(rng: random.Random, exclude_raw: bool = True) -> Case:
    names = [n for n in GEN if not (exclude_raw and n == "RawRequest")]
    return next(GEN[rng.choice(names)](rng))
