"""ECU models and plumbing for scanner runs (C09, C10): the REAL scanner classes run in-process, in virtual time,
against an ECU model behind a transport that keeps an ECU-side ground-truth log.

    InProcessTransport   BaseTransport whose write() hands the request to gallia's UDSServerTransport.handle_request() of the
                         model and queues the reply; read() returns the queued reply or times out after `timeout` virtual
                         seconds.  Every request is logged as (session before, request, reply | None, session after).
    GraphECU             harness subclass of gallia's UDSServer: session transitions are an arbitrary directed graph; the
                         default response chain of the real base class is left switched on, so an absent edge is answered
                         with 0x12 / 0x7E by gallia's own rules.  Guarded edges answer another NRC and do not change session.
                         `mute` = {(ECU session, service id): minimum payload length}: a request to that service in that session
                         whose payload (bytes after the service id) is shorter than the minimum is dropped by the ECU without
                         any reply and without any effect (an ECU that silently discards under-length requests); logged with
                         reply None, log indices kept in self.muted.
                         `silent_reset` = {"where": "always" | "non-default", "p": probability, "seed": int}: an ECUReset the
                         ECU accepts is EXECUTED (state back to power-on, default session) but, under that rule, never answered
                         (the reset is faster than the response); the log shows reply None and session-after 1.
                         `hooked` = {(from, to)}: transitions the ECU refuses with conditionsNotCorrect (0x22) unless the
                         request directly before the DiagnosticSessionControl armed them: WriteDataByIdentifier
                         UNLOCK_DID <session id> (one-shot, consumed by the next session change request, cleared by a reset).
    hook_ecu_class       harness OEM subclass of gallia's ECU whose set_session_pre() hook sends that arming request.
    ResultCapture        logging handler collecting the result-tagged records of the scanner (no console / file output).
    make_scanner         builds a scanner object from keyword options through its own pydantic CONFIG_TYPE (no CLI).
    run_scanner          runs main() (ecu assigned directly) or run() = setup()/main()/teardown() (transport loader patched);
                         with db=True the scanner's own _db_insert_run_meta() / _db_finish_run_meta() (what entry_point() does
                         around run()) open and close a real DBHandler on config.db.  DB-backed runs need a REAL event loop
                         (aiosqlite worker thread), see run_real().
    read_session_transitions   the session_transition rows of a database file, read with the stdlib sqlite3 module.

Nothing here decides a property; the oracles live in vf/checks/c09.py and c10.py and read only the ground-truth log.
"""

from __future__ import annotations

import asyncio
import logging
import random
from collections import deque
from typing import Any

import gallia.command  # noqa: F401  (must precede gallia.plugins.plugin)
from gallia.services.uds.core import service
from gallia.services.uds.core.constants import UDSErrorCodes, UDSIsoServices
from gallia.services.uds.server import UDSServer, UDSServerTransport
from gallia.transports.base import BaseTransport, TargetURI

TARGET = "tcp-lines://127.0.0.1:1"


class BudgetExceeded(BaseException):
    """more requests than the run can legitimately need: the scan does not terminate (BaseException: must not be swallowed
    by the scanners' `except Exception`)"""


class InProcessTransport(BaseTransport, scheme="inprocess"):
    def __init__(self, server: UDSServer, budget: int | None = None, dropouts: set[int] | None = None,
                 drop_filter: Any = None, losses: set[int] | None = None, mute: dict[tuple[int, int], int] | None = None) -> None:
        super().__init__(TargetURI(TARGET))
        self.server = server
        self.st = UDSServerTransport(server, TargetURI(TARGET))
        self.queue: deque[bytes] = deque()
        self.log: list[tuple[int, bytes, bytes | None, int]] = []
        self.budget = budget
        self.reconnects = 0
        self.closed = 0
        # ECU-side perturbation: after answering the n-th request that `drop_filter` accepts, the ECU falls back to its
        # power-on state (S3 timeout / brown-out).  Logged as a pseudo entry (session, b"", None, 1).
        self.dropouts = dropouts or set()
        self.drop_filter = drop_filter
        # network-side perturbation: the reply to the n-th accepted request is produced by the ECU but never delivered
        # (log indices of such entries are kept in self.lost)
        self.losses = losses or set()
        self.lost: set[int] = set()
        self._n_filtered = 0
        self.n_dropouts = 0
        # ECU-side behaviour: under-length requests to (session, service id) are discarded without a reply
        self.mute = dict(mute or {})
        self.muted: set[int] = set()

    @classmethod
    async def connect(cls, target: str | TargetURI, timeout: float | None = None) -> "InProcessTransport":
        raise NotImplementedError

    async def close(self) -> None:
        self.closed += 1

    async def reconnect(self, timeout: float | None = None) -> "InProcessTransport":
        self.reconnects += 1
        self.queue.clear()
        return self

    async def write(self, data: bytes, timeout: float | None = None, tags: list[str] | None = None) -> int:
        if self.budget is not None and len(self.log) >= self.budget:
            raise BudgetExceeded(f"{len(self.log)} requests")
        data = bytes(data)
        before = self.server.state.session
        self.queue.clear()  # a reply nobody read is gone (cannot happen: replies are produced synchronously)
        if self.mute and data:
            need = self.mute.get((before, data[0]))
            if need is not None and len(data) - 1 < need:
                self.muted.add(len(self.log))
                self.log.append((before, data, None, before))
                return len(data)
        reply, _ = await self.st.handle_request(data)
        after = self.server.state.session
        self.log.append((before, data, reply, after))
        accepted = bool(self.dropouts or self.losses) and self.drop_filter is not None and self.drop_filter(data)
        if accepted:
            self._n_filtered += 1
        if reply is not None:
            if accepted and self._n_filtered in self.losses:
                self.lost.add(len(self.log) - 1)
            else:
                self.queue.append(reply)
        if accepted:
            if self._n_filtered in self.dropouts:
                self.server.state.reset()
                self.n_dropouts += 1
                self.log.append((after, b"", None, self.server.state.session))
        return len(data)

    async def read(self, timeout: float | None = None, tags: list[str] | None = None) -> bytes:
        if self.queue:
            return self.queue.popleft()
        if timeout is None:
            await asyncio.get_running_loop().create_future()  # blocks forever -> vtime.Deadlock
        await asyncio.sleep(timeout or 0)
        raise TimeoutError("no reply from the ECU model")


class GraphECU(UDSServer):
    """edges: session -> sessions that DiagnosticSessionControl may enter from it.
    guarded: (from, to) -> NRC answered instead of the change (the sub-function is offered, the ECU stays where it is)."""

    def __init__(self, edges: dict[int, list[int]], guarded: dict[tuple[int, int], int] | None = None,
                 with_reset: bool = True, with_rdbi: bool = True, silent_reset: dict[str, Any] | None = None,
                 hooked: Any = None) -> None:
        super().__init__()
        self.edges = {int(k): sorted(int(x) for x in v) for k, v in edges.items()}
        self.guarded = dict(guarded or {})
        self.hooked = {(int(a), int(b)) for a, b in (hooked or ())}
        self.armed: int | None = None  # session id armed by the last UNLOCK_DID write
        self.n_armed = 0
        self.silent_reset = dict(silent_reset) if silent_reset else None
        self._silent_rng = random.Random(self.silent_reset.get("seed", 0)) if self.silent_reset else None
        self.n_silent_resets = 0
        sessions = set(self.edges) | {x for v in self.edges.values() for x in v} | {1} | {b for (_, b) in self.guarded} | {x for e in self.hooked for x in e}
        self._services: dict[int, dict[UDSIsoServices, list[int] | None]] = {}
        for s in sorted(sessions):
            d: dict[UDSIsoServices, list[int] | None] = {
                UDSIsoServices.DiagnosticSessionControl: sorted(set(self.edges.get(s, [])) | {b for (a, b) in self.guarded if a == s}),
                UDSIsoServices.TesterPresent: [0],
            }
            if with_rdbi:
                d[UDSIsoServices.ReadDataByIdentifier] = None
            if with_reset:
                d[UDSIsoServices.EcuReset] = [1, 2, 3]
            if self.hooked:
                d[UDSIsoServices.WriteDataByIdentifier] = None
            self._services[s] = d

    @property
    def supported_services(self) -> dict[int, dict[UDSIsoServices, list[int] | None]]:
        return self._services

    def default_response_if_session_change(self, request: service.UDSRequest) -> Any:
        if isinstance(request, service.DiagnosticSessionControlRequest):
            nrc = self.guarded.get((self.state.session, request.diagnostic_session_type))
            if nrc is not None:
                return service.NegativeResponse(request.service_id, UDSErrorCodes(nrc))
            if (self.state.session, request.diagnostic_session_type) in self.hooked and self.armed != request.diagnostic_session_type:
                return service.NegativeResponse(request.service_id, UDSErrorCodes.conditionsNotCorrect)
        return super().default_response_if_session_change(request)

    async def respond_after_default(self, request: service.UDSRequest) -> service.UDSResponse | None:
        if isinstance(request, service.ECUResetRequest):
            return service.ECUResetResponse(request.reset_type)
        if self.hooked and isinstance(request, service.WriteDataByIdentifierRequest):
            if request.data_identifier == UNLOCK_DID and len(request.data_record) == 1:
                self.armed = request.data_record[0]
                self.n_armed += 1
                return service.WriteDataByIdentifierResponse(request.data_identifier)
            return service.NegativeResponse(request.service_id, UDSErrorCodes.requestOutOfRange)
        return None

    async def respond(self, request: service.UDSRequest) -> service.UDSResponse | None:
        before = self.state.session
        response = await super().respond(request)
        if isinstance(request, service.DiagnosticSessionControlRequest):
            self.armed = None  # one-shot: whatever the answer, the arming is used up by the next session change request
        if isinstance(request, service.ECUResetRequest) and isinstance(response, service.ECUResetResponse):
            self.armed = None
            sr = self.silent_reset
            if sr is not None and (sr.get("where", "always") == "always" or before != 1):
                assert self._silent_rng is not None
                if self._silent_rng.random() < sr.get("p", 1.0):
                    self.n_silent_resets += 1
                    return None  # the reset has been carried out (update_state ran); the answer is never sent
        return response


UNLOCK_DID = 0xF05E


def arming_request(session: int) -> bytes:
    return bytes([0x2E, UNLOCK_DID >> 8, UNLOCK_DID & 0xFF, session & 0xFF])


_hook_ecu: Any = None


def hook_ecu_class() -> Any:
    """OEM-specific ECU class of the harness: set_session_pre() arms the requested session on the ECU (a request on the wire,
    visible in the ECU-side log).  gallia calls the hook from ECU.set_session() unless UDSRequestConfig.skip_hooks is set."""
    global _hook_ecu
    if _hook_ecu is None:
        from gallia.services.uds import NegativeResponse, UDSRequestConfig
        from gallia.services.uds.ecu import ECU

        class HookECU(ECU):
            OEM = "vf-hooked"

            async def set_session_pre(self, level: int, config: UDSRequestConfig | None = None) -> bool:
                resp = await self.write_data_by_identifier(UNLOCK_DID, bytes([level & 0xFF]), config=UDSRequestConfig(skip_hooks=True))
                return not isinstance(resp, NegativeResponse)

        _hook_ecu = HookECU
    return _hook_ecu


# ---- result capture ----------------------------------------------------------------------------------------------
class ResultCapture(logging.Handler):
    """collects (logger name, message) of result-tagged records; warnings/errors are kept separately for witnesses"""

    def __init__(self) -> None:
        super().__init__(level=0)
        self.results: list[tuple[str, str]] = []
        self.problems: list[str] = []

    def emit(self, record: logging.LogRecord) -> None:
        try:
            tags = getattr(record, "tags", None) or []
            if "result" in tags:
                self.results.append((record.name, record.getMessage()))
            elif record.levelno >= logging.ERROR and len(self.problems) < 20:
                self.problems.append(record.getMessage()[:300])
        except Exception:  # a monitor must not disturb the run
            pass


_capture: ResultCapture | None = None


def capture_logging() -> ResultCapture:
    """Route gallia's log records at NOTICE and above to one in-memory handler (idempotent); nothing is printed."""
    global _capture
    from gallia.log import Loglevel

    lg = logging.getLogger("gallia")
    if _capture is None:
        _capture = ResultCapture()
        lg.addHandler(_capture)
    lg.setLevel(Loglevel.NOTICE)
    lg.propagate = False
    logging.disable(logging.NOTSET)
    return _capture


def fresh_capture() -> ResultCapture:
    c = capture_logging()
    c.results = []
    c.problems = []
    return c


# ---- scanner construction / execution --------------------------------------------------------------------------
def make_scanner(cls: Any, **options: Any) -> Any:
    """the scanner object as the CLI would build it: options validated by the command's own pydantic config class"""
    base = {"target": TARGET, "dumpcap": False, "db": None, "artifacts_base": None, "power_supply": None, "hooks": False}
    base.update(options)
    return cls(cls.CONFIG_TYPE(**base))


class _Loader:
    def __init__(self, transport: BaseTransport) -> None:
        self.transport = transport

    async def connect(self, target: Any, timeout: float | None = None) -> BaseTransport:
        return self.transport


async def run_scanner(scanner: Any, transport: InProcessTransport, full: bool, db: bool = False, ecu_cls: Any = None) -> dict[str, Any]:
    """full=False: scanner.ecu is assigned and main() awaited.  full=True: the real run() (= setup(), main(), teardown())
    with gallia.plugins.plugin.load_transport patched to hand out `transport`.
    db=True (config.db must name the sqlite file; real event loop only): the scanner's own _db_insert_run_meta() runs first and
    _db_finish_run_meta() last, as in entry_point(); with full=False the database part of UDSScanner.setup() is repeated here
    (handler handed to the ECU, insert_scan_run(target)).
    ecu_cls: OEM ECU class to use instead of gallia's default ECU (full=True: gallia.command.uds.load_ecu patched to hand it out).
    Returns {"exit": None | code, "error": exception | None, "run": scan_run id | None}."""
    from gallia.command import uds as uds_command
    from gallia.plugins import plugin
    from gallia.services.uds.ecu import ECU

    out: dict[str, Any] = {"exit": None, "error": None, "run": None}
    try:
        if db:
            await scanner._db_insert_run_meta()
        if full:
            orig = plugin.load_transport
            orig_ecu = uds_command.load_ecu
            plugin.load_transport = lambda target: _Loader(transport)  # type: ignore[assignment]
            if ecu_cls is not None:
                uds_command.load_ecu = lambda vendor: ecu_cls  # type: ignore[assignment]
            try:
                await scanner.run()
            finally:
                plugin.load_transport = orig  # type: ignore[assignment]
                uds_command.load_ecu = orig_ecu  # type: ignore[assignment]
        else:
            scanner.transport = transport
            scanner.ecu = (ecu_cls or ECU)(transport, timeout=scanner.config.timeout, max_retry=scanner.config.max_retries)
            if db:
                scanner.ecu.db_handler = scanner.db_handler
                await scanner.db_handler.insert_scan_run(scanner.config.target.raw)
                scanner._apply_implicit_logging_setting()
            await scanner.main()
    except SystemExit as e:
        out["exit"] = e.code if isinstance(e.code, int) else 1
    except BudgetExceeded as e:
        out["error"] = e
    except Exception as e:
        out["error"] = e
    finally:
        if db and scanner.db_handler is not None:
            out["run"] = scanner.db_handler.scan_run
            scanner.run_meta.exit_code = out["exit"] or 0
            await scanner._db_finish_run_meta()
    return out


def run_real(coro: Any, wall_limit: float) -> Any:
    """Run `coro` on a fresh REAL event loop (DB-backed scans: aiosqlite completes its futures from a worker thread, which a
    virtual-time loop would misread as 'nothing scheduled').  TimeoutError after `wall_limit` real seconds."""
    async def guarded() -> Any:
        return await asyncio.wait_for(coro, wall_limit)

    try:
        return asyncio.run(guarded())
    finally:
        asyncio.set_event_loop(None)


def read_session_transitions(path: Any) -> list[tuple[int, int, Any]]:
    """[(scan run id, destination, steps)] in insertion order; steps decoded from JSON (whatever it holds)"""
    import json
    import sqlite3

    con = sqlite3.connect(f"file:{path}?mode=ro", uri=True)
    try:
        rows = con.execute("SELECT run, destination, steps FROM session_transition ORDER BY rowid").fetchall()
    finally:
        con.close()
    out = []
    for run, dest, steps in rows:
        try:
            dec = json.loads(steps) if steps is not None else None
        except ValueError:
            dec = steps
        out.append((run, dest, dec))
    return out


def remove_db(path: Any) -> None:
    from pathlib import Path

    for suffix in ("", "-wal", "-shm", "-journal"):
        Path(str(path) + suffix).unlink(missing_ok=True)


def render_ranges(rng: Any, values: list[int]) -> list[str]:
    """a set of ints as a user would write it in gallia's range grammar: single ids and a-b ranges, decimal or hex,
    shuffled and split over several comma-joined arguments (each returned string is one argument without blanks)"""
    vs = sorted(set(values))
    items: list[str] = []
    i = 0
    while i < len(vs):
        j = i
        while j + 1 < len(vs) and vs[j + 1] == vs[j] + 1:
            j += 1
        f = hex if rng.random() < 0.6 else str
        if j > i and rng.random() < 0.8:
            items.append(f"{f(vs[i])}-{f(vs[j])}")
        else:
            items.extend(f(x) for x in vs[i : j + 1])
        i = j + 1
    rng.shuffle(items)
    out: list[str] = []
    while items:
        k = rng.randint(1, len(items))
        out.append(",".join(items[:k]))
        items = items[k:]
    return out


def hexlog(log: list[tuple[int, bytes, bytes | None, int]], last: int = 40) -> list[str]:
    return [f"{b:02x}| {q.hex() or 'DROPOUT'} -> {r.hex() if r is not None else '-'} |{a:02x}" for b, q, r, a in log[-last:]]
