"""Shared pieces for C11 / C12: a real DBHandler on a sqlite file in the scratch directory, transports for a real
(not virtual-time) event loop, capture of gallia's "could not log" warnings, and plain sqlite3 readers.

aiosqlite runs its connection in a worker thread, so these checks run on a real event loop.  Nothing here sleeps:
a read without a queued reply raises TimeoutError after one scheduling point.
"""

from __future__ import annotations

import asyncio
import logging
import sqlite3
from datetime import UTC, datetime
from pathlib import Path
from typing import Any, Awaitable, Callable

from gallia.transports.base import BaseTransport, TargetURI

LOST_ROW_MSG = "Could not log messages to database"


def ux(x: Any) -> Any:
    """inverse of runner.jsonable for bytes"""
    if isinstance(x, str) and x.startswith("hex:"):
        return bytes.fromhex(x[4:])
    return x


# ---- logging --------------------------------------------------------------------------------------
class Catcher(logging.Handler):
    """Collects gallia's warnings (the monitors need 'Could not log messages to database'), prints nothing."""

    def __init__(self) -> None:
        super().__init__(level=logging.WARNING)
        self.lost: list[str] = []
        self.other: list[tuple[str, str]] = []

    def emit(self, record: logging.LogRecord) -> None:
        try:
            msg = record.getMessage()
        except Exception:  # noqa: BLE001
            msg = str(record.msg)
        if LOST_ROW_MSG in msg:
            self.lost.append(msg)
        elif record.levelno >= logging.ERROR:
            if len(self.other) < 50:
                self.other.append((record.name, msg[:300]))

    def take_lost(self) -> list[str]:
        out, self.lost = self.lost, []
        return out

    def take_other(self) -> list[tuple[str, str]]:
        out, self.other = self.other, []
        return out


_catcher: Catcher | None = None


def install_catcher() -> Catcher:
    global _catcher
    if _catcher is None:
        _catcher = Catcher()
        lg = logging.getLogger("gallia")
        lg.setLevel(logging.WARNING)
        lg.propagate = False
        lg.addHandler(_catcher)
        logging.getLogger("aiosqlite").setLevel(logging.ERROR)
        logging.getLogger("asyncio").setLevel(logging.CRITICAL)
    return _catcher


# ---- database -------------------------------------------------------------------------------------
GUARD_S = 60.0  # wall-clock guard around one step of gallia's database code (such a step takes milliseconds)


class HandlerStep(Exception):
    """One step of gallia's own database code (DBHandler method) raised or did not return within the guard.
    step: method name; kind: "raises" | "hangs"; error: repr of the exception ("" for a hang)."""

    def __init__(self, step: str, kind: str, error: str = "", etype: str = "") -> None:
        super().__init__(f"DBHandler.{step} {kind} {error}")
        self.step, self.kind, self.error, self.etype = step, kind, error, etype


async def guarded(aw: Awaitable[Any], step: str, seconds: float = GUARD_S) -> Any:
    """await one DBHandler step; an exception of that step or an expired guard becomes HandlerStep (the caller decides what it means)"""
    try:
        return await asyncio.wait_for(aw, seconds)
    except TimeoutError as e:
        # py3.12: wait_for raises the builtin TimeoutError when the guard expires; none of the DBHandler steps raises it on its own
        raise HandlerStep(step, "hangs", f"no return within {seconds:.0f} s wall clock", "TimeoutError") from e
    except Exception as e:  # noqa: BLE001
        raise HandlerStep(step, "raises", repr(e)[:300], type(e).__name__) from e


async def force_close(handler: Any, task: Any = None, seconds: float = 15.0) -> None:
    """After a failed / cancelled step: stop the writer task and close the sqlite connection so that its worker thread ends
    (aiosqlite's thread is not a daemon: a connection left open keeps the interpreter alive for ever).  Never raises."""
    for t in (task, getattr(handler, "_executor_task", None)):
        if t is not None and not t.done():
            t.cancel()
            try:
                await asyncio.wait_for(asyncio.gather(t, return_exceptions=True), 5)
            except BaseException:  # noqa: BLE001
                pass
    handler._executor_task = None
    handler._execute_queue = None
    conn = getattr(handler, "connection", None)
    if conn is not None:
        try:
            await asyncio.wait_for(conn.close(), seconds)
        except BaseException:  # noqa: BLE001
            try:
                conn.stop()
            except Exception:  # noqa: BLE001
                pass
        handler.connection = None


async def close_handler(handler: Any, seconds: float = GUARD_S) -> None:
    """handler.disconnect() under the guard; if it raises or does not return, everything is torn down by force and
    HandlerStep("disconnect", ...) is raised."""
    task = getattr(handler, "_executor_task", None)
    try:
        await guarded(handler.disconnect(), "disconnect", seconds)
    except BaseException:
        await force_close(handler, task)
        raise


def stop_leaked_connections() -> int:
    """Last resort before a shard process ends: every aiosqlite connection whose worker thread still runs is told to stop
    (an open connection would block interpreter shutdown until the watchdog).  Returns the number found."""
    import gc

    import aiosqlite

    n = 0
    for o in gc.get_objects():
        try:
            if isinstance(o, aiosqlite.Connection) and o._thread.is_alive():
                n += 1
                o.stop()
        except Exception:  # noqa: BLE001
            pass
    return n


def arm_exit_watchdog(seconds: float) -> None:
    """If this process is still alive after `seconds` (a step without guard blocks, or a leaked non-daemon thread blocks the
    interpreter shutdown after the report was written), dump all stacks to stderr and _exit: a shard must never sit idle
    until the runner's watchdog."""
    import faulthandler

    faulthandler.dump_traceback_later(max(30.0, seconds), exit=True)


async def open_handler(path: Path, target: str, script: str = "vf.dbharness", before_scan_run: Callable[[], None] | None = None) -> Any:
    """What Script._db_insert_run_meta and UDSScanner.setup do before the first request.
    Every step runs under the wall-clock guard; if one fails the connection is closed again and HandlerStep is raised.
    before_scan_run() is called after the run_meta row is committed and before insert_scan_run (to look at the file)."""
    import gallia.command  # noqa: F401
    from gallia.command.config import GalliaBaseModel
    from gallia.db.handler import DBHandler

    class _Cfg(GalliaBaseModel):
        pass

    h = DBHandler(path)
    try:
        await guarded(h.connect(), "connect")
        await guarded(h.insert_run_meta(script=script, config=_Cfg(), start_time=datetime.now(UTC).astimezone(), path=None), "insert_run_meta")
        if before_scan_run is not None:
            before_scan_run()
        await guarded(h.insert_scan_run(target), "insert_scan_run")
    except BaseException:
        await force_close(h)
        raise
    return h


async def open_discovery(path: Path, urls: list[str], protocol: str = "vf", script: str = "vf.dbharness.discover") -> None:
    """What a discovery scanner leaves behind: a run_meta row, a discovery_run and one address row + discovery_result per
    url, all written by gallia's DBHandler (insert_discovery_run / insert_discovery_result)."""
    import gallia.command  # noqa: F401
    from gallia.command.config import GalliaBaseModel
    from gallia.db.handler import DBHandler

    class _Cfg(GalliaBaseModel):
        pass

    h = DBHandler(path)
    try:
        await guarded(h.connect(), "connect")
        await guarded(h.insert_run_meta(script=script, config=_Cfg(), start_time=datetime.now(UTC).astimezone(), path=None), "insert_run_meta")
        await guarded(h.insert_discovery_run(protocol), "insert_discovery_run")
        for u in urls:
            await guarded(h.insert_discovery_result(u), "insert_discovery_result")
    except BaseException:
        await force_close(h)
        raise
    await close_handler(h)


def read_rows(path: Path, run: int | None = None) -> list[dict[str, Any]]:
    con = sqlite3.connect(f"file:{path}?mode=ro", uri=True)
    try:
        con.row_factory = sqlite3.Row
        q = "SELECT * FROM scan_result" + (" WHERE run = ?" if run is not None else "") + " ORDER BY id"
        return [dict(r) for r in con.execute(q, (run,) if run is not None else ())]
    finally:
        con.close()


def sql(path: Path, script: str, params: tuple[Any, ...] = ()) -> list[tuple[Any, ...]]:
    con = sqlite3.connect(path)
    try:
        cur = con.execute(script, params)
        rows = cur.fetchall()
        con.commit()
        return rows
    finally:
        con.close()


def unhex(v: Any) -> bytes | None:
    """scan_result stores pdus as hex text (declared blob); accept either representation"""
    if v is None:
        return None
    if isinstance(v, bytes):
        try:
            return bytes.fromhex(v.decode("ascii"))
        except (UnicodeDecodeError, ValueError):
            return v
    try:
        return bytes.fromhex(v)
    except ValueError:
        # a stored text that is no hex string is not the pdu, whatever it is: hand the comparison something that equals no pdu
        return b"\x00stored text is not hex: " + str(v)[:48].encode("utf-8", "replace") + b" ... " + str(v)[-16:].encode("utf-8", "replace")


# ---- transports -----------------------------------------------------------------------------------
class WireTransport(BaseTransport, scheme="vfwire"):
    """Plays a per-exchange event list and logs every write / read.

    events (consumed by read() unless noted):
        ("reply", bytes)  the read returns the bytes
        ("T",)            the read raises TimeoutError
        ("C",)            the read raises ConnectionResetError
        ("E",)            the read returns b""
        ("W",)            consumed by write(): raises BrokenPipeError
        ("G",)            gate: the read blocks until gate_open is set (or forever); used to cancel mid-exchange
        ("X",)            the read raises RuntimeError (an unexpected failure below the UDS layer)
    After the list is exhausted every read raises TimeoutError.
    log entries: ("write", bytes, error|None) / ("read", bytes|error-name) / ("reconnect",)
    """

    def __init__(self) -> None:
        super().__init__(TargetURI("tcp-lines://127.0.0.1:1"))
        self.events: list[tuple[Any, ...]] = []
        self.log: list[tuple[Any, ...]] = []
        self.gate_reached = asyncio.Event()
        self.gate_open = asyncio.Event()

    def arm(self, events: list[tuple[Any, ...]]) -> None:
        self.events = list(events)

    @classmethod
    async def connect(cls, target: str | TargetURI, timeout: float | None = None) -> "WireTransport":
        raise NotImplementedError

    async def close(self) -> None:
        self.is_closed = True

    async def reconnect(self, timeout: float | None = None) -> "WireTransport":
        self.log.append(("reconnect",))
        return self

    async def write(self, data: bytes, timeout: float | None = None, tags: list[str] | None = None) -> int:
        if self.events and self.events[0][0] == "W":
            self.events.pop(0)
            self.log.append(("write", bytes(data), "BrokenPipeError"))
            raise BrokenPipeError("scripted write failure")
        self.log.append(("write", bytes(data), None))
        return len(data)

    async def read(self, timeout: float | None = None, tags: list[str] | None = None) -> bytes:
        await asyncio.sleep(0)
        if not self.events or self.events[0][0] in ("T", "W"):
            if self.events and self.events[0][0] == "T":
                self.events.pop(0)
            self.log.append(("read", "TimeoutError"))
            raise TimeoutError("scripted timeout")
        ev = self.events.pop(0)
        if ev[0] == "G":
            self.gate_reached.set()
            await self.gate_open.wait()
            self.gate_open.clear()
            return await self.read(timeout, tags)
        if ev[0] == "X":
            self.log.append(("read", "RuntimeError"))
            raise RuntimeError("scripted transport failure")
        if ev[0] == "C":
            self.log.append(("read", "ConnectionResetError"))
            raise ConnectionResetError("scripted connection loss")
        if ev[0] == "E":
            self.log.append(("read", b""))
            return b""
        assert ev[0] == "reply", ev
        self.log.append(("read", bytes(ev[1])))
        return bytes(ev[1])


class ResponderTransport(BaseTransport, scheme="vfresp"):
    """In-process transport in front of an ECU: write() hands the request to `responder` (an async callable
    bytes -> list of reply bytes, usually zero or one) and queues the replies; read() pops one or times out at once.
    log: one entry [request, [replies delivered to the client ...]] per write."""

    def __init__(self, responder: Callable[[bytes], Awaitable[list[bytes]]]) -> None:
        super().__init__(TargetURI("tcp-lines://127.0.0.1:1"))
        self.responder = responder
        self.queue: list[bytes] = []
        self.log: list[list[Any]] = []

    @classmethod
    async def connect(cls, target: str | TargetURI, timeout: float | None = None) -> "ResponderTransport":
        raise NotImplementedError

    async def close(self) -> None:
        self.is_closed = True

    async def reconnect(self, timeout: float | None = None) -> "ResponderTransport":
        return self

    async def write(self, data: bytes, timeout: float | None = None, tags: list[str] | None = None) -> int:
        self.queue.clear()  # a reply nobody read belongs to the previous request
        self.log.append([bytes(data), []])
        self.queue.extend(await self.responder(bytes(data)))
        return len(data)

    async def read(self, timeout: float | None = None, tags: list[str] | None = None) -> bytes:
        await asyncio.sleep(0)
        if not self.queue:
            raise TimeoutError("no reply")
        r = self.queue.pop(0)
        self.log[-1][1].append(r)
        return r


def make_ecu(transport: BaseTransport, handler: Any, max_retry: int = 0) -> Any:
    from gallia.services.uds.ecu import ECU

    ecu = ECU(transport, timeout=0.05, max_retry=max_retry)
    ecu.retry_wait = 0.0  # harness configuration: no real back-off sleeps on the real loop
    ecu.db_handler = handler
    return ecu


# ---- writer faults (C11: database contention seen by the writer task) -------------------------------------------
class WriterFaults:
    """Seeded 'database is locked' failures for the rows the DBHandler's writer task inserts into scan_result.

    install() replaces `handler.connection.execute` (an instance attribute of the aiosqlite connection; gallia's code is not
    touched) by a wrapper.  Rows are numbered in the order in which their INSERT is first attempted (= transmission order:
    the queue is FIFO and a row that was never attempted is never overtaken by another row that was never attempted).
    plan = {ordinal: j}: the first j attempts of that row fail with aiosqlite.OperationalError("database is locked") - as
    sqlite does after its busy timeout, i.e. not before the event loop had at least one turn (`yields` scheduling points,
    plus `pause` real seconds) - and attempt j+1 is handed to the real connection.  Every other statement goes straight through.

    attempts: [ordinal, "fail" | "pass", disconnect() already called, rows still queued behind this one] per attempt.
    rows: the parameter tuples in first-attempt order (strong references: identities stay unique).
    """

    INSERT = "INSERT INTO scan_result"

    def __init__(self, plan: dict[Any, int], yields: int = 1, pause: float = 0.0) -> None:
        self.plan = {int(k): int(v) for k, v in plan.items()}
        self.left = dict(self.plan)
        self.yields = max(1, int(yields))
        self.pause = float(pause)
        self.rows: list[tuple[Any, ...]] = []
        self._ordinal: dict[int, int] = {}
        self.attempts: list[list[Any]] = []
        self.closing = False

    def install(self, handler: Any) -> None:
        import aiosqlite

        conn = handler.connection
        assert conn is not None
        orig = conn.execute

        async def locked() -> Any:
            for _ in range(self.yields):
                await asyncio.sleep(0)
            if self.pause:
                await asyncio.sleep(self.pause)
            raise aiosqlite.OperationalError("database is locked")

        def execute(sql: Any, parameters: Any = None) -> Any:
            if isinstance(sql, str) and sql.startswith(self.INSERT) and isinstance(parameters, tuple):
                n = self._ordinal.get(id(parameters))
                if n is None:
                    n = len(self.rows)
                    self.rows.append(parameters)
                    self._ordinal[id(parameters)] = n
                q = handler._execute_queue
                behind = q.qsize() if q is not None else -1
                if self.left.get(n, 0) > 0:
                    self.left[n] -= 1
                    self.attempts.append([n, "fail", self.closing, behind])
                    return locked()
                self.attempts.append([n, "pass", self.closing, behind])
            return orig(sql, parameters)

        conn.execute = execute  # instance attribute: shadows the method for this connection only

    # -- what happened
    def failed(self) -> dict[int, int]:
        out: dict[int, int] = {}
        for n, kind, _, _ in self.attempts:
            if kind == "fail":
                out[n] = out.get(n, 0) + 1
        return out

    def passed(self) -> set[int]:
        return {n for n, kind, _, _ in self.attempts if kind == "pass"}

    def critical_rows(self) -> set[int]:
        """rows that failed at least twice in a row as the last outstanding row while disconnect() was already waiting"""
        out: set[int] = set()
        prev: tuple[int, bool] | None = None
        for n, kind, closing, behind in self.attempts:
            crit = kind == "fail" and bool(closing) and behind == 0
            if crit and prev == (n, True):
                out.add(n)
            prev = (n, crit)
        return out


# ---- scanner runs (C11: the command layer in front of the client) ----------------------------------------------------
class ScanTransport(BaseTransport, scheme="vfscan"):
    """In-process transport for runs of a real UDSScanner: write() hands the request to `responder` (async callable
    bytes -> list of replies), read() delivers a queued reply or times out after one scheduling point.  `probe()` is
    evaluated when the request is written and again when the read that ends the exchange returns; both values are logged,
    so the oracle knows what the scanner's settings were while the request was on the wire.
    log: {"q": request, "replies": [...], "tags": [...], "at_write": probe(), "at_read": probe() | None} per write."""

    def __init__(self, target: TargetURI, responder: Callable[[bytes], Awaitable[list[bytes]]], probe: Callable[[], Any]) -> None:
        super().__init__(target)
        self.responder = responder
        self.probe = probe
        self.queue: list[bytes] = []
        self.log: list[dict[str, Any]] = []
        self.closed = 0

    @classmethod
    async def connect(cls, target: str | TargetURI, timeout: float | None = None) -> "ScanTransport":
        raise NotImplementedError

    async def close(self) -> None:
        self.closed += 1
        self.is_closed = True

    async def reconnect(self, timeout: float | None = None) -> "ScanTransport":
        return self

    async def write(self, data: bytes, timeout: float | None = None, tags: list[str] | None = None) -> int:
        self.queue.clear()
        self.log.append({"q": bytes(data), "replies": [], "tags": list(tags or []), "at_write": self.probe(), "at_read": None})
        self.queue.extend(await self.responder(bytes(data)))
        return len(data)

    async def read(self, timeout: float | None = None, tags: list[str] | None = None) -> bytes:
        await asyncio.sleep(0)
        if self.log:
            self.log[-1]["at_read"] = self.probe()
        if not self.queue:
            raise TimeoutError("no reply")
        r = self.queue.pop(0)
        self.log[-1]["replies"].append(r)
        return r


class TransportLoaders:
    """Stands in for gallia.plugins.plugin.load_transport while scanners run: `load_transport(target).connect(target)` hands
    out the transport registered for that target URI (several scanners may run concurrently on one loop)."""

    def __init__(self) -> None:
        self.by_target: dict[str, BaseTransport] = {}
        self._orig: Any = None

    def register(self, target: str, transport: BaseTransport) -> None:
        self.by_target[target] = transport

    def __call__(self, target: Any) -> Any:
        loaders = self

        class _Loader:
            @staticmethod
            async def connect(t: Any, timeout: float | None = None) -> BaseTransport:
                return loaders.by_target[t.raw if hasattr(t, "raw") else str(t)]

        return _Loader

    def __enter__(self) -> "TransportLoaders":
        from gallia.plugins import plugin

        self._orig = plugin.load_transport
        plugin.load_transport = self  # type: ignore[assignment]
        return self

    def __exit__(self, *exc: Any) -> None:
        from gallia.plugins import plugin

        plugin.load_transport = self._orig  # type: ignore[assignment]
