"""./check entry: python -m vf.main <ID> --tier quick|thorough [--replay FILE]"""

from __future__ import annotations

import argparse
import os
import sys

from vf import runner


def main() -> int:
    ap = argparse.ArgumentParser()
    ap.add_argument("prop")
    ap.add_argument("--tier", default=os.environ.get("VERIF_TIER", "quick"), choices=["quick", "thorough"])
    ap.add_argument("--replay")
    ap.add_argument("--shard", nargs=4, metavar=("IDX", "COUNT", "PARAMS", "OUT"))
    a = ap.parse_args()
    prop = a.prop.upper()
    if a.shard:
        seed = int(os.environ.get("VERIF_SEED", "0") or 0)
        return runner.run_shard_child(prop, a.tier, seed, int(a.shard[0]), int(a.shard[1]), a.shard[2], a.shard[3])
    return runner.main_parent(prop, a.tier, a.replay)


if __name__ == "__main__":
    sys.exit(main())
