"""./check entry: python -m vf.main <ID> --tier quick|thorough [--replay FILE]"""

from __future__ import annotations

import argparse
import os
import sys

from vf import runner


def normalise_signals() -> None:
    """A check started as a background job of a non-interactive shell (`./check ... &`), under nohup or from a supervisor inherits
    SIGINT/SIGQUIT as *ignored*, and an ignored signal stays ignored across exec: the processes the checks start would never see the
    Ctrl-C that C15 sends them.  The harness therefore runs with the default dispositions, whatever it was started with (every
    process started from here inherits them)."""
    import signal

    sigs = ((signal.SIGINT, signal.default_int_handler), (signal.SIGQUIT, signal.SIG_DFL), (signal.SIGTERM, signal.SIG_DFL),
            (signal.SIGALRM, signal.SIG_DFL), (signal.SIGVTALRM, signal.SIG_DFL))
    for sig, handler in sigs:
        try:
            if signal.getsignal(sig) is signal.SIG_IGN:
                signal.signal(sig, handler)
        except (OSError, ValueError):
            pass
    try:  # a blocked signal stays blocked across exec as well
        signal.pthread_sigmask(signal.SIG_UNBLOCK, {sig for sig, _ in sigs} | {signal.SIGCHLD})
    except (OSError, ValueError, AttributeError):
        pass


def normalise_environment() -> None:
    """gallia takes option values from GALLIA_* variables; the cases set the ones they mean to set, nothing may leak in from whoever
    started the check.  (Interpreter switches are dropped by ./check before the interpreter starts.)"""
    for k in [k for k in os.environ if k.startswith("GALLIA_")]:
        del os.environ[k]


def main() -> int:
    normalise_signals()
    normalise_environment()
    ap = argparse.ArgumentParser()
    ap.add_argument("prop")
    ap.add_argument("--tier", default=os.environ.get("VERIF_TIER", "quick"), choices=["quick", "thorough"])
    ap.add_argument("--replay")
    ap.add_argument("--shard", nargs=4, metavar=("IDX", "COUNT", "PARAMS", "OUT"))
    a = ap.parse_args()
    prop = a.prop.upper()
    if a.shard:
        seed = int(os.environ.get("VERIF_SEED", "0") or 0)
        return runner.run_shard_child(prop, a.tier, seed, int(a.shard[0]), int(a.shard[1]), a.shard[2], a.shard[3])
    return runner.main_parent(prop, a.tier, a.replay)


if __name__ == "__main__":
    sys.exit(main())
