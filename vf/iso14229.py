"""Independent reference for the ISO 14229-1 layouts used by the monitors (trusted base).

Written from the standard's message layouts (DESIGN.md appendix A), not from gallia's codec:
   * request encoders: one small function per service / sub-function,
   * response decoder: decode_response(bytes) -> dict of fields | None (malformed by ISO),
   * echo table: primary_echo(request bytes) / classify_reply(request, reply).
All integers big-endian. spr = suppressPosRspMsgIndicationBit (bit 7 of the sub-function byte).
ALFID: high nibble = number of size bytes, low nibble = number of address bytes.
"""

from __future__ import annotations

from typing import Any

SUBFUNCTION_SERVICES = {0x10, 0x11, 0x27, 0x28, 0x3E, 0x85, 0x19, 0x2C, 0x31, 0x83, 0x86, 0x87, 0x29}


def be(n: int, width: int) -> bytes:
    if n < 0 or n >= 256**width:
        raise ValueError(f"{n} does not fit {width} bytes")
    return n.to_bytes(width, "big")


def minw(n: int) -> int:
    return max(1, (n.bit_length() + 7) // 8)


def sfb(sub_function: int, spr: bool) -> bytes:
    if not 0 <= sub_function <= 0x7F:
        raise ValueError("sub-function out of range")
    return bytes([sub_function | (0x80 if spr else 0)])


def alfid_byte(addr_w: int, size_w: int) -> int:
    if not (1 <= addr_w <= 15 and 1 <= size_w <= 15):
        raise ValueError("ALFID nibble out of range")
    return (size_w << 4) | addr_w


def alfid_split(b: int) -> tuple[int, int]:
    """-> (address width, size width)"""
    return b & 0x0F, b >> 4


def mem(addr: int, size: int, alfid: int | None) -> tuple[int, bytes, bytes]:
    if alfid is None:
        aw, sw = minw(addr), minw(size)
        alfid = alfid_byte(aw, sw)
    else:
        aw, sw = alfid_split(alfid)
        if aw == 0 or sw == 0 or not 0 <= alfid <= 0xFF:
            raise ValueError("bad ALFID")
    return alfid, be(addr, aw), be(size, sw)


# ---- request encoders ------------------------------------------------------------------------
def req_session(sf: int, spr: bool = False) -> bytes:
    return b"\x10" + sfb(sf, spr)


def req_reset(sf: int, spr: bool = False) -> bytes:
    return b"\x11" + sfb(sf, spr)


def req_security(sf: int, record: bytes = b"", spr: bool = False) -> bytes:
    return b"\x27" + sfb(sf, spr) + record


def req_comm_control(sf: int, comm_type: int, spr: bool = False) -> bytes:
    return b"\x28" + sfb(sf, spr) + be(comm_type, 1)


def req_tester_present(spr: bool = False) -> bytes:
    return b"\x3e" + sfb(0, spr)


def req_control_dtc(sf: int, record: bytes = b"", spr: bool = False) -> bytes:
    return b"\x85" + sfb(sf, spr) + record


def req_rdbi(dids: list[int]) -> bytes:
    if not dids:
        raise ValueError("no identifier")
    return b"\x22" + b"".join(be(d, 2) for d in dids)


def req_rmba(addr: int, size: int, alfid: int | None = None) -> bytes:
    a, ab, sb = mem(addr, size, alfid)
    return b"\x23" + bytes([a]) + ab + sb


def req_dddi_by_id(dddid: int, srcs: list[tuple[int, int, int]], spr: bool = False) -> bytes:
    return b"\x2c" + sfb(1, spr) + be(dddid, 2) + b"".join(be(s, 2) + be(p, 1) + be(z, 1) for s, p, z in srcs)


def req_dddi_by_mem(dddid: int, regions: list[tuple[int, int]], alfid: int | None = None, spr: bool = False) -> bytes:
    if alfid is None:
        alfid = alfid_byte(max(minw(a) for a, _ in regions), max(minw(s) for _, s in regions))
    out = b"\x2c" + sfb(2, spr) + be(dddid, 2) + bytes([alfid])
    for a, s in regions:
        _, ab, sb = mem(a, s, alfid)
        out += ab + sb
    return out


def req_dddi_clear(dddid: int | None, spr: bool = False) -> bytes:
    return b"\x2c" + sfb(3, spr) + (b"" if dddid is None else be(dddid, 2))


def req_wdbi(did: int, record: bytes) -> bytes:
    if not record:
        raise ValueError("empty record")
    return b"\x2e" + be(did, 2) + record


def req_wmba(addr: int, data: bytes, size: int | None = None, alfid: int | None = None) -> bytes:
    a, ab, sb = mem(addr, len(data) if size is None else size, alfid)
    return b"\x3d" + bytes([a]) + ab + sb + data


def req_clear_dtc(group: int) -> bytes:
    return b"\x14" + be(group, 3)


def req_read_dtc_mask(sf: int, mask: int, spr: bool = False) -> bytes:
    return b"\x19" + sfb(sf, spr) + be(mask, 1)


def req_read_dtc_plain(sf: int, spr: bool = False) -> bytes:
    return b"\x19" + sfb(sf, spr)


def req_read_dtc_ext(dtc: int, recno: int, spr: bool = False) -> bytes:
    return b"\x19" + sfb(6, spr) + be(dtc, 3) + be(recno, 1)


def req_iocbi(did: int, option: bytes, mask: bytes = b"") -> bytes:
    if not option:
        raise ValueError("empty controlOptionRecord")
    return b"\x2f" + be(did, 2) + option + mask


def req_routine(sf: int, rid: int, record: bytes = b"", spr: bool = False) -> bytes:
    return b"\x31" + sfb(sf, spr) + be(rid, 2) + record


def req_updown(sid: int, addr: int, size: int, comp: int = 0, enc: int = 0, alfid: int | None = None) -> bytes:
    if not (0 <= comp <= 15 and 0 <= enc <= 15):
        raise ValueError("dataFormatIdentifier nibble out of range")
    a, ab, sb = mem(addr, size, alfid)
    return bytes([sid, (comp << 4) | enc, a]) + ab + sb


def req_transfer_data(bsc: int, record: bytes = b"") -> bytes:
    return b"\x36" + be(bsc, 1) + record


def req_transfer_exit(record: bytes = b"") -> bytes:
    return b"\x37" + record


# ---- response decoder ------------------------------------------------------------------------
DTC_COUNT_SF = {0x01, 0x11, 0x12}
DTC_LIST_SF = {0x02, 0x0F, 0x13, 0x0A, 0x15}
DTC_SINGLE_SF = {0x0B, 0x0C, 0x0D, 0x0E}


def decode_response(b: bytes) -> dict[str, Any] | None:
    """Fields at their ISO positions, or None if `b` breaks the length/format rules of its service
    (or the service has no layout here)."""
    if not b:
        return None
    r = b[0]
    n = len(b)
    if r == 0x7F:
        if n != 3:
            return None
        return {"kind": "negative", "request_service_id": b[1], "response_code": b[2]}
    if r in (0x50, 0x51, 0x67, 0x68, 0x7E, 0xC5, 0x6C, 0x59, 0x71):
        if n < 2 or b[1] > 0x7F:
            return None
    if r == 0x50:
        return {"kind": "session", "diagnostic_session_type": b[1], "session_parameter_record": b[2:]}
    if r == 0x51:
        if n > 3:
            return None
        return {"kind": "reset", "reset_type": b[1], "power_down_time": b[2] if n == 3 else None}
    if r == 0x67:
        return {"kind": "security", "security_access_type": b[1], "security_seed": b[2:]}
    if r == 0x68:
        return {"kind": "comm", "control_type": b[1]} if n == 2 else None
    if r == 0x7E:
        return {"kind": "tp"} if b == b"\x7e\x00" else None
    if r == 0xC5:
        return {"kind": "cdtcs", "dtc_setting_type": b[1]} if n == 2 else None
    if r == 0x62:
        if n < 4:
            return None
        return {"kind": "rdbi", "data_identifier": int.from_bytes(b[1:3], "big"), "data_record": b[3:]}
    if r == 0x63:
        return {"kind": "rmba", "data_record": b[1:]} if n >= 2 else None
    if r == 0x6C:
        sf = b[1]
        if sf in (1, 2):
            return {"kind": "dddi", "sub_function": sf, "dynamically_defined_data_identifier": int.from_bytes(b[2:4], "big")} if n == 4 else None
        if sf == 3:
            if n == 2:
                return {"kind": "dddi", "sub_function": 3, "dynamically_defined_data_identifier": None}
            if n == 4:
                return {"kind": "dddi", "sub_function": 3, "dynamically_defined_data_identifier": int.from_bytes(b[2:4], "big")}
        return None
    if r == 0x6E:
        return {"kind": "wdbi", "data_identifier": int.from_bytes(b[1:3], "big")} if n == 3 else None
    if r == 0x7D:
        if n < 4:
            return None
        aw, sw = alfid_split(b[1])
        if aw == 0 or sw == 0 or n != 2 + aw + sw:
            return None
        return {"kind": "wmba", "address_and_length_format_identifier": b[1],
                "memory_address": int.from_bytes(b[2 : 2 + aw], "big"), "memory_size": int.from_bytes(b[2 + aw :], "big")}
    if r == 0x54:
        return {"kind": "cdi"} if n == 1 else None
    if r == 0x59:
        sf = b[1]
        if sf in DTC_COUNT_SF:
            if n != 6:
                return None
            return {"kind": "dtc_count", "sub_function": sf, "dtc_status_availability_mask": b[2], "dtc_format_identifier": b[3], "dtc_count": int.from_bytes(b[4:6], "big")}
        if sf in DTC_LIST_SF or sf in DTC_SINGLE_SF:
            if n < 3 or (n - 3) % 4 != 0:
                return None
            if sf in DTC_SINGLE_SF and n not in (3, 7):
                return None
            recs = [(int.from_bytes(b[i : i + 3], "big"), b[i + 3]) for i in range(3, n, 4)]
            return {"kind": "dtc_list", "sub_function": sf, "dtc_status_availability_mask": b[2], "records": recs}
        if sf == 0x06:
            if n < 6:
                return None
            return {"kind": "dtc_ext", "sub_function": 6, "dtc": int.from_bytes(b[2:5], "big"), "status": b[5], "ext": b[6:]}
        return None
    if r == 0x6F:
        if n < 4:
            return None
        return {"kind": "iocbi", "data_identifier": int.from_bytes(b[1:3], "big"), "control_status_record": b[3:]}
    if r == 0x71:
        if n < 4 or b[1] not in (1, 2, 3):
            return None
        return {"kind": "routine", "sub_function": b[1], "routine_identifier": int.from_bytes(b[2:4], "big"), "routine_status_record": b[4:]}
    if r in (0x74, 0x75):
        if n < 3:
            return None
        cnt, low = b[1] >> 4, b[1] & 0x0F
        if cnt == 0 or low != 0 or n != 2 + cnt:
            return None
        return {"kind": "updown", "sid": r - 0x40, "length_format_identifier": b[1], "max_number_of_block_length": int.from_bytes(b[2:], "big")}
    if r == 0x76:
        return {"kind": "td", "block_sequence_counter": b[1], "transfer_response_parameter_record": b[2:]} if n >= 2 else None
    if r == 0x77:
        return {"kind": "rte", "transfer_response_parameter_record": b[1:]}
    return None


RESPONSE_SIDS = [0x50, 0x51, 0x67, 0x68, 0x7E, 0xC5, 0x62, 0x63, 0x6C, 0x6E, 0x7D, 0x54, 0x59, 0x6F, 0x71, 0x74, 0x75, 0x76, 0x77]
REQUEST_SIDS = [s - 0x40 for s in RESPONSE_SIDS]


# ---- request decoder (well-formedness by ISO) and echo table ---------------------------------
def request_wellformed(q: bytes) -> bool:
    """True iff `q` is a well-formed request of one of the modelled services."""
    if not q:
        return False
    s, n = q[0], len(q)
    try:
        if s in (0x10, 0x11, 0x3E):
            return n == 2 and (s != 0x3E or q[1] & 0x7F == 0)
        if s == 0x27:
            return n >= 2 if q[1] & 1 else n >= 3
        if s == 0x28:
            return n == 3
        if s == 0x85:
            return n >= 2
        if s == 0x22:
            return n >= 3 and n % 2 == 1
        if s == 0x23:
            aw, sw = alfid_split(q[1])
            return n >= 4 and aw > 0 and sw > 0 and n == 2 + aw + sw
        if s == 0x2C:
            sf = q[1] & 0x7F
            if sf == 1:
                return n >= 8 and (n - 4) % 4 == 0
            if sf == 2:
                aw, sw = alfid_split(q[4])
                return n >= 7 and aw > 0 and sw > 0 and (n - 5) % (aw + sw) == 0
            if sf == 3:
                return n in (2, 4)
            return False
        if s == 0x2E:
            return n >= 4
        if s == 0x3D:
            aw, sw = alfid_split(q[1])
            return aw > 0 and sw > 0 and n >= 2 + aw + sw + 1
        if s == 0x14:
            return n == 4
        if s == 0x19:
            sf = q[1] & 0x7F
            if sf in (0x01, 0x02, 0x0F, 0x11, 0x12, 0x13):
                return n == 3
            if sf in (0x0A, 0x0B, 0x0C, 0x0D, 0x0E, 0x15):
                return n == 2
            if sf == 0x06:
                return n == 6
            return False
        if s == 0x2F:
            return n >= 4
        if s == 0x31:
            return n >= 4 and (q[1] & 0x7F) in (1, 2, 3)
        if s in (0x34, 0x35):
            aw, sw = alfid_split(q[2])
            return n >= 5 and aw > 0 and sw > 0 and n == 3 + aw + sw
        if s == 0x36:
            return n >= 2
        if s == 0x37:
            return n >= 1
    except IndexError:
        return False
    return False


def primary_echo(q: bytes) -> tuple[str, bytes] | None:
    """What a genuine positive reply must echo, as (description, bytes at reply[1:1+len])."""
    s = q[0]
    if s in (0x10, 0x11, 0x27, 0x28, 0x3E, 0x85, 0x19, 0x2C):
        return "sub-function", bytes([q[1] & 0x7F])
    if s == 0x31:
        return "sub-function+routine id", bytes([q[1] & 0x7F]) + q[2:4]
    if s in (0x22, 0x2E, 0x2F):
        return "data identifier", q[1:3]
    if s == 0x36:
        return "block sequence counter", q[1:2]
    if s == 0x3D:
        aw, sw = alfid_split(q[1])
        return "ALFID+address+size", q[1 : 2 + aw + sw]
    return None


def genuine_positive(q: bytes, body: bytes = b"\x5a") -> bytes | None:
    """A minimal well-formed genuine positive reply to the well-formed request q (None: not modelled)."""
    s = q[0]
    r = bytes([s + 0x40])
    if s in (0x10, 0x27):
        return r + bytes([q[1] & 0x7F]) + body
    if s == 0x11:
        return r + bytes([q[1] & 0x7F])
    if s in (0x28, 0x3E, 0x85):
        return r + bytes([q[1] & 0x7F])
    if s == 0x22:
        return r + q[1:3] + body
    if s == 0x23:
        aw, sw = alfid_split(q[1])
        size = int.from_bytes(q[2 + aw : 2 + aw + sw], "big")
        if size == 0 or size > 4000:
            return None
        return r + bytes((i * 7 + 1) & 0xFF for i in range(size))
    if s == 0x2C:
        sf = q[1] & 0x7F
        if sf in (1, 2):
            return r + bytes([sf]) + q[2:4]
        return r + bytes([sf]) + q[2:4]
    if s == 0x2E:
        return r + q[1:3]
    if s == 0x3D:
        aw, sw = alfid_split(q[1])
        return r + q[1 : 2 + aw + sw]
    if s == 0x14:
        return r
    if s == 0x19:
        sf = q[1] & 0x7F
        if sf in DTC_COUNT_SF:
            return r + bytes([sf, 0xFF, 0x01, 0x00, 0x02])
        if sf in DTC_LIST_SF:
            return r + bytes([sf, 0xFF, 0x12, 0x34, 0x56, 0x08, 0x65, 0x43, 0x21, 0x09])
        if sf in DTC_SINGLE_SF:
            return r + bytes([sf, 0xFF, 0x12, 0x34, 0x56, 0x08])
        if sf == 6:
            return r + bytes([6]) + q[2:5] + bytes([0x08, q[5] if q[5] < 0xFE else 1, 0xAA])
        return None
    if s == 0x2F:
        return r + q[1:3] + q[3:4] + body
    if s == 0x31:
        return r + bytes([q[1] & 0x7F]) + q[2:4] + body
    if s in (0x34, 0x35):
        return r + b"\x20\x0f\xfa"
    if s == 0x36:
        return r + q[1:2] + body
    if s == 0x37:
        return r + body
    return None


HAS_SUBFUNCTION = {0x10, 0x11, 0x27, 0x28, 0x3E, 0x85, 0x19, 0x2C, 0x31}


def suppress_requested(q: bytes) -> bool:
    return len(q) >= 2 and q[0] in HAS_SUBFUNCTION and bool(q[1] & 0x80)
