"""Simulated TCP peer (gateway) for the framed transports, on in-memory streams in virtual time.

The harness replaces asyncio.open_connection in its own process by GatewayHub.open_connection; the production
DoIPConnection / HSFZConnection code runs unmodified on a real asyncio.StreamReader and a recording MemWriter.

A gateway instance
  * collects the bytes the client writes, cuts them into client frames with a protocol specific `split_client`
    function and hands each frame (with its virtual timestamp) to `on_client_frame`,
  * feeds gateway frames to the client's reader at chosen virtual times, cut into segments by a segmentation plan
    (global byte offsets of the gateway->client stream at which a segment boundary is forced; frames scheduled
    for the same instant are coalesced into one segment unless a cut separates them),
  * can cut the connection: EOF, reset (reader exception + failing writer) or silence.
"""

from __future__ import annotations

import asyncio
from typing import Any, Callable

from vf import memstream

EPS = 1e-6


class Gateway:
    def __init__(self, split_client: Callable[[bytearray], list[bytes]], cuts: set[int] | None = None, bytewise: bool = False, limit: int | None = None):
        # `limit`: the StreamReader limit the client asked for in open_connection(); None = asyncio's default (64 KiB)
        self.reader = memstream.new_reader(limit=limit if limit is not None else 2**16)
        self.writer = memstream.MemWriter(on_write=self._on_write)
        self.split_client = split_client
        self.cbuf = bytearray()
        self.client_frames: list[tuple[float, bytes]] = []
        self.on_client_frame: Callable[[float, bytes], None] | None = None
        self.cuts = cuts or set()
        self.bytewise = bytewise
        self.sent = 0  # bytes of the gateway->client stream scheduled so far
        self._last_t = 0.0
        self._pending: list[tuple[float, bytearray]] = []
        self.limit_bytes: int | None = None
        self.limit_kind = "eof"
        self.fed_bytes = 0
        self.cut_time: float | None = None
        self.fed: list[tuple[float, bytes]] = []
        self.frames_out: list[tuple[float, bytes, str]] = []  # (arrival time of last byte, frame bytes, label)
        self.cut_state: str | None = None
        self.loop = asyncio.get_running_loop()
        self.split_in_header = False
        self.split_in_payload = False

    # client -> gateway
    def _on_write(self, data: bytes) -> None:
        if self.cut_state is not None:
            return
        self.cbuf += data
        now = self.loop.time()
        for fr in self.split_client(self.cbuf):
            self.client_frames.append((now, fr))
            if self.on_client_frame is not None:
                self.on_client_frame(now, fr)

    # gateway -> client
    def send(self, delay: float, frame: bytes, label: str = "", header_len: int = 8, glue: bool = False) -> float:
        """schedule `frame` to arrive `delay` virtual seconds from now; returns the arrival time of its last byte.
        glue=True: the frame's first segment is delivered in the same segment as the end of the previously scheduled frame
        (coalesced by the network)."""
        if glue and self._pending and self._pending[-1][0] >= self.loop.time():
            t = self._pending[-1][0]
        else:
            glue = False
            t = max(self.loop.time() + delay, self._last_t + EPS)
        start = self.sent
        pieces: list[bytes] = []
        if self.bytewise:
            pieces = [frame[i : i + 1] for i in range(len(frame))]
        else:
            last = 0
            for c in sorted(x - start for x in self.cuts if start < x < start + len(frame)):
                pieces.append(frame[last:c])
                last = c
                if c < header_len:
                    self.split_in_header = True
                else:
                    self.split_in_payload = True
            pieces.append(frame[last:])
        self.sent += len(frame)
        first = True
        for p in pieces:
            if not p:
                continue
            if first and glue:
                self._pending[-1][1].extend(p)
            else:
                buf = bytearray(p)
                self._pending.append((t, buf))
                self.loop.call_at(t, self._feed_buf, buf)
            first = False
            t += EPS
        t -= EPS
        self._last_t = t
        self.frames_out.append((t, frame, label))
        return t

    def _feed_buf(self, buf: bytearray) -> None:
        self._feed(bytes(buf))

    def _feed(self, data: bytes) -> None:
        if self.cut_state is not None:
            return
        if self.limit_bytes is not None:
            remaining = self.limit_bytes - self.fed_bytes
            if len(data) >= remaining:
                # the connection is cut after exactly `limit_bytes` bytes of the gateway->client stream
                if remaining > 0:
                    self.fed.append((self.loop.time(), data[:remaining]))
                    self.fed_bytes += remaining
                    self.reader.feed_data(data[:remaining])
                # like a real socket: the loss is reported in a later loop iteration than the last data
                # (StreamReader.set_exception in the same iteration as feed_data would be lost on a reader that is just waking up)
                self.limit_bytes = None
                self.cut_state = "cutting"
                self.loop.call_soon(self._do_cut, self.limit_kind)
                return
        self.fed_bytes += len(data)
        self.fed.append((self.loop.time(), data))
        self.reader.feed_data(data)

    # connection cuts
    def cut(self, kind: str) -> None:
        """kind: eof | reset | silence"""
        if self.cut_state is not None:
            return
        self.cut_state = kind
        self.cut_time = self.loop.time()
        if kind == "eof":
            self.reader.feed_eof()
        elif kind == "reset":
            self.reader.set_exception(ConnectionResetError("Connection reset by peer"))
            self.writer.fail = ConnectionResetError("Connection reset by peer")

    def _do_cut(self, kind: str) -> None:
        self.cut_state = None
        self.cut(kind)

    def cut_at(self, delay: float, kind: str) -> None:
        t = max(self.loop.time() + delay, self._last_t + EPS)
        self._last_t = t
        self.loop.call_at(t, self.cut, kind)


class GatewayHub:
    """stands in for asyncio.open_connection: every call creates a Gateway through `factory`"""

    def __init__(self, factory: Callable[[int], Gateway | BaseException]):
        self.factory = factory
        self.connections: list[Gateway] = []
        self.attempts = 0
        self._orig: Any = None

    async def open_connection(self, host: Any = None, port: Any = None, **kw: Any) -> tuple[Any, Any]:
        self.attempts += 1
        self.last_kwargs = dict(kw)
        g = self.factory(self.attempts)
        if isinstance(g, BaseException):
            raise g
        if "limit" in kw and kw["limit"] is not None:
            # honour the buffer limit the production code requested
            g.reader._limit = kw["limit"]  # type: ignore[attr-defined]
        self.connections.append(g)
        return g.reader, g.writer

    async def open_unix_connection(self, path: Any = None, **kw: Any) -> tuple[Any, Any]:
        return await self.open_connection(path, None, **kw)

    def __enter__(self) -> "GatewayHub":
        self._orig = (asyncio.open_connection, asyncio.open_unix_connection)
        asyncio.open_connection = self.open_connection  # type: ignore[assignment]
        asyncio.open_unix_connection = self.open_unix_connection  # type: ignore[assignment]
        return self

    def __exit__(self, *a: Any) -> None:
        asyncio.open_connection, asyncio.open_unix_connection = self._orig  # type: ignore[assignment]
