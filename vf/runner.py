"""Shared runner: tiers, seeds, shard fan-out, verdicts, known findings, evidence.

Every check module under vf/checks exposes

    PROPERTY   "C01"
    LEVEL      "exploration" | "fault_enumeration"
    RULE       text: how cases are generated and what makes one distinct / non-trivial
    ASSUMPTIONS list[str]
    def shards(tier, seed) -> list[dict]      # JSON-able shard parameters
    def run(ctx, params) -> None              # executes one shard, reports through ctx
    def required_reach(tier) -> dict[str,int] # counters that must be >= n for a "held" verdict
    def replay(ctx, witness) -> None          # optional: re-run a single witness

The parent process runs each shard in its own interpreter (subprocess.run with a timeout, never a
multiprocessing pool), merges the shard reports, classifies every violation key against
known_findings.json, writes the replay witnesses and evidence/<ID>.json and prints the verdict.

Verdicts: exit 0 held on what was observed (KNOWN-FINDING lines allowed), exit 1 with a VIOLATION
line, exit 2 with an INCONCLUSIVE line (watchdog, monitor never reached, wrong tree).
"""

from __future__ import annotations

import hashlib
import importlib
import json
import os
import random
import shutil
import subprocess
import sys
import time
import traceback
from collections import Counter
from concurrent.futures import ThreadPoolExecutor
from pathlib import Path
from typing import Any

ROOT = Path(__file__).resolve().parent.parent
REPO = Path(os.environ.get("VERIF_REPO", "/repo")).resolve()
PY = "/venv/bin/python"
MAX_HASHES_PER_SHARD = 400_000
MAX_SAMPLES = 12
WITNESSES_PER_KEY = 3

EXIT_HELD, EXIT_VIOLATION, EXIT_INCONCLUSIVE = 0, 1, 2


def bootstrap_path() -> None:
    """Monitored tree first, our third-party helpers last (they must not shadow /venv)."""
    src = str(REPO / "src")
    if src in sys.path:
        sys.path.remove(src)
    sys.path.insert(0, src)
    if str(ROOT) not in sys.path:
        sys.path.insert(1, str(ROOT))
    deps = str(ROOT / ".deps")
    if deps not in sys.path:
        sys.path.append(deps)


def assert_tree() -> str | None:
    import gallia

    f = Path(gallia.__file__).resolve()
    if not str(f).startswith(str(REPO / "src")):
        return f"gallia imported from {f}, expected below {REPO}/src"
    return None


def h64(obj: Any) -> int:
    if isinstance(obj, bytes):
        b = obj
    elif isinstance(obj, str):
        b = obj.encode("utf-8", "surrogatepass")
    else:
        b = repr(obj).encode("utf-8", "surrogatepass")
    return int.from_bytes(hashlib.blake2b(b, digest_size=8).digest(), "big")


def jsonable(o: Any, depth: int = 0) -> Any:
    if depth > 8:
        return repr(o)[:200]
    if isinstance(o, (bytes, bytearray)):
        return "hex:" + bytes(o).hex() if len(o) <= 256 else f"hex:{bytes(o[:64]).hex()}..({len(o)}B)"
    if isinstance(o, (str, int, float, bool)) or o is None:
        if isinstance(o, str) and len(o) > 2000:
            return o[:2000] + f"..({len(o)} chars)"
        if isinstance(o, int) and not isinstance(o, bool) and abs(o) > 2**63:
            return str(o)
        return o
    if isinstance(o, dict):
        return {str(k): jsonable(v, depth + 1) for k, v in o.items()}
    if isinstance(o, (list, tuple, set, frozenset)):
        seq = list(o)
        if isinstance(o, (set, frozenset)):
            try:
                seq = sorted(seq)
            except TypeError:
                pass
        return [jsonable(v, depth + 1) for v in seq]
    return repr(o)[:400]


class Ctx:
    """Collector handed to a check's run(); one per shard process."""

    def __init__(self, prop: str, tier: str, seed: int, shard_index: int = 0, shard_count: int = 1):
        self.prop = prop
        self.tier = tier
        self.seed = seed
        self.shard_index = shard_index
        self.shard_count = shard_count
        self.rng = random.Random(f"{prop}/{seed}/{shard_index}")
        self.evaluations = 0
        self.hashes: set[int] = set()
        self.hash_overflow = 0
        self.traces: set[int] = set()
        self.counters: Counter[str] = Counter()
        self.samples: list[Any] = []
        self._sample_seen = 0
        self.violation_counts: Counter[str] = Counter()
        self.violation_what: dict[str, str] = {}
        self.witnesses: dict[str, list[Any]] = {}
        self.t0 = time.monotonic()
        self.cpu0 = sum(os.times()[:4])
        self.deadline: float | None = None  # soft budget in seconds of `elapsed()`; None = unlimited
        self.scratch = ROOT / ".scratch" / f"{os.getpid()}"

    # -- cases -----------------------------------------------------------------------------
    def case(self, ident: Any, nontrivial: bool = True, n: int = 1) -> None:
        """One executed case. `ident` identifies it for the distinct count."""
        self.evaluations += n
        if nontrivial:
            if len(self.hashes) < MAX_HASHES_PER_SHARD:
                self.hashes.add(h64(ident))
            else:
                self.hash_overflow += 1

    def evals(self, n: int = 1) -> None:
        self.evaluations += n

    def trace(self, events: Any) -> None:
        """A distinct observed event sequence / interleaving / state."""
        if len(self.traces) < MAX_HASHES_PER_SHARD:
            self.traces.add(h64(events))

    def reach(self, name: str, n: int = 1) -> None:
        self.counters[name] += n

    def sample(self, obj: Any, force: bool = False) -> None:
        """Reservoir of actual cases for the evidence file."""
        self._sample_seen += 1
        if len(self.samples) < MAX_SAMPLES:
            self.samples.append(jsonable(obj))
        elif force or self.rng.random() < MAX_SAMPLES / self._sample_seen:
            self.samples[self.rng.randrange(MAX_SAMPLES)] = jsonable(obj)

    # -- verdict ---------------------------------------------------------------------------
    def violation(self, key: str, what: str, witness: Any) -> None:
        """`key` names the failing mechanism (component/failure kind/discriminating field), never a
        seed or random value; `what` is one line for humans; `witness` re-creates the case."""
        self.violation_counts[key] += 1
        self.violation_what.setdefault(key, what)
        w = self.witnesses.setdefault(key, [])
        if len(w) < WITNESSES_PER_KEY:
            w.append(jsonable(witness))

    def elapsed(self) -> float:
        """Load-tolerant clock for the soft budget: CPU seconds used by this shard and its children, or a third of the wall-clock
        time if that is larger (shards that mostly wait).  On an idle machine a CPU-bound shard sees wall-clock time; on a loaded
        one it gets up to three times the wall-clock time before it stops adding cases, so the amount of work per run - and
        with it the reach counters - does not depend on what else the machine is doing."""
        return max(sum(os.times()[:4]) - self.cpu0, (time.monotonic() - self.t0) / 3.0)

    def time_left(self) -> float:
        if self.deadline is None:
            return 1e9
        return self.deadline - self.elapsed()

    def out_of_time(self) -> bool:
        return self.time_left() <= 0

    def mkscratch(self) -> Path:
        self.scratch.mkdir(parents=True, exist_ok=True)
        return self.scratch

    def report(self) -> dict[str, Any]:
        return {
            "evaluations": self.evaluations,
            "hashes": sorted(self.hashes),
            "hash_overflow": self.hash_overflow,
            "traces": sorted(self.traces),
            "counters": dict(self.counters),
            "samples": self.samples,
            "violation_counts": dict(self.violation_counts),
            "violation_what": self.violation_what,
            "witnesses": self.witnesses,
            "wall_s": time.monotonic() - self.t0,
        }


# ------------------------------------------------------------------------------------------------


def load_known() -> dict[str, dict[str, Any]]:
    p = ROOT / "known_findings.json"
    if not p.exists():
        return {}
    data = json.loads(p.read_text())
    out: dict[str, dict[str, Any]] = {}
    for e in data.get("findings", []):
        out[f"{e['property']}::{e['key']}"] = e
    return out


def tier_budget(tier: str) -> tuple[float, float]:
    """(soft deadline handed to shards, hard watchdog per shard) in seconds."""
    if tier == "quick":
        return float(os.environ.get("VERIF_QUICK_BUDGET", 75)), 420.0
    return float(os.environ.get("VERIF_THOROUGH_BUDGET", 600)), 3600.0


def run_shard_child(prop: str, tier: str, seed: int, idx: int, count: int, params_file: str, out_file: str) -> int:
    bootstrap_path()
    err = assert_tree()
    ctx = Ctx(prop, tier, seed, idx, count)
    soft, _ = tier_budget(tier)
    ctx.deadline = soft
    status = "ok"
    reason = ""
    if err:
        status, reason = "wrong_tree", err
    else:
        try:
            mod = importlib.import_module(f"vf.checks.{prop.lower()}")
            params = json.loads(Path(params_file).read_text())
            if "replay" in params:
                mod.replay(ctx, params["replay"])
            else:
                mod.run(ctx, params)
        except BaseException as e:  # harness failure, never a verdict about the code
            status, reason = "harness_error", "".join(traceback.format_exception(e))[-4000:]
    rep = ctx.report()
    rep["status"] = status
    rep["reason"] = reason
    Path(out_file).write_text(json.dumps(rep))
    if ctx.scratch.exists():
        shutil.rmtree(ctx.scratch, ignore_errors=True)
    return 0


def main_parent(prop: str, tier: str, replay: str | None) -> int:
    t0 = time.monotonic()
    seed = int(os.environ.get("VERIF_SEED", "0") or 0)
    bootstrap_path()
    err = assert_tree()
    if err:
        print(f"INCONCLUSIVE property={prop} reason={err}")
        return EXIT_INCONCLUSIVE
    mod = importlib.import_module(f"vf.checks.{prop.lower()}")
    scratch = ROOT / ".scratch" / f"parent-{os.getpid()}"
    scratch.mkdir(parents=True, exist_ok=True)
    try:
        if replay:
            w = json.loads(Path(replay).read_text())
            shard_params = [{"replay": w.get("witness", w)}]
        else:
            shard_params = list(mod.shards(tier, seed))
        n = len(shard_params)
        soft, hard = tier_budget(tier)
        env = dict(os.environ)
        env.setdefault("PYTHONHASHSEED", "0")
        env["VERIF_SEED"] = str(seed)
        env["VERIF_REPO"] = str(REPO)
        env["PYTHONDONTWRITEBYTECODE"] = "1"
        env.pop("PYTHONPATH", None)

        def one(i: int) -> dict[str, Any]:
            pf = scratch / f"p{i}.json"
            of = scratch / f"o{i}.json"
            pf.write_text(json.dumps(shard_params[i]))
            cmd = [PY, "-m", "vf.main", prop, "--tier", tier, "--shard", str(i), str(n), str(pf), str(of)]
            try:
                cp = subprocess.run(cmd, cwd=ROOT, env=env, timeout=hard, capture_output=True, text=True)
            except subprocess.TimeoutExpired:
                return {"status": "watchdog", "reason": f"shard {i} exceeded {hard}s"}
            if not of.exists():
                return {
                    "status": "harness_error",
                    "reason": f"shard {i} rc={cp.returncode} no report; stderr tail: {cp.stderr[-2000:]}",
                }
            r = json.loads(of.read_text())
            r["stderr_tail"] = cp.stderr[-500:]
            return r

        workers = min(int(os.environ.get("VERIF_JOBS", os.cpu_count() or 4)), max(1, n))
        with ThreadPoolExecutor(max_workers=workers) as ex:
            reports = list(ex.map(one, range(n)))
    finally:
        shutil.rmtree(scratch, ignore_errors=True)

    # ---- merge
    evaluations = 0
    hashes: set[int] = set()
    traces: set[int] = set()
    overflow = 0
    counters: Counter[str] = Counter()
    samples: list[Any] = []
    vcounts: Counter[str] = Counter()
    vwhat: dict[str, str] = {}
    witnesses: dict[str, list[Any]] = {}
    problems: list[str] = []
    for r in reports:
        if r.get("status") != "ok":
            problems.append(f"{r.get('status')}: {r.get('reason', '')}")
        evaluations += r.get("evaluations", 0)
        hashes.update(r.get("hashes", []))
        traces.update(r.get("traces", []))
        overflow += r.get("hash_overflow", 0)
        counters.update(r.get("counters", {}))
        for s in r.get("samples", []):
            samples.append(s)
        for k, c in r.get("violation_counts", {}).items():
            vcounts[k] += c
        for k, w in r.get("violation_what", {}).items():
            vwhat.setdefault(k, w)
        for k, ws in r.get("witnesses", {}).items():
            witnesses.setdefault(k, [])
            witnesses[k].extend(ws[: WITNESSES_PER_KEY - len(witnesses[k])])
    rs = random.Random(seed)
    if len(samples) > MAX_SAMPLES:
        samples = rs.sample(samples, MAX_SAMPLES)

    # ---- reach requirements
    reach_missing: list[str] = []
    if not replay:
        for name, need in mod.required_reach(tier).items():
            if name.startswith("#"):  # number of distinct counters with this prefix
                have = sum(1 for k in counters if k.startswith(name[1:]) and counters[k] > 0)
                counters[name] = have
            else:
                have = counters.get(name, 0)
            if have < need:
                reach_missing.append(f"{name}={have}<{need}")

    # ---- classify
    known = load_known()
    known_hit: list[tuple[str, dict[str, Any]]] = []
    new: list[str] = []
    for k in sorted(vcounts):
        e = known.get(f"{prop}::{k}")
        if e is not None and e.get("status") == "open":
            known_hit.append((k, e))
        else:
            new.append(k)

    replay_dir = Path(os.environ.get("VERIF_REPLAY_DIR", ROOT / "replay")) / prop
    lines: list[str] = []
    for k, e in known_hit:
        lines.append(f"KNOWN-FINDING: property={prop} {k}: {e.get('what', vwhat.get(k, ''))} (observed {vcounts[k]}x)")
    for k in new:
        replay_dir.mkdir(parents=True, exist_ok=True)
        fn = replay_dir / (hashlib.blake2b(k.encode(), digest_size=6).hexdigest() + ".json")
        fn.write_text(
            json.dumps(
                {"property": prop, "key": k, "what": vwhat.get(k, ""), "count": vcounts[k], "tier": tier, "seed": seed,
                 "witness": (witnesses.get(k) or [None])[0], "more_witnesses": (witnesses.get(k) or [])[1:]},
                indent=1,
            )
        )
        lines.append(f"VIOLATION property={prop} replay={fn.relative_to(ROOT) if fn.is_relative_to(ROOT) else fn} key={k} count={vcounts[k]} what={vwhat.get(k, '')}")

    wall = time.monotonic() - t0
    if not replay:
        coverage = {
            "evaluations": evaluations,
            "distinct_nontrivial": len(hashes),
            "distinct_nontrivial_note": (
                "size of the union of 64-bit case hashes over all shards"
                + (f"; {overflow} further non-trivial cases were not hashed (per-shard cap)" if overflow else "")
            ),
            "rule": mod.RULE,
            "samples": samples or ["<no samples recorded>"],
            "distinct_traces": len(traces),
            "reach": {k: counters[k] for k in sorted(counters)},
            "reach_required": mod.required_reach(tier),
            "shards": len(reports),
            "known_findings_observed": {k: vcounts[k] for k, _ in known_hit},
            "unlisted_violation_keys": {k: vcounts[k] for k in new},
            "exhaustive": bool(getattr(mod, "EXHAUSTIVE", {}).get(tier, False)),
            "exhaustive_note": getattr(mod, "EXHAUSTIVE_NOTE", ""),
            "verdict": "violated" if new else ("inconclusive" if (problems or reach_missing) else "held on what was observed"),
        }
        ev = {
            "property_id": prop,
            "tier": tier,
            "seed": seed,
            "level": mod.LEVEL,
            "coverage": coverage,
            "assumptions": list(mod.ASSUMPTIONS),
            "wall_s": round(wall, 2),
            "violations": sum(vcounts[k] for k in new),
        }
        write_evidence(prop, ev)

    for ln in lines:
        print(ln)
    if new:
        print(f"{prop} {tier}: VIOLATED ({len(new)} unlisted key(s)); evaluations={evaluations} wall={wall:.1f}s")
        return EXIT_VIOLATION
    if problems:
        print(f"INCONCLUSIVE property={prop} reason={' | '.join(p[:1500] for p in problems[:3])}")
        return EXIT_INCONCLUSIVE
    if reach_missing:
        print(f"INCONCLUSIVE property={prop} reason=monitor reach too low: {', '.join(reach_missing)}")
        return EXIT_INCONCLUSIVE
    if replay:
        print(f"{prop} replay: no violation reproduced")
        return EXIT_HELD
    print(
        f"{prop} {tier}: held on what was observed; evaluations={evaluations} distinct={len(hashes)} "
        f"traces={len(traces)} known_findings={len(known_hit)} wall={wall:.1f}s"
    )
    return EXIT_HELD


def write_evidence(prop: str, ev: dict[str, Any]) -> None:
    # evidence/ describes runs against /repo itself; a run that monitors another tree (seeded change, mutant) writes elsewhere
    if os.environ.get("VERIF_EVIDENCE_DIR"):
        out = Path(os.environ["VERIF_EVIDENCE_DIR"]) / f"{prop}.json"
    elif REPO != Path("/repo").resolve():
        out = ROOT / ".scratch" / "evidence-other-tree" / f"{prop}.json"
    else:
        out = ROOT / "evidence" / f"{prop}.json"
    out.parent.mkdir(parents=True, exist_ok=True)
    try:
        import jsonschema

        schema = json.loads((ROOT / "schemas" / "EVIDENCE.schema.json").read_text())
        try:
            jsonschema.validate(ev, schema)
        except jsonschema.ValidationError as e:
            print(f"EVIDENCE-INVALID {prop}: {e.message[:300]}", file=sys.stderr)
    except ImportError:
        ev.setdefault("assumptions", []).append("jsonschema not importable: evidence not self-validated")
    out.write_text(json.dumps(ev, indent=1, sort_keys=False) + "\n")
