"""Reference machine for one UDSClient.request() (DESIGN.md appendix B), written from the property statement.

Input: the event script the transport will play (letters below), max_retry, the effective timeout.
Output: the set of acceptable end states (number of transmissions, outcome, number of reconnects, set of event indices a
returned reply may stem from).  Where the statement leaves a choice the set has more than one element.

Letters: T timeout, Z silence until the next transmission, C connection error on read, E empty read, W connection error on
write, B busyRepeatRequest, P responsePending, M reply of another service, X undecodable reply of this service,
N final negative reply, F final positive reply.

Time: a letter T is ONE silent poll of the client, however long the client makes that poll; the silence limit counted in polls
(`silence_polls`) is only meaningful for a client whose polls last POLL seconds.  The statement fixes the limit in SECONDS
(max(timeout, 20 s)), for every timeout - also one below the poll interval.  Silence measured in seconds is scripted as a reply
that arrives `d` seconds after the previous event (`delays`); `in_time_after_pending` / `in_time_first` say whether such a reply
is "received in time".  A reply received in time is the same event as the undelayed reply: `outcomes` ignores in-time delays and
refuses others.
"""

from __future__ import annotations

from typing import Any

PENDING_LIMITS = (120, 121)  # "currently 120 replies": an off-by-one either way is not a property violation
POLL = 0.5


def silence_polls(timeout: float) -> tuple[int, int]:
    lo = int(max(timeout, 20) / POLL)
    return lo, lo + 1


def silence_seconds(timeout: float) -> float:
    """the silence limit after a responsePending, in seconds, for a request with this effective timeout"""
    return max(timeout, 20.0)


def in_time_after_pending(delay: float, timeout: float) -> bool:
    """a reply that follows a responsePending after `delay` seconds of silence is received in time (one poll interval of slack:
    the client may notice the limit at a poll boundary)"""
    return delay <= silence_seconds(timeout) - POLL


def in_time_first(delay: float, timeout: float) -> bool:
    """a reply that follows the transmission after `delay` seconds is received in time"""
    return delay < timeout


REPLIES = "BPMXNF"


def outcomes(script: list[str], max_retry: int, timeout: float, delays: dict[int, float] | None = None) -> set[tuple[Any, ...]]:
    """-> set of (tx, kind, detail, reconnects); kind in return|missing|mismatch|malformed|error
    `delays`: event index -> seconds of silence before that reply arrives; only in-time delays of the first reply of the script
    or of a reply that directly follows a pending (always read inside the pending chain) are modelled: they change nothing"""
    for idx, d in (delays or {}).items():
        if not (0 <= idx < len(script)) or script[idx] not in REPLIES:
            raise ValueError(f"delay on event {idx}, which is not a reply")
        if idx > 0 and script[idx - 1] == "P":
            if not in_time_after_pending(d, timeout):
                raise ValueError(f"reply {idx} after a pending is delayed beyond the silence limit: not modelled")
        elif idx == 0:
            if not in_time_first(d, timeout):
                raise ValueError("first reply delayed beyond the timeout: not modelled")
        else:
            raise ValueError(f"delay on event {idx}: its reader (first read or pending poll) depends on the client")
    res: set[tuple[Any, ...]] = set()
    n = len(script)
    lo, hi = silence_polls(timeout)

    def attempt(i: int, pos: int, tx: int, rec: int) -> None:
        tx += 1

        def retry(pos2: int, conn: bool) -> None:
            if i == max_retry:
                res.add((tx, "missing", "conn" if conn else "noconn", rec))
                return
            attempt(i + 1, pos2, tx, rec + (1 if conn else 0))

        if pos < n and script[pos] == "Z":
            pos += 1  # an earlier silence ends with this transmission
        if pos < n and script[pos] == "W":
            retry(pos + 1, True)
            return
        ev = script[pos] if pos < n else "T"
        nxt = pos + 1 if pos < n else pos
        if ev == "Z":
            nxt = pos  # consumed by the next write
            ev = "T"
        if ev == "T":
            retry(nxt, False)
        elif ev in ("C", "E"):
            retry(nxt, True)
        elif ev == "W":  # a write failure scripted where no write happens acts as silence for this read
            retry(pos, False)
        elif ev == "B":
            if i == max_retry:
                res.add((tx, "return", pos, rec))
            else:
                attempt(i + 1, nxt, tx, rec)
        elif ev in ("F", "N"):
            res.add((tx, "return", pos, rec))
        elif ev == "M":
            res.add((tx, "mismatch", None, rec))
        elif ev == "X":
            res.add((tx, "malformed", None, rec))
        elif ev == "P":
            pend = 1
            p = nxt
            silent = 0
            while True:
                e2 = script[p] if p < n else "T"
                if e2 in ("T", "Z", "W") or p >= n:
                    if e2 == "T" and p < n:
                        silent += 1
                        p += 1
                        if silent >= lo:
                            silence(i, p, tx, rec)
                            if silent >= hi:
                                return
                            # not forced yet: also continue polling
                        continue
                    # Z / exhausted / W: silence for as long as the client polls
                    silence(i, p, tx, rec)
                    return
                silent = 0
                p += 1
                if e2 == "P":
                    pend += 1
                    if pend >= PENDING_LIMITS[0]:
                        res.add((tx, "error", "pending-overflow", rec))
                        if pend >= PENDING_LIMITS[1]:
                            return
                    continue
                if e2 in ("C", "E"):
                    # inside the pending loop: like the same event on the initial read
                    retry(p, True)
                    return
                if e2 == "B":
                    res.add((tx, "return", p - 1, rec))  # returning the busy reply ...
                    if i < max_retry:
                        attempt(i + 1, p, tx, rec)  # ... or retrying are both acceptable after a pending chain
                    return
                if e2 in ("F", "N"):
                    res.add((tx, "return", p - 1, rec))
                    return
                if e2 == "M":
                    res.add((tx, "mismatch", None, rec))
                    return
                if e2 == "X":
                    res.add((tx, "malformed", None, rec))
                    return
                raise AssertionError(e2)

    def silence(i: int, p: int, tx: int, rec: int) -> None:
        # pending then silence: raise missing-response, or retransmit if attempts are left (both accepted)
        res.add((tx, "missing", "noconn", rec))
        if i < max_retry:
            attempt(i + 1, p, tx, rec)

    attempt(0, 0, 0, 0)
    return res


def time_bound(max_retry: int, timeout: float) -> float:
    return sum(timeout + PENDING_LIMITS[1] * POLL + (silence_polls(timeout)[1] + 1) * POLL + 0.2 * 2**i for i in range(max_retry + 1)) + 1.0
