"""Reference machine for one UDSClient.request() (DESIGN.md appendix B), written from the property statement.

Input: the event script the transport will play (letters below), max_retry, the effective timeout.
Output: the set of acceptable end states (number of transmissions, outcome, number of reconnects, set of event indices a
returned reply may stem from).  Where the statement leaves a choice the set has more than one element.

Letters: T timeout, Z silence until the next transmission, C connection error on read, E empty read, W connection error on
write, B busyRepeatRequest, P responsePending, M reply of another service, X undecodable reply of this service,
N final negative reply, F final positive reply.
"""

from __future__ import annotations

from typing import Any

PENDING_LIMITS = (120, 121)  # "currently 120 replies": an off-by-one either way is not a property violation
POLL = 0.5


def silence_polls(timeout: float) -> tuple[int, int]:
    lo = int(max(timeout, 20) / POLL)
    return lo, lo + 1


def outcomes(script: list[str], max_retry: int, timeout: float) -> set[tuple[Any, ...]]:
    """-> set of (tx, kind, detail, reconnects); kind in return|missing|mismatch|malformed|error"""
    res: set[tuple[Any, ...]] = set()
    n = len(script)
    lo, hi = silence_polls(timeout)

    def attempt(i: int, pos: int, tx: int, rec: int) -> None:
        tx += 1

        def retry(pos2: int, conn: bool) -> None:
            if i == max_retry:
                res.add((tx, "missing", "conn" if conn else "noconn", rec))
                return
            attempt(i + 1, pos2, tx, rec + (1 if conn else 0))

        if pos < n and script[pos] == "Z":
            pos += 1  # an earlier silence ends with this transmission
        if pos < n and script[pos] == "W":
            retry(pos + 1, True)
            return
        ev = script[pos] if pos < n else "T"
        nxt = pos + 1 if pos < n else pos
        if ev == "Z":
            nxt = pos  # consumed by the next write
            ev = "T"
        if ev == "T":
            retry(nxt, False)
        elif ev in ("C", "E"):
            retry(nxt, True)
        elif ev == "W":  # a write failure scripted where no write happens acts as silence for this read
            retry(pos, False)
        elif ev == "B":
            if i == max_retry:
                res.add((tx, "return", pos, rec))
            else:
                attempt(i + 1, nxt, tx, rec)
        elif ev in ("F", "N"):
            res.add((tx, "return", pos, rec))
        elif ev == "M":
            res.add((tx, "mismatch", None, rec))
        elif ev == "X":
            res.add((tx, "malformed", None, rec))
        elif ev == "P":
            pend = 1
            p = nxt
            silent = 0
            while True:
                e2 = script[p] if p < n else "T"
                if e2 in ("T", "Z", "W") or p >= n:
                    if e2 == "T" and p < n:
                        silent += 1
                        p += 1
                        if silent >= lo:
                            silence(i, p, tx, rec)
                            if silent >= hi:
                                return
                            # not forced yet: also continue polling
                        continue
                    # Z / exhausted / W: silence for as long as the client polls
                    silence(i, p, tx, rec)
                    return
                silent = 0
                p += 1
                if e2 == "P":
                    pend += 1
                    if pend >= PENDING_LIMITS[0]:
                        res.add((tx, "error", "pending-overflow", rec))
                        if pend >= PENDING_LIMITS[1]:
                            return
                    continue
                if e2 in ("C", "E"):
                    # inside the pending loop: like the same event on the initial read
                    retry(p, True)
                    return
                if e2 == "B":
                    res.add((tx, "return", p - 1, rec))  # returning the busy reply ...
                    if i < max_retry:
                        attempt(i + 1, p, tx, rec)  # ... or retrying are both acceptable after a pending chain
                    return
                if e2 in ("F", "N"):
                    res.add((tx, "return", p - 1, rec))
                    return
                if e2 == "M":
                    res.add((tx, "mismatch", None, rec))
                    return
                if e2 == "X":
                    res.add((tx, "malformed", None, rec))
                    return
                raise AssertionError(e2)

    def silence(i: int, p: int, tx: int, rec: int) -> None:
        # pending then silence: raise missing-response, or retransmit if attempts are left (both accepted)
        res.add((tx, "missing", "noconn", rec))
        if i < max_retry:
            attempt(i + 1, p, tx, rec)

    attempt(0, 0, 0, 0)
    return res


def time_bound(max_retry: int, timeout: float) -> float:
    return sum(timeout + PENDING_LIMITS[1] * POLL + (silence_polls(timeout)[1] + 1) * POLL + 0.2 * 2**i for i in range(max_retry + 1)) + 1.0
