"""Reference model for C18: declared option metadata, type-directed value generation, precedence.

Three independent pieces, none of which looks at what pydantic made of a model class:

* `declared(config_type)` re-reads the *class bodies* of a config type (ast of the source of every
  class in the MRO) and evaluates each `name: annotation = Field(...)` statement in the namespace
  of its module.  The result is what the developer wrote: positional/short/const/hidden flags,
  config section (field level, else the class keyword), default, and the annotation both as text
  and as object.  `model_fields` of the class is *not* consulted for any of this.
* `Spec` + `gen_value`/`gen_invalid`: generate-with-denotation.  A Python value is chosen first and
  then spelled for the command line (argv tokens), for the environment (one string) and for the
  file (a TOML literal).  The expected effective value is the chosen value, so no parser of gallia
  is involved in the oracle.
* `winner(...)`: CLI > env > file > default.
"""

from __future__ import annotations

import ast
import enum
import inspect
import random
import sys
import textwrap
import typing
from dataclasses import dataclass, field
from pathlib import Path
from typing import Any

UNSET = object()
PRIORITY = ("cli", "env", "file")


# ------------------------------------------------------------------------------------------------
# type specification
@dataclass
class Spec:
    kind: str  # bool int float str path bytes AutoInt HexInt HexBytes Ranges Ranges2D EnumArg Enum
    #            AutoLiteral Literal TargetURI PowerSupplyURI list dict other
    optional: bool = False
    item: "Spec | None" = None  # list
    enum: Any = None  # EnumArg / Enum
    choices: tuple[Any, ...] = ()  # AutoLiteral / Literal
    arity: int = 0  # IntTuple: Annotated[tuple[int, ...n], BeforeValidator(parse "a:b:c")]
    top_annotated: bool = False  # the annotation itself is Annotated[...] (not wrapped in Optional/list)
    text: str = ""

    @property
    def label(self) -> str:
        base = {
            "TargetURI": "Idempotent[TargetURI]",
            "PowerSupplyURI": "Idempotent[PowerSupplyURI]",
        }.get(self.kind, self.kind)
        if self.kind == "list" and self.item is not None:
            base = f"list[{self.item.label}]"
        return base + ("|None" if self.optional else "")

    @property
    def cli_ok(self) -> bool:
        if self.kind == "list":
            return self.item is not None and self.item.cli_ok and self.item.kind not in ("list", "Ranges", "Ranges2D")
        return self.kind not in ("dict", "other")

    @property
    def env_ok(self) -> bool:
        """scalar options and the range types (DESIGN 3a); plain list[...] has no documented env syntax"""
        return self.cli_ok and self.kind != "list"


def _flatten_union(node: ast.AST) -> list[ast.AST]:
    if isinstance(node, ast.BinOp) and isinstance(node.op, ast.BitOr):
        return _flatten_union(node.left) + _flatten_union(node.right)
    return [node]


def spec_from(node: ast.AST, globs: dict[str, Any], top: bool = True) -> Spec:
    import gallia.command.config as cc
    from gallia.power_supply.uri import PowerSupplyURI
    from gallia.transports.base import TargetURI

    text = ast.unparse(node)

    def ev(n: ast.AST) -> Any:
        return eval(compile(ast.Expression(body=n), "<annotation>", "eval"), globs)  # noqa: S307

    members = _flatten_union(node)
    if len(members) > 1:
        rest = [m for m in members if not (isinstance(m, ast.Constant) and m.value is None)]
        if len(rest) == 1:
            s = spec_from(rest[0], globs, top=False)
            s.optional = len(rest) < len(members)
            s.text = text
            s.top_annotated = False
            return s
        return Spec("other", text=text)
    try:
        if isinstance(node, ast.Subscript):
            base = ev(node.value)
            if base is cc.EnumArg:
                return Spec("EnumArg", enum=ev(node.slice), top_annotated=top, text=text)
            if base is cc.AutoLiteral:
                return Spec("AutoLiteral", choices=typing.get_args(ev(node.slice)), top_annotated=top, text=text)
            if base is cc.Idempotent:
                cls = ev(node.slice)
                if cls is PowerSupplyURI:
                    return Spec("PowerSupplyURI", top_annotated=top, text=text)
                if isinstance(cls, type) and issubclass(cls, TargetURI):
                    return Spec("TargetURI", top_annotated=top, text=text)
                return Spec("other", top_annotated=top, text=text)
            if base is list:
                return Spec("list", item=spec_from(node.slice, globs, top=False), text=text)
            if base is typing.Optional:
                s = spec_from(node.slice, globs, top=False)
                s.optional = True
                s.text = text
                return s
            if base is typing.Literal:
                return Spec("Literal", choices=typing.get_args(ev(node)), text=text)
            if base is dict:
                return Spec("dict", text=text)
            if base is typing.Annotated:
                inner = ev(node.slice.elts[0]) if isinstance(node.slice, ast.Tuple) else None
                args = typing.get_args(inner)
                if typing.get_origin(inner) is tuple and args and all(a is int for a in args):
                    return Spec("IntTuple", arity=len(args), top_annotated=top, text=text)
                return Spec("other", top_annotated=top, text=text)
            return Spec("other", text=text)
        obj = ev(node)
    except Exception:
        return Spec("other", text=text)
    simple = {bool: "bool", int: "int", float: "float", str: "str", bytes: "bytes", Path: "path"}
    if isinstance(obj, type) and obj in simple:
        return Spec(simple[obj], text=text)
    for name in ("AutoInt", "HexInt", "HexBytes", "Ranges", "Ranges2D"):
        if obj == getattr(cc, name):
            return Spec(name, top_annotated=top, text=text)
    if isinstance(obj, type) and issubclass(obj, enum.Enum):
        return Spec("Enum", enum=obj, text=text)
    return Spec("other", text=text)


# ------------------------------------------------------------------------------------------------
# declarations
@dataclass
class Decl:
    name: str
    owner: type
    spec: Spec
    how: str  # "config-field" (gallia.command.config.Field), "arg-field", "pydantic-field", "plain"
    positional: bool = False
    short: str | None = None
    const: Any = UNSET
    hidden: bool = False
    section: str | None = None
    has_default: bool = False
    default: Any = None
    default_is_literal: bool = True
    evaluated: bool = True  # False: the Field(...) expression could not be evaluated outside the class

    @property
    def file_key(self) -> str | None:
        if self.how != "config-field" or self.section is None or self.hidden:
            return None
        return f"{self.section}.{self.name}" if self.section != "" else self.name

    @property
    def env_name(self) -> str:
        return f"GALLIA_{self.name.upper()}"

    @property
    def flag(self) -> str:
        return "--" + self.name.replace("_", "-")


def _class_def(cls: type) -> ast.ClassDef | None:
    try:
        src = textwrap.dedent(inspect.getsource(cls))
    except (OSError, TypeError):
        return None
    tree = ast.parse(src)
    for n in tree.body:
        if isinstance(n, ast.ClassDef):
            return n
    return None


_DECL_CACHE: dict[type, dict[str, Decl]] = {}


def declared(config_type: type) -> dict[str, Decl]:
    """name -> Decl for every annotated attribute of every class in the MRO (later classes override)."""
    if config_type in _DECL_CACHE:
        return _DECL_CACHE[config_type]
    import pydantic
    from pydantic.fields import FieldInfo
    from pydantic_core import PydanticUndefined

    from gallia.command.config import ConfigArgFieldInfo
    from gallia.pydantic_argparse.utils.field import ArgFieldInfo

    out: dict[str, Decl] = {}
    for cls in reversed(config_type.__mro__):
        if cls in (object, pydantic.BaseModel) or not isinstance(cls, type):
            continue
        if cls.__module__.startswith(("pydantic", "abc", "typing")):
            continue
        cd = _class_def(cls)
        if cd is None:
            continue
        globs = dict(vars(sys.modules[cls.__module__]))
        # names of enclosing classes for nested class bodies
        globs.setdefault(cls.__name__, cls)
        class_kw: dict[str, Any] = {}
        for kw in cd.keywords:
            if kw.arg in ("cli_group", "config_section"):
                try:
                    class_kw[kw.arg] = eval(compile(ast.Expression(body=kw.value), "<class-kw>", "eval"), globs)  # noqa: S307
                except Exception:
                    class_kw[kw.arg] = getattr(cls, "_" + kw.arg, None)
        local_ns: dict[str, Any] = {}
        for st in cd.body:
            if not (isinstance(st, ast.AnnAssign) and isinstance(st.target, ast.Name)):
                continue
            name = st.target.id
            if name.startswith("_") or name == "model_config":
                continue
            ann_text = ast.unparse(st.annotation)
            if ann_text.startswith("ClassVar"):
                continue
            ns = {**globs, **local_ns}
            spec = spec_from(st.annotation, ns)
            d = Decl(name=name, owner=cls, spec=spec, how="plain")
            if st.value is not None:
                has_call = any(isinstance(n, ast.Call) for n in ast.walk(st.value))
                try:
                    val = eval(compile(ast.Expression(body=st.value), "<field>", "eval"), ns)  # noqa: S307
                except Exception:
                    val = UNSET
                    d.evaluated = False
                if isinstance(val, FieldInfo):
                    is_field_call = isinstance(st.value, ast.Call)
                    d.how = (
                        "config-field" if isinstance(val, ConfigArgFieldInfo)
                        else "arg-field" if isinstance(val, ArgFieldInfo)
                        else "pydantic-field"
                    )
                    if isinstance(val, ArgFieldInfo):
                        d.positional = bool(val.positional)
                        d.short = val.short
                        d.const = UNSET if val.const is PydanticUndefined else val.const
                        d.hidden = bool(val.hidden)
                    if isinstance(val, ConfigArgFieldInfo):
                        d.section = val.config_section if val.config_section is not None else class_kw.get("config_section")
                    if val.default is not PydanticUndefined:
                        d.has_default, d.default = True, val.default
                    elif val.default_factory is not None:
                        d.has_default, d.default = True, val.default_factory()  # type: ignore[call-arg]
                    # Field(random.randint(..)) and friends: the class holds another draw than we do
                    if is_field_call:
                        call = st.value
                        assert isinstance(call, ast.Call)
                        dnode = call.args[0] if call.args else next((k.value for k in call.keywords if k.arg == "default"), None)
                        d.default_is_literal = dnode is None or not any(isinstance(n, ast.Call) for n in ast.walk(dnode))
                elif val is not UNSET:
                    d.has_default, d.default = True, val
                    d.default_is_literal = not has_call
                    local_ns[name] = val
            out[name] = d
    _DECL_CACHE[config_type] = out
    return out


# ------------------------------------------------------------------------------------------------
# values
@dataclass
class Val:
    """One generated value in its three spellings."""

    expected: Any
    cli: list[str] | None  # tokens following the flag (empty list = bare flag), None = cannot be spelled
    env: str | None
    toml: str | None  # TOML literal
    note: str = ""
    cli_negated: bool = False  # bool False: spelled --no-<flag>

    def brief(self) -> dict[str, Any]:
        return {"expected": repr(self.expected)[:120], "cli": self.cli, "env": self.env, "toml": self.toml, "note": self.note}


def toml_str(s: str) -> str:
    out = []
    for ch in s:
        if ch == "\\":
            out.append("\\\\")
        elif ch == '"':
            out.append('\\"')
        elif ord(ch) < 0x20 or ord(ch) == 0x7F:
            out.append(f"\\u{ord(ch):04x}")
        else:
            out.append(ch)
    return '"' + "".join(out) + '"'


def spell_int(v: int, base: int, upper: bool = False) -> str:
    if base == 10:
        return str(v)
    s = {16: f"{v:#x}", 8: f"{v:#o}", 2: f"{v:#b}"}[base]
    return s[:2] + s[2:].upper() if upper else s


def _enum_spellings(m: enum.Enum, which: int) -> tuple[str, str | None]:
    """(string spelling, TOML literal) of an enum member: by name, by decimal value, by hex value"""
    if which == 0 or not isinstance(m.value, int):
        if which != 0 and isinstance(m.value, str):
            return m.value, toml_str(m.value)
        return m.name, toml_str(m.name)
    if which == 1:
        return str(m.value), str(m.value)
    return f"{m.value:#x}", f"{m.value:#x}"


SOURCE_TAG = {"cli": 0, "env": 1, "file": 2}
URI_SCHEMES = ("tcp", "can-raw", "tcp-lines", "isotp", "doip", "hsfz", "unix-lines")


def uri_for(scheme: str, tag: str, n: int) -> str:
    if scheme == "can-raw":
        return f"can-raw://vcan{n}?is_fd=false&tag={tag}"
    if scheme == "isotp":
        return f"isotp://vcan{n}?src_addr=0x{0x600 + n:x}&dst_addr=0x{0x700 + n:x}&is_fd=false&tag={tag}"
    if scheme == "doip":
        return f"doip://192.0.2.{n + 1}:13400?src_addr=0x0e00&target_addr=0x{0x100 + n:x}&tag={tag}"
    if scheme == "hsfz":
        return f"hsfz://192.0.2.{n + 1}:6801?src_addr=0xf4&dst_addr=0x{0x10 + n:x}&tag={tag}"
    if scheme == "unix-lines":
        return f"unix-lines:///run/verif-{tag}-{n}.sock"
    return f"{scheme}://{tag}-{n}.example.org:{20000 + n}"


def gen_value(spec: Spec, rng: random.Random, src: str, n: int, scheme: str = "tcp", avoid: list[Any] | None = None) -> Val | None:
    """A valid value for `spec`, distinct per (src, n) where the domain allows.  `n` is a small
    running number that keeps values of different sources apart."""
    k = spec.kind
    tag = SOURCE_TAG.get(src, 3)
    avoid = avoid or []

    def differs(v: Any) -> bool:
        return all(not same(v, a) for a in avoid)

    if k == "bool":
        # the caller decides the truth value via `n`
        v = bool(n & 1)
        return Val(v, [], rng.choice(["true", "1", "True"] if v else ["false", "0", "False"]), "true" if v else "false", cli_negated=not v)
    if k in ("int", "AutoInt", "HexInt"):
        for _ in range(50):
            v = 3 + 16 * rng.randrange(0, 14) + 4 * n + tag  # <= 0xFF, distinct per (n, tag)
            if differs(v):
                break
        if k == "int":
            return Val(v, [str(v)], str(v), str(v), "dec")
        if k == "HexInt":
            return Val(v, [f"{v:x}"], f"{v:X}", toml_str(f"{v:x}"), "hex-noprefix")
        bases = [10, 16, 8, 2]
        b_cli, b_env, b_file = rng.choice(bases), rng.choice(bases), rng.choice(bases)
        file_lit = spell_int(v, b_file) if rng.random() < 0.6 else toml_str(spell_int(v, b_file, upper=rng.random() < 0.3))
        return Val(v, [spell_int(v, b_cli, upper=rng.random() < 0.3)], spell_int(v, b_env), file_lit, f"bases cli={b_cli} env={b_env} file={b_file}")
    if k == "float":
        v = float(1 + 4 * n + tag) + rng.choice([0.25, 0.5, 0.75, 0.125])
        while not differs(v):
            v += 16.0
        return Val(v, [repr(v)], repr(v), repr(v))
    if k == "str":
        v = f"{src}-{rng.randrange(1 << 20):05x}-{n}"
        return Val(v, [v], v, toml_str(v))
    if k == "path":
        v = f"/nonexistent/verif/{src}/{rng.randrange(1 << 20):05x}.{n}"
        return Val(Path(v), [v], v, toml_str(v))
    if k in ("bytes", "HexBytes"):
        raw = bytes([0x10 * (tag + 1) + n]) + rng.randbytes(rng.randint(0, 3))
        while not differs(raw):
            raw = bytes([0x10 * (tag + 1) + n]) + rng.randbytes(rng.randint(1, 3))
        if k == "bytes":
            s = raw.hex()
            return Val(s.encode(), [s], s, toml_str(s))  # plain bytes take the text as is
        h = raw.hex()
        return Val(raw, [h], h.upper(), toml_str(h if rng.random() < 0.5 else h.upper()))
    if k == "Ranges":
        items: list[str] = []
        den: set[int] = set()
        for j in range(rng.randint(1, 3)):
            lo = 0x20 * (tag + 1) + 0x08 * n + rng.randrange(0, 4) + 0x200 * j
            if rng.random() < 0.5:
                ln = rng.randint(0, 5)
                items.append(f"{spell_int(lo, rng.choice([10, 16]))}-{spell_int(lo + ln, rng.choice([10, 16, 8, 2]))}")
                den.update(range(lo, lo + ln + 1))
            else:
                items.append(spell_int(lo, rng.choice([10, 16, 8, 2])))
                den.add(lo)
        exp = sorted(den)
        env = ",".join(items) if rng.random() < 0.5 else " ".join(items)
        file_lit = toml_str(",".join(items)) if rng.random() < 0.5 else "[" + ", ".join(toml_str(i) for i in items) + "]"
        return Val(exp, items, env, file_lit)
    if k == "Ranges2D":
        entries: list[str] = []
        den2: dict[int, list[int] | None] = {}
        for j in range(rng.randint(1, 3)):
            outer = 1 + 0x10 * (tag + 1) + 4 * n + j
            if rng.random() < 0.3:
                entries.append(spell_int(outer, rng.choice([10, 16])))
                den2[outer] = None
            else:
                lo = rng.randrange(0, 0x40)
                ln = rng.randint(0, 3)
                extra = lo + ln + 2 + rng.randrange(4)
                entries.append(f"{spell_int(outer, rng.choice([10, 16]))}:{spell_int(lo, 16)}-{spell_int(lo + ln, 10)},{extra}")
                den2[outer] = sorted(set(range(lo, lo + ln + 1)) | {extra})
        exp2 = {key: den2[key] for key in sorted(den2)}
        return Val(exp2, entries, " ".join(entries), toml_str(" ".join(entries)) if rng.random() < 0.5 else "[" + ", ".join(toml_str(e) for e in entries) + "]")
    if k in ("EnumArg", "Enum"):
        members = [m for m in spec.enum if differs(m)] or list(spec.enum)
        m = members[(rng.randrange(len(members)))]
        if k == "Enum":
            # plain enums are validated by pydantic: by value only
            s = str(m.value)
            return Val(m, [s], s, str(m.value) if isinstance(m.value, (int, float)) and not isinstance(m.value, bool) else toml_str(s), "by-value")
        w_cli, w_env, w_file = rng.randrange(3), rng.randrange(3), rng.randrange(3)
        return Val(m, [_enum_spellings(m, w_cli)[0]], _enum_spellings(m, w_env)[0], _enum_spellings(m, w_file)[1], f"enum spellings cli={w_cli} env={w_env} file={w_file} (0 name,1 dec,2 hex)")
    if k in ("AutoLiteral", "Literal"):
        choices = [c for c in spec.choices if differs(c)] or list(spec.choices)
        c = choices[rng.randrange(len(choices))]
        if isinstance(c, enum.Enum):
            if k == "Literal":
                s = str(c.value)
                return Val(c, [s], s, toml_str(s))
            w_cli, w_env, w_file = rng.randrange(3), rng.randrange(3), rng.randrange(3)
            return Val(c, [_enum_spellings(c, w_cli)[0]], _enum_spellings(c, w_env)[0], _enum_spellings(c, w_file)[1], "literal-enum")
        if isinstance(c, bool):
            return None
        if isinstance(c, int):
            if k == "Literal":
                return Val(c, [str(c)], str(c), str(c))
            b = rng.choice([10, 16])
            return Val(c, [spell_int(c, b)], spell_int(c, rng.choice([10, 16])), spell_int(c, 10), "literal-int")
        if isinstance(c, bytes):
            return Val(c, [c.hex()], c.hex(), toml_str(c.hex()), "literal-bytes")
        if isinstance(c, str):
            return Val(c, [c], c, toml_str(c))
        return None
    if k == "IntTuple":
        tup = tuple(1 + 0x10 * (tag + 1) + n + 3 * j + rng.randrange(3) for j in range(spec.arity))
        text = ":".join(spell_int(x, rng.choice([10, 16, 8, 2])) for x in tup)
        return Val(tup, [text], text, toml_str(text), "a:b:c definition")
    if k == "TargetURI":
        u = uri_for(scheme, src, n)
        return Val(u, [u], u, toml_str(u))
    if k == "PowerSupplyURI":
        u = f"http://psu-{src}-{n}.example.org:{9000 + n}?id={n + 1}&channel={tag + 1}&product_id=verif"
        return Val(u, [u], u, toml_str(u))
    if k == "list":
        assert spec.item is not None
        vals = [gen_value(spec.item, rng, src, n + 3 * j, scheme) for j in range(rng.randint(1, 3))]
        if any(v is None or v.cli is None or len(v.cli) != 1 or v.toml is None for v in vals):
            return None
        vs = [v for v in vals if v is not None]
        return Val([v.expected for v in vs], [v.cli[0] for v in vs if v.cli], None, "[" + ", ".join(str(v.toml) for v in vs) + "]")
    return None


def gen_invalid(spec: Spec, rng: random.Random) -> Val | None:
    """A value outside the option's grammar (None if the type accepts every text)."""
    k = spec.kind
    if k == "HexInt":
        s = rng.choice(["zz", "12xyz", "1.5.1", "g0"])
        return Val(None, [s], s, toml_str(s))
    if k in ("int", "AutoInt"):
        s = rng.choice(["zz", "0xZZ", "12abc", "1.5.1", "0b102"])
        return Val(None, [s], s, toml_str(s))
    if k == "float":
        s = rng.choice(["x.y", "1,5e", "abc"])
        return Val(None, [s], s, toml_str(s))
    if k == "HexBytes":
        s = rng.choice(["xyz", "0g", "abc", "zz11"])
        return Val(None, [s], s, toml_str(s))
    if k == "Ranges":
        s = rng.choice(["1-x", "a,b", "5-", "1;2"])
        return Val(None, [s], s, toml_str(s))
    if k == "Ranges2D":
        s = rng.choice(["1:2:3", "x:1", "1:y"])
        return Val(None, [s], s, toml_str(s))
    if k == "IntTuple":
        s = rng.choice(["1:x", "1", ":".join(["1"] * (spec.arity + 1))])
        return Val(None, [s], s, toml_str(s))
    if k in ("EnumArg", "Enum"):
        s = "NoSuchMember_" + str(rng.randrange(100))
        return Val(None, [s], s, toml_str(s))
    if k in ("AutoLiteral", "Literal"):
        s = "NoSuchChoice_" + str(rng.randrange(100))
        return Val(None, [s], s, toml_str(s))
    if k == "bool":
        s = rng.choice(["maybe", "2", "ja"])
        return Val(None, None, s, toml_str(s))
    if k == "list" and spec.item is not None:
        inner = gen_invalid(spec.item, rng)
        if inner is None or inner.cli is None:
            return None
        return Val(None, inner.cli, None, "[" + str(inner.toml) + "]")
    return None


def same(a: Any, b: Any) -> bool:
    """Equality of option values; URIs compare by their text (the class defines no __eq__)."""
    ra, rb = getattr(a, "raw", a), getattr(b, "raw", b)
    if isinstance(ra, (list, tuple)) and isinstance(rb, (list, tuple)):
        return len(ra) == len(rb) and all(same(x, y) for x, y in zip(ra, rb))
    if isinstance(ra, dict) and isinstance(rb, dict):
        return list(ra.keys()) == list(rb.keys()) and all(same(ra[k], rb[k]) for k in ra)
    if isinstance(ra, bool) or isinstance(rb, bool) or isinstance(ra, enum.Enum) or isinstance(rb, enum.Enum):
        return ra is rb
    try:
        return bool(ra == rb)
    except Exception:
        return False


def winner(present: set[str], has_default: bool) -> str | None:
    """The source that decides: CLI > env > file > default; None = no source at all."""
    for s in PRIORITY:
        if s in present:
            return s
    return "default" if has_default else None


def combo_bits(present: set[str], has_default: bool) -> str:
    return "".join("1" if x else "0" for x in ("cli" in present, "env" in present, "file" in present, has_default))


def render_toml(entries: dict[str, str], noise: dict[str, str] | None = None) -> str:
    """entries: dotted key -> TOML literal.  Emitted as tables (the form --template prints)."""
    tables: dict[str, list[tuple[str, str]]] = {}
    for key, lit in {**(noise or {}), **entries}.items():
        sect, _, attr = key.rpartition(".")
        tables.setdefault(sect, []).append((attr, lit))
    out: list[str] = []
    for sect in sorted(tables, key=lambda s: (s != "", s)):
        if sect:
            out.append(f"[{sect}]")
        for attr, lit in tables[sect]:
            out.append(f"{attr} = {lit}")
        out.append("")
    return "\n".join(out)
