"""Reference model for C17: a log is a list, reading modes are list operations (DESIGN.md C17 "O").

An entry is a dict with at least {"id": int, "prio": int}.  Nothing here imports gallia; the
level/priority table is written from RFC 3164 severities plus gallia's documented TRACE=8.
"""

from __future__ import annotations

from collections import Counter
from typing import Any

# python logging level number -> syslog-style priority written to the log
LEVELNO = {"trace": 5, "debug": 10, "info": 20, "notice": 25, "warning": 30, "error": 40, "critical": 50}
PRIO_OF_LEVELNO = {5: 8, 10: 7, 20: 6, 25: 5, 30: 4, 40: 3, 50: 2}
PRIO_NAME = {0: "emergency", 1: "alert", 2: "critical", 3: "error", 4: "warning", 5: "notice", 6: "info", 7: "debug", 8: "trace"}
PRIO_BY_NAME = {v: k for k, v in PRIO_NAME.items()}
HR_DEFAULT_PRIO = 6  # documented default of `hr -p` (info)
HR_DEFAULT_LINES = 100  # documented default of `hr -n`

Entry = dict[str, Any]


def written(shadow: list[Entry], file_levelno: int) -> list[Entry]:
    """Records that belong into the file: those at or above the file level."""
    return [e for e in shadow if e["levelno"] >= file_levelno]


def flt(seq: list[Entry], p: int) -> list[Entry]:
    """At or above the requested severity == numerically at most p."""
    return [e for e in seq if e["prio"] <= p]


def pspec_to_prio(pspec: str | None) -> int:
    if pspec is None:
        return HR_DEFAULT_PRIO
    if pspec.isdigit():
        return int(pspec)
    return PRIO_BY_NAME[pspec.lower()]


def valid_index(n_records: int, k: int) -> bool:
    return -n_records <= k < n_records


def accepted(allrecs: list[Entry], mode: str, p: int, k: int | None = None, n: int | None = None) -> list[list[Entry]]:
    """All result sequences the statement allows for one reading mode (first = primary reading)."""
    N = len(allrecs)
    if mode in ("forward", "len"):
        return [flt(allrecs, p)]
    if mode == "multi":  # the same file named twice on the hr command line
        return [flt(allrecs, p) * 2]
    if mode == "reverse":  # hr --reverse / records(offset=-1, reverse=True)
        return [flt(allrecs, p)[::-1]]
    if mode == "reverse-default":
        # records(reverse=True) with the default offset 0: "the log backwards" or, read literally,
        # "backwards starting at record 0" -- both are list operations, both accepted
        out = [flt(allrecs, p)[::-1]]
        alt = flt(allrecs[:1], p)
        if alt != out[0]:
            out.append(alt)
        return out
    if mode == "offset":
        assert k is not None and valid_index(N, k)
        idx = k if k >= 0 else N + k
        return [flt(allrecs[idx:], p)]
    if mode == "reverse-from":
        assert k is not None and valid_index(N, k)
        idx = k if k >= 0 else N + k
        return [flt(allrecs[: idx + 1][::-1], p)]
    if mode == "head":
        assert n is not None and n >= 0
        return [flt(allrecs, p)[:n]]
    if mode == "tail":
        assert n is not None and n >= 0
        a = flt(allrecs[N - min(n, N):], p)  # last n lines, then filter
        f = flt(allrecs, p)
        b = f[len(f) - min(n, len(f)):]  # filter, then last n
        return [a] if a == b else [a, b]
    raise ValueError(mode)


def match_concatenation(got: list[int], per_file: list[list[list[Entry]]]) -> list[Entry] | None:
    """Several files on one command line: the output is the concatenation of the per-file results.

    per_file[i] = the result sequences the statement allows for file i (as returned by accepted()).  Returns the
    concatenated entries of the first combination whose id sequence equals `got`, or None.  Ids restart at 0 in every
    file, so the split points are searched (at most 2 alternatives per file)."""

    def rec(pos: int, i: int) -> list[Entry] | None:
        if i == len(per_file):
            return [] if pos == len(got) else None
        seen: list[list[int]] = []
        for alt in per_file[i]:
            ids = [e["id"] for e in alt]
            if ids in seen:
                continue
            seen.append(ids)
            if got[pos:pos + len(ids)] == ids:
                rest = rec(pos + len(ids), i + 1)
                if rest is not None:
                    return list(alt) + rest
        return None

    return rec(0, 0)


def clamp_leak_possible(lengths: list[int], n: int) -> bool:
    """tail/head over several files: is there an earlier file shorter than both n and some later file?  (Only then does
    "n lines of every file" differ from "n clamped by an earlier file".)"""
    return any(lengths[i] < min(n, lengths[j]) for i in range(len(lengths)) for j in range(i + 1, len(lengths)))


def n_condition(N: int, n: int) -> str:
    if n == 0:
        return "n-zero"
    if n < N:
        return "n-less-than-log"
    if n == N:
        return "n-equals-log"
    return "n-greater-than-log"


def classify(got: list[int], want: list[int], bounded: bool = False) -> str:
    """Failure kind of an id sequence against the primary expectation.

    bounded: the mode has an end bound inside the log (head n, reverse from k); yielding the right
    slice and then carrying on is one failure kind of its own there.
    """
    if sorted(got) == sorted(want):
        return "wrong-order"
    if bounded and len(got) > len(want) and got[: len(want)] == want:
        return "continues-past-end-of-slice"
    cg, cw = Counter(got), Counter(want)
    if any(cg[i] > cw.get(i, 0) and cw.get(i, 0) > 0 for i in cg):
        return "duplicates"
    if any(i not in cw for i in cg):
        return "extra-records"
    return "missing-records"
