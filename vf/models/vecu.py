"""Reference model of the virtual ECU's default response chain (DESIGN.md appendix D) and a driver for the
real RandomUDSServer behind UDSServerTransport.handle_request.  Used by C13 (conformance) and C14 (robustness /
client-server agreement).

The model is relative to the server's own service model M = server.services (which sessions offer which services
and sub-functions); everything else is written from the property statement.
"""

from __future__ import annotations

import random
from typing import Any

from vf import gen_uds
from vf import iso14229 as iso

SWITCHES = [
    "default_response_if_service_not_supported",
    "default_response_if_missing_sub_function",
    "default_response_if_sub_function_not_supported",
    "default_response_if_incorrect_format",
    "default_response_if_session_change",
    "default_response_if_session_read",
    "default_response_if_tester_present",
    "default_response_if_none",
    "default_response_if_suppress",
]
UNKNOWN = object()


class Verdict:
    __slots__ = ("ok", "rule", "why", "expected")

    def __init__(self, ok: bool, rule: str, why: str = "", expected: Any = None):
        self.ok, self.rule, self.why, self.expected = ok, rule, why, expected


class VecuModel:
    def __init__(self, services: dict[int, dict[int, list[int] | None]], switches: dict[str, bool]):
        # services: session -> {sid: [sub functions] | None}
        self.M = {int(s): {int(k): (None if v is None else [int(x) for x in v]) for k, v in d.items()} for s, d in services.items()}
        self.sw = {k[len("default_response_if_") :]: v for k, v in switches.items()}
        self.S = 1
        self.sec: Any = None
        self.last_sa: Any = None  # (type, seed bytes | UNKNOWN)
        self.sa_ambiguous = False  # an exchange without any observable reply may or may not have cleared the seed memory
        self.sf_services = {sid for d in self.M.values() for sid, v in d.items() if v is not None}

    def is_sf(self, sid: int) -> bool:
        if sid in self.sf_services:
            return True
        # a service the model does not list anywhere (only reachable with rule 1 switched off): ISO's sub-function services
        return all(sid not in d for d in self.M.values()) and sid in iso.HAS_SUBFUNCTION

    def reset(self) -> None:
        self.S, self.sec, self.last_sa = 1, None, None

    # --------------------------------------------------------------------------------------------
    def check(self, q: bytes, raw: bool, reply: bytes | None) -> Verdict:
        """Judge `reply` to request `q` in the current model state and advance the state.
        raw: the request is unparsable (dynamic parser fell back to a raw request)."""
        sid = q[0]
        M, S, sw = self.M, self.S, self.sw
        nr = lambda code: bytes([0x7F, sid, code])  # noqa: E731
        sfreq = self.is_sf(sid)
        suppress = (not raw) and sid in iso.HAS_SUBFUNCTION and len(q) >= 2 and bool(q[1] & 0x80)

        def negative(rule: str, code: int) -> Verdict:
            # negatives are never suppressed; any produced non-tester-present response clears the seed memory
            self.last_sa = None
            if reply == nr(code):
                return Verdict(True, rule)
            return Verdict(False, rule, f"expected 7F {sid:02X} {code:02X}", nr(code))

        if sw["service_not_supported"] and sid not in M.get(S, {}):
            return negative("1:service-not-supported", 0x7F if any(sid in d for d in M.values()) else 0x11)
        if sw["missing_sub_function"] and sfreq and len(q) < 2:
            return negative("2:missing-sub-function", 0x13)
        if sw["sub_function_not_supported"] and sfreq and sid != 0x31 and len(q) >= 2:
            sf = q[1] & 0x7F
            act = sid in M.get(S, {}) and sf in (M[S][sid] or [])
            if not act:
                oth = any(s != S and sid in d and sf in (d[sid] or []) for s, d in M.items())
                return negative("3:sub-function-not-supported", 0x7E if oth else 0x12)
        if sw["sub_function_not_supported"] and sfreq and sid != 0x31 and len(q) < 2:
            # only reachable with rule 2 switched off: there is no sub-function byte to judge. The statement does not say
            # whether rule 3 then applies ("unknown sub-function") or is skipped; accept either negative answer.
            if reply is not None:
                self.last_sa = None  # a response was produced; without one nothing changes
            ok = reply in (nr(0x12), nr(0x7E), nr(0x13), nr(0x10)) or (reply is None and not sw["none"])
            return Verdict(ok, "3:no-sub-function-byte", "" if ok else "expected a negative response", nr(0x13))
        if sw["incorrect_format"] and raw:
            return negative("4:incorrect-format", 0x13)

        def positive(rule: str, exact: bytes | None, predicate: Any = None) -> Verdict:
            """a positive response was produced; it is withheld iff suppression applies"""
            if sw["suppress"] and suppress:
                if reply is None:
                    return Verdict(True, rule + "+suppressed")
                return Verdict(False, rule + "+suppressed", "positive response sent although the suppress bit is set", None)
            if reply is None:
                return Verdict(False, rule, "no response although a positive response is due", exact)
            if exact is not None:
                return Verdict(reply == exact, rule, "" if reply == exact else f"expected {exact.hex()}", exact)
            if predicate is not None and not predicate(reply):
                return Verdict(False, rule, "positive response of another shape than the rule prescribes")
            return Verdict(True, rule)

        if not raw:
            if sw["session_change"] and sid == 0x10:
                sf = q[1] & 0x7F
                v = positive("5:session-change", bytes([0x50, sf]))
                self.S, self.sec, self.last_sa = sf, None, None
                return v
            if sw["session_read"] and sid == 0x22 and q[1:3] == b"\xf1\x86":
                v = positive("5:session-read", bytes([0x62, 0xF1, 0x86, S]))
                self.last_sa = None
                return v
            if sw["tester_present"] and sid == 0x3E:
                return positive("5:tester-present", b"\x7e\x00")  # does not touch the seed memory
            # service handlers
            if sid == 0x11:
                sf = q[1] & 0x7F
                v = positive("6:ecu-reset", None, lambda r: r[0] == 0x51 and r[1] == sf and len(r) == (3 if sf == 4 else 2))
                self.reset()
                return v
            if sid == 0x27:
                sf = q[1] & 0x7F
                if sf & 1:
                    was_suppressed = sw["suppress"] and suppress
                    v = positive("6:request-seed", None, lambda r: r[0] == 0x67 and r[1] == sf)
                    self.last_sa = (sf, UNKNOWN if was_suppressed or reply is None else reply[2:])
                    self.sa_ambiguous = False
                    return v
                last, self.last_sa = self.last_sa, None
                amb, self.sa_ambiguous = self.sa_ambiguous, False
                if amb and reply == nr(0x24):
                    return Verdict(True, "6:send-key-sequence")  # the seed may have been forgotten by the unobservable exchange before
                if last is None or sf != last[0] + 1:
                    if reply == nr(0x24):
                        return Verdict(True, "6:send-key-sequence")
                    return Verdict(False, "6:send-key-sequence", "expected requestSequenceError", nr(0x24))
                if last[1] is UNKNOWN:
                    if reply is None and sw["suppress"] and suppress:
                        self.sec = UNKNOWN
                        return Verdict(True, "6:send-key-unknown-seed")
                    if reply == bytes([0x67, sf]):
                        self.sec = sf - 1
                        return Verdict(True, "6:send-key-unknown-seed")
                    return Verdict(reply == nr(0x35), "6:send-key-unknown-seed", "expected 67 sf or invalidKey")
                if q[2:] == last[1]:
                    v = positive("6:send-key-ok", bytes([0x67, sf]))
                    self.sec = sf - 1
                    return v
                if reply == nr(0x35):
                    return Verdict(True, "6:send-key-invalid")
                return Verdict(False, "6:send-key-invalid", "expected invalidKey", nr(0x35))
        # generic: handler of the service, or generalReject / nothing
        if reply is None and not (sw["suppress"] and suppress) and not sw["none"]:
            # no handler answered and the generalReject default is switched off: no response was produced at all,
            # so nothing changes (in particular an outstanding seed stays valid)
            return Verdict(True, "6:no-handler-no-default")
        if reply is None and sw["suppress"] and suppress and not sw["none"]:
            # either a positive response was produced and withheld (seed memory cleared) or nothing was produced at all
            # (seed memory kept): not observable from outside
            self.sa_ambiguous = self.last_sa is not None
            return Verdict(True, "6:handler+suppressed")
        self.last_sa = None
        if reply is None:
            if sw["suppress"] and suppress:
                return Verdict(True, "6:handler+suppressed")
            return Verdict(False, "6:handler", "no response to a request that is due a response")
        if reply[0] == 0x7F:
            ok = len(reply) == 3 and reply[1] == sid
            return Verdict(ok, "6:handler-negative", "" if ok else "negative response names another service / wrong length")
        if sw["suppress"] and suppress:
            return Verdict(False, "6:handler+suppressed", "positive response sent although the suppress bit is set")
        ok = reply[0] == sid + 0x40
        return Verdict(ok, "6:handler-positive", "" if ok else "positive response of another service")


# --------------------------------------------------------------------------------------------------
def make_server(seed: Any, rp: dict[str, Any] | None, switches: dict[str, bool] | None) -> Any:
    import gallia.command  # noqa: F401
    from gallia.services.uds.server import RandomUDSServer, UDSServer

    params = RandomUDSServer.RandomnessParameters(**rp) if rp else None
    beh = UDSServer.Behavior(**switches) if switches else None
    if switches and all(switches.values()):
        # "all rules on" is the documented default: take it from the code's own defaults (no behaviour object / an object built
        # without arguments) instead of spelling every switch out, so that the defaults themselves are observed
        import zlib

        beh = (None, UDSServer.Behavior(), beh)[zlib.crc32(repr(seed).encode()) % 3]
    return RandomUDSServer(seed, params, beh)


def all_switches(off: set[str] | frozenset[str] = frozenset()) -> dict[str, bool]:
    return {k: (k not in off) for k in SWITCHES}


PARAM_SETS: list[dict[str, Any]] = [
    {},
    {"p_session": 0.3, "p_service": 0.5, "p_sub_function": 0.2, "p_identifier": 0.2, "p_correct_payload_format": 0.8},
    {"p_session": 1.0, "p_service": 1.0, "p_sub_function": 0.5, "p_identifier": 1.0, "p_correct_payload_format": 1.0, "optional_sessions": [2, 3, 4, 0x40, 0x7E]},
    {"p_session": 0.0, "p_service": 0.0, "p_sub_function": 0.0},
    {"p_session": 0.5, "p_service": 0.3, "optional_sessions": [], "p_identifier": 0.5},
    {"p_session": 0.6, "p_service": 0.6, "p_sub_function": 0.1, "mandatory_sessions": [1, 2, 3], "optional_sessions": [0x10, 0x20, 0x60],
     "mandatory_services": [0x10, 0x11, 0x27, 0x3E, 0x22, 0x2E, 0x31, 0x19, 0x14, 0x2F], "p_identifier": 0.3, "p_correct_payload_format": 0.5},
]


class FakeClock:
    """stands in for time.time inside gallia.services.uds.server, so that the 10 s inactivity reset can be exercised without waiting"""

    def __init__(self) -> None:
        self.t = 1_700_000_000.0

    def __call__(self) -> float:
        self.t += 1e-6
        return self.t

    def advance(self, dt: float) -> None:
        self.t += dt


CLOCK = FakeClock()


def install_clock() -> None:
    import gallia.services.uds.server as srv

    srv.time = CLOCK  # type: ignore[assignment]


class Driver:
    """Real server + transport, with the model shadowing it."""

    def __init__(self, seed: Any, rp: dict[str, Any], switches: dict[str, bool]):
        from gallia.services.uds.core import service
        from gallia.services.uds.server import UDSServerTransport
        from gallia.transports import TargetURI

        install_clock()
        self.service = service
        self.server = make_server(seed, rp, switches)
        self.transport = UDSServerTransport(self.server, TargetURI("tcp-lines://127.0.0.1:1"))
        self.switches = switches
        self.model: VecuModel | None = None

    async def setup(self) -> None:
        await self.server.setup()
        self.model = VecuModel(self.server.services, self.switches)

    def is_raw(self, q: bytes) -> bool:
        return isinstance(self.service.UDSRequest.parse_dynamic(q), self.service.RawRequest)


# ---- request generator shared by C13 / C14 / C16 ------------------------------------------------
def gen_request(rng: random.Random, model: VecuModel | None, last_seed: tuple[int, bytes] | None) -> bytes:
    k = rng.random()
    if last_seed is not None and rng.random() < 0.7:
        # answer the outstanding seed: right key, wrong key, or the key for another level
        r = rng.random()
        key = last_seed[1] if r < 0.6 else last_seed[1] + b"\x00"
        level = last_seed[0] + 1 if r < 0.9 else ((last_seed[0] + 3) & 0x7E)
        return bytes([0x27, level | (0x80 if rng.random() < 0.15 else 0)]) + key
    if model is not None and rng.random() < 0.08:
        sa = model.M.get(model.S, {}).get(0x27)
        if sa:
            return bytes([0x27, rng.choice([x for x in sa if x & 1]) | (0x80 if rng.random() < 0.1 else 0)])
    if model is not None and k < 0.45:
        # model aware: something the ECU offers in the active session
        offered = model.M.get(model.S, {})
        if offered:
            sid = rng.choice(sorted(offered))
            sfs = offered[sid]
            if sid == 0x27 and last_seed is not None and rng.random() < 0.7:
                key = last_seed[1] if rng.random() < 0.7 else last_seed[1] + b"\x00"
                return bytes([0x27, last_seed[0] + 1]) + key
            if sfs is not None:
                sf = rng.choice(sfs) if sfs and rng.random() < 0.85 else rng.randrange(128)
                spr = 0x80 if rng.random() < 0.2 else 0
                tail = {0x10: b"", 0x11: b"", 0x3E: b"", 0x28: b"\x01", 0x85: b"", 0x27: b"" if sf & 1 else b"\xaa\xbb",
                        0x31: rng.randbytes(2) + rng.randbytes(rng.choice([0, 0, 2])), 0x19: bytes([rng.randrange(256)]),
                        0x2C: rng.randbytes(rng.choice([2, 6]))}.get(sid, rng.randbytes(rng.randint(0, 3)))
                if rng.random() < 0.08:
                    tail = rng.randbytes(rng.randint(0, 4))
                return bytes([sid, sf | spr]) + tail
            if sid == 0x22:
                return b"\x22" + (b"\xf1\x86" if rng.random() < 0.3 else rng.randbytes(2)) + (rng.randbytes(2) if rng.random() < 0.2 else b"")
            if sid == 0x2E:
                return b"\x2e" + rng.randbytes(2) + rng.randbytes(rng.randint(1, 4))
            if sid == 0x2F:
                return b"\x2f" + rng.randbytes(2) + bytes([rng.randrange(4)]) + rng.randbytes(rng.randint(0, 3))
            if sid == 0x14:
                return b"\x14" + rng.randbytes(3)
            return bytes([sid]) + rng.randbytes(rng.randint(0, 6))
    if k < 0.6:
        c = gen_uds.any_valid_request(rng)
        if c.expect is not None and len(c.expect) <= 4095:
            return c.expect
    if k < 0.8:
        sid = rng.randrange(256)
        n = rng.randint(0, 8)
        fill = rng.choice([b"\x00", b"\xff", None])
        return bytes([sid]) + (fill * n if fill else rng.randbytes(n))
    if k < 0.97:
        return rng.randbytes(rng.choice([1, 2, 3, 4, 5, 8, 16, 64]))
    return rng.randbytes(rng.choice([255, 256, 4094, 4095]))
