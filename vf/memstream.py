"""In-memory stand-ins for asyncio streams: a real asyncio.StreamReader fed by the harness and a recording writer.

Every write is stamped with loop.time() and the name of the current task, so histories can be checked offline.
Cut injection: feed_eof() (EOF), reader.set_exception(ConnectionResetError()) + writer.fail = exc (reset), or
simply stop feeding (silence).
"""

from __future__ import annotations

import asyncio
from typing import Any, Callable


class MemWriter:
    def __init__(self, on_write: Callable[[bytes], None] | None = None) -> None:
        self.writes: list[tuple[float, str, bytes]] = []
        self.buffer = bytearray()
        self.closed = False
        self.close_calls = 0
        self.write_after_close = 0
        self.fail: BaseException | None = None
        self.fail_wait_closed: BaseException | None = None
        self.on_write = on_write

    def _now(self) -> tuple[float, str]:
        try:
            loop = asyncio.get_running_loop()
            t = asyncio.current_task()
            return loop.time(), (t.get_name() if t is not None else "?")
        except RuntimeError:
            return 0.0, "?"

    def write(self, data: bytes) -> None:
        if self.fail is not None:
            raise self.fail
        if self.closed:
            # a real StreamWriter drops data written after close(); the following drain() reports the lost connection
            self.write_after_close += 1
            return
        now, task = self._now()
        self.writes.append((now, task, bytes(data)))
        self.buffer += data
        if self.on_write is not None:
            self.on_write(bytes(data))

    def writelines(self, lines: Any) -> None:
        for ln in lines:
            self.write(ln)

    async def drain(self) -> None:
        if self.fail is not None:
            raise self.fail
        if self.closed:
            raise ConnectionResetError("Connection lost")

    def close(self) -> None:
        self.close_calls += 1
        self.closed = True

    def is_closing(self) -> bool:
        return self.closed

    async def wait_closed(self) -> None:
        # a real StreamWriter waits here for connection_lost(), which runs in a later loop iteration: this is a suspension point
        # (a task that cancelled itself before calling it is interrupted here)
        await asyncio.sleep(0)
        if self.fail_wait_closed is not None:
            raise self.fail_wait_closed
        if isinstance(self.fail, ConnectionError):
            raise self.fail  # like asyncio after a reset: wait_closed() re-raises the connection error

    def get_extra_info(self, name: str, default: Any = None) -> Any:
        if name == "peername":
            return ("127.0.0.1", 1)
        if name == "sockname":
            return ("127.0.0.1", 2)
        return default

    def can_write_eof(self) -> bool:
        return False

    @property
    def transport(self) -> Any:
        return self


def new_reader(limit: int = 2**16) -> asyncio.StreamReader:
    return asyncio.StreamReader(limit=limit)
