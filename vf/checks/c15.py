"""C15 Every run leaves a consistent exit code, META.json, log file and database record.

Runtime monitoring of the real ``BaseCommand.entry_point()``: one child interpreter per run (this module, started
with ``--child``), harness commands of the three base kinds with a fault injector at a chosen lifecycle point, and a
parent-side oracle over the artefacts the run leaves behind (DESIGN.md section 3, C15).
"""

from __future__ import annotations

import json
import os
import signal
import sqlite3
import subprocess
import sys
import time
from concurrent.futures import ThreadPoolExecutor
from datetime import datetime
from pathlib import Path
from typing import Any

PROPERTY = "C15"
LEVEL = "fault_enumeration"
ENGINE = "subprocess-lifecycle"
TECHNIQUE = (
    "runtime monitoring of real processes: each run executes BaseCommand.entry_point() of a harness AsyncScript / Scanner / "
    "UDSScanner (the latter two against a virtual ECU on a unix-lines socket inside the same child) with one injected exit "
    "kind at one lifecycle point; the parent observes exit status, META.json, the run_meta row (sqlite3), log.json.zst "
    "(zstd frame completeness + PenlogReader; once as the file is after the process ended and once as the copy the child took the "
    "moment entry_point() returned or raised, before the interpreter's own logging.shutdown() could close anything), flock state "
    "and the environment dumped by the hook scripts, and compares them with the documented mapping. UDS scanner runs get an OEM-style "
    "ECU class (gallia.command.uds.load_ecu replaced in the child) whose properties() sends ReadDataByIdentifier requests. The harness "
    "command logs one numbered record at every lifecycle point through gallia's logger and notes each text once the logging call has "
    "returned; every noted text must be found, in order, in log.json.zst. Further run families: the command disconnects its DBHandler "
    "and connects it again during the run (with another sqlite3 writer using the file in between); the command logs one record of a "
    "text class (controls, Latin-1, BMP, astral, JSON/format metacharacters, long, and strings with lone surrogates as "
    "os.fsdecode()/surrogateescape produce them for undecodable bytes); the shipped `gallia discover doip` command run through "
    "gallia.cli.gallia.main() with --db/--artifacts-base/--lock-file against 127.0.0.1:1 (no listener: the discovery ends by itself with the "
    "command's own sys.exit), judged by the same artefact oracle plus the discovery_run row the discoverer writes during the run; "
    "commands that fork a helper process (os.fork() / multiprocessing 'fork' start method) which is still alive when entry_point() returns - the lock "
    "file is probed with a fresh open()+flock() right then, while the helper (which shares the command's open files) lives; and runs that get their "
    "real SIGINT only after run() is over, while entry_point() closes the database: the command had queued a burst of scan results "
    "(DBHandler.insert_scan_result), the parent waits for the end of run() and for the command's call of DBHandler.disconnect() (noted by a wrapper around "
    "that method), counts the burst rows already written with a read-only reader and sends the signal; runs inside a run: gallia's shipped Rerunner "
    "(`script rerun --file META.json`; subclassed only to log one record in setup() and one in teardown()) re-creates the harness command from a META.json and awaits "
    "its entry_point() inside its own main(), so two runs of one process - each with its own artifacts dir/log file, database handler (same or another file) and lock "
    "file - are alive at once; the inner run is observed by a wrapper around its real entry_point() (return value, log file copy, handlers attached since it began, "
    "lock probe), the outer run as any top-level run, and each is judged on its own artefacts; every run with a database starts on a database path in one of three "
    "states (absent / existing empty file as from mktemp or touch / gallia database an earlier completed run of gallia's own DBHandler has written to); hooks that do not "
    "fail but take long (sleep, then a marker file, exit 0): with the clock the stdlib subprocess module measures timeouts with running 40000 times faster in the child "
    "(a 0.3 s hook has taken 12000 s by any limit given to subprocess.run; without a limit that clock is never read) and, in one run (thorough: two), really sleeping 20-35 s; "
    "two usage dimensions folded into the runs of all families: every second run with a hook is started with GALLIA_EXIT_CODE / GALLIA_META of another gallia run in its process environment "
    "(gallia launched from the post-hook of another run) and the environment its own hooks dump is judged as in any other run; in every second run with an artifacts dir or a database the "
    "command reads an option of its own config object and assigns another value to it at a lifecycle point at or before its ending (what `scan uds identifiers` does with `end`), and the config in "
    "META.json / run_meta is compared with the config the run was started with. The Ctrl-C-while-the-run-entry-is-completed runs hold the command at the very end of run(), take the database's "
    "write lock (stdlib sqlite3) once the scan_result table has stopped growing, send the signal after the child has noted the command's call of DBHandler.complete_run_meta() and release the lock only "
    "when the child has noted that this call was ended by CancelledError. Two dimensions of a process that runs more than one command: (a) in every second run with an artifacts dir "
    "the child has run another gallia command (a small AsyncScript with an artifacts dir of its own) to its end through asyncio.run(entry_point()) before the judged command object is created; every "
    "harness command class notes the time in __init__ right before BaseCommand.__init__ runs and the child notes the time when entry_point() has ended, and the start/end times in every META.json "
    "(judged run, earlier run, inner and outer run of nested runs) must lie inside that run's window - and the later run's start not before the earlier run's end; (b) runs in which the judged "
    "command and a second command with the same lock file are two tasks of one event loop: one of them sits suspended at a lifecycle point, holding the lock, when the other one's entry_point() is "
    "started; both are judged on their own artefacts, the waiter's lifecycle may only begin after the holder's entry_point() ended, and a heartbeat task watched by a thread tells whether the loop "
    "still turns (no turn for 10 s, reproduced when the case is repeated: the runs can never end)"
)
LEVEL_TEXT = (
    "Fault enumeration: command kind x exit kind x lifecycle point is enumerated completely in both tiers (3 x (1 + 9 x 5) = "
    "138 combinations). Quick: each combination once with non-failing hooks {none, ok, noisy} and artifacts dir / database / "
    "lock file chosen by a seeded greedy covering array (all factor pairs plus selected triples), then about 30 rows with a "
    "failing pre- or post-hook until every pair with a failing hook is covered (about 166 runs), plus 6 runs (thorough: 48) on a "
    "shared database whose write lock a second writer (the harness, stdlib sqlite3, BEGIN IMMEDIATE) holds for 2.5-4 s from "
    "right before the command finishes, plus 6 runs (thorough: 32) of the UDS scanner whose ECU answers in setup and main and fails "
    "only for the properties read of UDSScanner.teardown (ECU silent / ECU closes the connection), plus 9 runs (command kind x cycle point "
    "in {setup, main, teardown}; thorough: x every ending at or after the cycle point, 252) in which the command disconnects and "
    "re-connects its database handler once or twice, plus 10 runs (thorough: 150 = class x kind x lifecycle point) in which the command "
    "logs one record of each of 10 text classes (4 of them with lone surrogates) before it logs further records and ends, plus 4 runs (thorough: 32 = "
    "target form x 8 resource settings) of the shipped DoIP discoverer through the real CLI (target given as host:port, with src_addr, with src_addr and "
    "activation_type, with a foreign scheme), plus 6 runs (command kind x fork flavour; thorough: 144 = kind x flavour x fork point x 8 endings) in which "
    "the command forks a helper process that outlives entry_point(), lock file on, plus 6 runs (every kind twice; thorough: 48 = kind x 8 endings x 2) "
    "that end in main or teardown with 600-1200 scan results queued and get a real SIGINT while entry_point() closes the database, plus 9 nested runs (9 endings of all "
    "classes incl. a real SIGINT, command kind rotating, the 8 resource settings of the outer Rerunner run rotating; thorough: 138 = kind x exit kind x lifecycle point) in which "
    "gallia's Rerunner runs the harness command inside its own run, plus 9 runs (kind x slow hook in {pre, post, both}; thorough: 72 = x 8 endings) with long-running hooks under the "
    "scaled subprocess clock and 1 run (thorough: 2) whose hook really sleeps 20 s (35 s). The latesig family has 6 more runs (thorough: 12; every kind twice, six endings) whose Ctrl-C arrives while complete_run_meta() waits for a write lock another writer holds (4 of 6 with no other write of the handler pending, checked by counting scan_result under the lock and after the run; 2 with 5 scan results queued after the lock was taken). In every family each run with a database gets one of three states of the database path "
    "before the run (absent, empty file, used by an earlier run), the three states in shuffled turns; every second run with a hook inherits hook variables of another run, every second run with an "
    "artifacts dir or a database changes one of three options (own int, own str, base-class float) of its config at one of the lifecycle points it reaches (shuffled in blocks of two); every second run with an "
    "artifacts dir (parent-timed, nested and side-by-side families excepted; about 50 runs) follows an earlier complete run of another command in the same process; plus 6 side-by-side runs (command kind x role of the "
    "judged command in {holds the lock, waits for it}; hold point, ending, gap 0.05-0.2 s and the second command's exit code rotating; thorough: 60 = kind x (3 hold points x 4 endings + 8 endings)). Thorough: every combination "
    "x all 8 resource settings x 5 hook pairs (a rotating diagonal of the non-failing 3x3 hook square, one failing pre-hook, "
    "one failing post-hook; 5520 runs; VERIF_C15_FULL=1 runs all 25 hook pairs). One fault per run; held means held for the "
    "runs executed. A child that exceeds the watchdog is re-run; it is a finding only if it hangs again and the thread stacks "
    "it dumped show no harness frame, otherwise the verdict is inconclusive."
)
LEVEL_NOTE = (
    "Trusted: the exit-code table and artefact oracle in vf/checks/c15.py, sqlite3, zstandard, the kernel's flock. The child "
    "mirrors gallia's CLI main (setup_logging + asyncio.run(entry_point())) but is not the gallia CLI; dumpcap is off; "
    "database-open failures and double faults are not injected (a database file that exists before the run, empty or used, opens fine). Nested runs use gallia's Rerunner with "
    "two logging lines added in a subclass; side-by-side runs are two tasks of one loop that share the lock file and nothing else (the second command is a plain script without database or hooks; "
    "a real SIGINT is not sent to them); the run window is noted by the harness classes' __init__ and by the child, with the same wall clock gallia uses. The scaled clock only reaches limits enforced through the "
    "subprocess module's own timeout handling."
)
RULE = (
    "a case is (command kind in {script, scanner, uds}) x (exit kind in {return, SystemExit(0), SystemExit(1), SystemExit(3), "
    "SystemExit('str'), ConnectionError, UDS MissingResponse, RuntimeError, raised KeyboardInterrupt, real SIGINT sent by the "
    "parent once the child signalled that it sits at the chosen point}) x (lifecycle point in {setup before/after "
    "super().setup(), main, teardown before/after super().teardown()}) x pre-hook x post-hook in {none, ok, fail (exit 3, "
    "silent), failnoisy (output + exit 1), noisy (>64 KiB output)} x artifacts dir on/off x database on/off x lock file "
    "on/off; kind x exit x point is the full product, the other factors follow a seeded covering array (quick) or the full "
    "resource product with 5 of the 25 hook pairs (thorough); a separate family adds (kind) x (8 endings) with the database on "
    "and a second writer holding the database's write lock while the command finishes; a third family is (UDS scanner) x (point "
    "'teardown_props': the request that ecu.properties() sends inside UDSScanner.teardown) x (fault in {ECU silent from the start of "
    "teardown on, ECU closes the connection at the first request of teardown}) x (request timeout, retries) x resources x non-failing hooks; "
    "a fourth family is (kind) x (lifecycle point in {setup_post, main, teardown_pre} at which the command calls db_handler.disconnect() and "
    "db_handler.connect() again, 1-2 times, pause 0-50 ms, optionally a foreign sqlite3 writer inserting a row in between) x (ending at or after "
    "that point), database on; a fifth family is (text class of one logged message, 10 classes) x (kind) x (lifecycle point at which it is logged) "
    "x (ending at or after that point), artifacts dir on; a sixth family is (`gallia discover doip` through the CLI main) x (target form in {host:port, "
    "+src_addr, +src_addr+activation_type, foreign scheme}) x resources, peer 127.0.0.1:1 not listening; "
    "a seventh family is (kind) x (fork flavour in {os.fork, multiprocessing fork-context Process}) x (lifecycle point in {setup_post, main, teardown_pre} at which "
    "the command forks a helper process that stays alive until the harness stops it after entry_point()) x (ending at or after that point, real SIGINT excepted), "
    "lock file on; an eighth family is (kind) x (8 endings in main / teardown) x (burst of 600/900/1200 queued scan results at the last lifecycle point before "
    "the ending) x (real SIGINT sent 0/5/20 ms after the command called DBHandler.disconnect(), i.e. while entry_point() writes out the queue and closes the database), "
    "database on; a ninth family is (gallia's Rerunner as the outer run, artifacts dir on/off x database in {none, the inner run's file, a file of its own} x lock file on/off, 8 settings) x "
    "(inner run: kind x exit kind x lifecycle point, own resources, non-failing hooks), the Rerunner awaiting the inner entry_point() inside its main(); a tenth family is (kind) x "
    "(pre-hook, post-hook in {slow, none}, at least one slow) x (8 endings, no real SIGINT) x (flavour in {scaled subprocess clock, real time}); a dimension of every run with a database is "
    "the state of the database path before the run in {absent, empty file, database used by an earlier completed run}; a dimension of every run with a hook is the process environment in "
    "{clean, GALLIA_EXIT_CODE and GALLIA_META of another run inherited}; a dimension of every run with an artifacts dir or a database is {config untouched, the command assigns a new value to "
    "(c15_end | c15_note | power_cycle_sleep) at a lifecycle point <= its fault point}; the run-entry-completion window of the eighth family is (kind) x (6 endings) x "
    "(signal 0.15/0.3 s after complete_run_meta() was called under a foreign write lock) x (handler's queue empty | 5 results queued under the lock); "
    "a dimension of every run with an artifacts dir is {first command of the process, the process has run another command (artifacts dir on/off, exit code in {0, 2, 5}) to its end before}; an eleventh family is "
    "(kind) x (role of the judged command in {holder, waiter}) x (holder: hold point in {setup_post, main, teardown_pre} x ending at or after it | waiter: any ending; no real SIGINT) x (gap) x "
    "(second command: artifacts dir on/off, exit code in {0, 4, 6}), both commands with the same lock file as tasks of one event loop; "
    "non-trivial = anything but a fault-free run without hooks and "
    "resources; distinct = distinct case tuples"
)
ASSUMPTIONS = [
    "the child reproduces gallia.cli.gallia's main: setup_logging(logger_name='') then asyncio.run(cmd.entry_point()) and sys.exit of the result",
    "expected (exit 74) exceptions are ConnectionError and UDSException for Scanner/UDSScanner; for a plain AsyncScript, which declares none, 70 and 74 are both accepted",
    "SystemExit with a string argument may end with 1 (Python's convention) or 70; the recorded codes must still agree with the process",
    "a real SIGINT may end the process with status 130 or by SIGINT itself; META.json / run_meta must say 130 in both cases",
    "whether the post-hook runs after a real SIGINT is not decided (the statement does not say)",
    "'the compressed log is closed' is the command's job: it is judged on the file as it is when entry_point() returns or raises (the child copies "
    "it at that moment), not only on what the interpreter's logging.shutdown() atexit hook leaves behind when the process ends",
    "a missing response or a connection closed by the ECU while UDSScanner.teardown reads the ECU properties is an expected UDS/connection error: "
    "exit code 74 (judged only if the virtual ECU really saw a ReadDataByIdentifier request after it was told to fail)",
    "one fault per run; database-open failures are not injected; dumpcap is disabled",
    "config equality is decided on the JSON dump of the re-created CONFIG_TYPE (TargetURI has no __eq__)",
    "a command may hand the database to somebody else for a while: db_handler.disconnect() followed later by db_handler.connect() (what gallia's own "
    "DoIP discoverer does around its writes) is legitimate use; only runs whose handler is connected again when the command ends are generated "
    "(a handler the command itself left disconnected is not exercised), and at least 5 ms pass between connect() and the next use of the handler",
    "'fully readable' includes: every record handed to gallia's logger before run() ended is in the log file, in order; the harness only demands its "
    "own records (logger gallia.verif.c15), compared by exact text. A message that is not a sequence of Unicode scalar values (lone surrogates) "
    "is not itself looked for (DESIGN 3a, C17: not text); the records logged before and after it are",
    "`gallia discover doip` runs offline: 127.0.0.1:1 answers no UDP request and refuses TCP connects, so the command ends by its own sys.exit(n) within "
    "seconds; which n is the command's business, the oracle only demands that process status, META.json and run_meta agree on it, that run_meta has "
    "its end time, that the discovery_run row exists once the command got past its target check, that the log is closed and readable when CLI main ends, "
    "and that the lock is free; SystemExit out of CLI main is caught in the child only to copy the log file before the interpreter's atexit hooks run",
    "a command may start helper processes by fork (multiprocessing's default start method on Linux) and need not wait for them: 'the lock file is released' "
    "means that another open()+flock(LOCK_EX|LOCK_NB) succeeds once entry_point() has returned, also while such a helper is alive; the helper does nothing "
    "with what it inherited; the harness stops and reaps it after the probe. Endings by a real SIGINT are not combined with a helper (entry_point() raises "
    "there and the lock is only judged after the process has ended)",
    "a Ctrl-C that arrives when run() is over (entry_point() is closing the database) may end the process with the code of the finished run or as "
    "interrupted (130 / death by SIGINT); in the first case META.json and run_meta must carry the run's code, in the second 130; everything else "
    "(META.json present, times, log closed when entry_point() ends, run_meta end time) is demanded as for any other ending. The signal is sent once "
    "the command has called its database handler's disconnect() after run() ended (a run where that was not seen within 5 s is not judged; a Ctrl-C that "
    "arrives earlier, while the run_meta row is still being completed, is not generated), and the run counts as exercised only "
    "if at least 50 rows of the burst were still unwritten at that moment. What becomes of the queued scan results is not part of this property. After its "
    "observations the child stops a database connection the command left open (its worker thread is not a daemon thread and can keep a process alive whose "
    "command object is still referenced, e.g. from a traceback); that the connection was left open is counted, not judged",
    "several runs may be alive in one process at the same time (gallia's own `script rerun` awaits the re-created command's entry_point() inside its run): each run's exit code, META.json, "
    "log, run_meta row and lock file are its own and are judged separately. The Rerunner ends with sys.exit(n), n being what the inner entry_point() returned, so its documented exit code is n. "
    "'Fully readable' for the outer run: its log handler is attached from before the inner command exists until after it has ended, so the two records the harness logs from the Rerunner's "
    "setup()/teardown() and every record of the inner run belong into the outer log, in order; the inner log is only asked for the inner run's records (records of the outer run that also show "
    "up there, or records that are there twice, are not judged). Outer and inner run use different lock files (one process cannot hold the same flock twice) and different artifacts bases; "
    "the outer run has no hooks",
    "the path given as --db may already exist: as an empty file (`--db \"$(mktemp)\"`, touch - a zero-byte file is an empty sqlite database) or as a gallia database earlier runs have written to; "
    "neither is a database-open failure, the run has to leave the same artefacts as on a fresh path. The 'earlier run' is made in the child before the command is built with gallia's own "
    "DBHandler (connect, insert_run_meta, complete_run_meta, disconnect in an asyncio.run() of its own); a run counts for that state only if this succeeded and its row is in the file",
    "no run time limit for hooks is documented: a hook that takes long and exits 0 is not a failing hook; it is run to its end (the marker it writes after its sleep exists) and the run "
    "is what it would have been with a quick hook. Scaling subprocess._time (the monotonic clock subprocess.run/communicate/wait compare a given timeout with) changes nothing for code that "
    "gives subprocess no timeout; a limit enforced by other means (asyncio, signals, threads) is only met by the hook that really sleeps 20 s (35 s)",
    "after an exception other than a Ctrl-C's KeyboardInterrupt has left entry_point() in a run on a database path that existed before (or in a nested run), the child stops a database "
    "connection that exception left open, so that the child can end; the exception is the finding, the hanging process would be its consequence",
    "gallia may be started with GALLIA_* hook variables of another gallia run in its environment (it was launched from that run's post-hook); what a run hands to its own hooks is about "
    "this run: GALLIA_EXIT_CODE is this run's exit code, GALLIA_META the content of this run's META.json, GALLIA_HOOK the variant that runs, GALLIA_ARTIFACTS_DIR and GALLIA_INVOCATION "
    "those of this run. All five variables of the other run are inherited in the generated runs (the last three were handed through to the run's own hooks until /repo 6159b3e; "
    "VERIF_C15_STALE_HOOK_ENV=two restricts the inheritance to the first two). What the pre-hook sees in variables documented for the post-hook only is not judged. The hook script names the files it leaves after the variant it was configured as "
    "(an argument), not after GALLIA_HOOK",
    "a command may assign to the options of its own config object while it runs (gallia's `scan uds identifiers` does); 'a config from which the run can be re-created' is the config the run was "
    "started with - the one stored in run_meta.config when the run began -, not the values the options have when the run ends",
    "Ctrl-C while the run entry is completed: counted only if the harness held the write lock from before run() ended until the child had noted that the command's complete_run_meta() call was left "
    "by CancelledError; held longer than 6 s in all: not judged. Whether other writes of the handler were pending at that time is observed (scan_result count under the lock vs. after the run), "
    "both cases are judged alike; at least 3 (6) runs without pending writes are required",
    "'the start/end times' in META.json are those of that run: the start time is not earlier than the moment right before the command object was created (a run cannot have started before its "
    "command existed; the harness classes note datetime.now() as the first thing in __init__), the end time not later than the moment the child noted after entry_point() had ended, and a run of a process "
    "that has run another command before did not start before that earlier run's entry_point() had ended (the later command object is created after it). Same process, same wall clock as gallia's; no tolerance",
    "a process may run several commands, one after the other (each through its own asyncio.run(entry_point())) or side by side as tasks of one event loop (a driver script that gathers two scans which "
    "must not use the bus at the same time and therefore share --lock-file): each run's exit code, META.json, log and lock are its own. With the same lock file the second one has to wait until the "
    "first one's entry_point() has ended - which presupposes that the waiting lets the holder go on: an event loop that does not turn for 10 s while one command waits for the lock the other one "
    "holds (heartbeat task of 20 ms watched by a thread; hooks block the loop only for their own run time, which is far below that) means neither run can end; the harness then ends the process and "
    "repeats the case once; only a repeated stall is reported. flock() locks belong to the open file description: two open()s of one process contend like two processes",
    "the database may be shared with other writers: a write lock held by somebody else for up to 6 s (the handler's busy timeout is 10 s) "
    "must not cost the run its end time / exit code; a contended run is judged as such only if the measured lock time was 1.5..6 s, "
    "and not judged at all if the harness held the lock longer",
]
EXHAUSTIVE = {"quick": False, "thorough": False}
EXHAUSTIVE_NOTE = "exhaustive sub-space in both tiers: command kind x exit kind x lifecycle point (138 combinations)"

ROOT = Path(__file__).resolve().parent.parent.parent
PY = "/venv/bin/python"

KINDS = ["script", "scanner", "uds"]
EXITS = ["return", "exit0", "exit1", "exit3", "exitstr", "connerr", "udserr", "runtime", "kbdint", "sigint"]
POINTS = ["setup_pre", "setup_post", "main", "teardown_pre", "teardown_post"]
HOOKS = ["none", "ok", "fail", "failnoisy", "noisy"]
FACTORS = ["kind", "exit", "point", "pre", "post", "art", "db", "lock"]
DOMAINS: dict[str, list[Any]] = {
    "kind": KINDS, "exit": EXITS, "point": POINTS + ["none"], "pre": HOOKS, "post": HOOKS,
    "art": [False, True], "db": [False, True], "lock": [False, True],
}
CHILD_TIMEOUT = 45.0
SIGINT_READY_TIMEOUT = 20.0
STACK_DUMP_BEFORE_KILL = 8.0
RETRY_TIMEOUT = 25.0
CLASS_NAMES = {"script": "C15Script", "scanner": "C15Scanner", "uds": "C15UDSScanner"}
# ---- "second writer on the shared database" family (spec["contend"] = seconds the write lock is held)
# The harness holds sqlite's write lock (BEGIN IMMEDIATE) from right before the command finishes for a few seconds, far
# below the 10 s the database handler is prepared to wait. A run is judged as contended only if the lock was really held
# for CONTEND_MIN_OVERLAP..CONTEND_MAX_HELD seconds; if it was held longer than that, nothing about the run is judged.
OTHER_WRITER = "vf.checks.c15.OtherWriter"
CONTEND_HOLDS = [2.5, 3.0, 3.5, 4.0]
CONTEND_MIN_OVERLAP = 1.5
CONTEND_MAX_HELD = 6.0
CONTEND_LOCK_TIMEOUT = 3.0
CONTEND_ENDS = [("return", "none"), ("exit3", "main"), ("connerr", "main"), ("runtime", "teardown_post"), ("kbdint", "teardown_pre"),
                ("sigint", "main"), ("udserr", "setup_post"), ("exit1", "setup_pre")]
CONTEND_KEY = "run_meta/end_time-null/database-locked-by-other-writer"
# ---- "ECU fails only for the properties read of UDSScanner.teardown" family (spec["point"] == TDPROPS_POINT, uds kind only)
TDPROPS_POINT = "teardown_props"
TDPROPS_EXITS = ["ecusilent", "ecureset"]  # the ECU stops answering / closes the connection at the next request
TDPROPS_COND = "teardown-properties-error"
PROPS_DIDS = [0xF186, 0xF190]  # what the harness ECU class reads in properties()
# ---- "the command gives the database away and takes it back" family (spec["dbcycle"]): at one lifecycle point the command
# disconnects its DBHandler and connects it again (1-2 times, optionally with a pause and with somebody else writing to the
# file in between) - the connect/disconnect cycle gallia's own DoIP discoverer performs. The handler is connected when the run ends.
DBCYCLE_POINTS = ["setup_post", "main", "teardown_pre"]
DBCYCLE_WHERE = "db-reconnected-by-command"
# ---- "the command logs text as Python hands it out" family (spec["logtext"]): one record whose message is of a text class
# (file names with undecodable bytes come back from os.fsdecode()/os.listdir() with lone surrogates, ECU data may hold anything)
# logged at one lifecycle point at or before the fault. What the log file does with a string that is not a sequence of Unicode
# scalar values is not judged (DESIGN 3a, C17); that every *other* record logged before the run ended is in the file is.
TEXT_CLASSES: dict[str, str] = {
    "ascii-controls": "ctl \x00\x07\x1b[31m\t\r\n \x7f end",
    "latin1": "Steuerger\xe4t gr\xf6\xdfer \xb15 % \xff",
    "bmp": "\u8a3a\u65ad \u30bb\u30c3\u30b7\u30e7\u30f3 \u03a9 \u2264 \u221e \u2028 \ufeff \ufffd end",
    "astral": "car \U0001f697 \U0001f600 \U00010348 \U0010ffff end",
    "json-meta": '{"data": "</7>\\", "x": [1, 2]} <3>{"a" %s %d {0} \\u00e4 \\',
    "long": "0123456789abcdef\xe9\u20ac" * 1200,
    "undecodable-bytes-surrogateescape": b"dump-\xff\xfe-\xc3.bin".decode("utf-8", "surrogateescape"),
    "lone-high-surrogate": "id \ud83d end",
    "surrogate-pair-as-two-code-points": "smile \ud83d\ude00 end",
    "lone-low-surrogate-last": "tail \udc80",
}
# ---- "a shipped command through the real CLI" family (spec["cli"]): `gallia discover doip --target ...` driven through
# gallia.cli.gallia.main() against 127.0.0.1:1 (nothing listens there: UDP requests stay unanswered, TCP connects are refused), so
# the run ends by itself within a few seconds with the command's own sys.exit(n). The discoverer writes to the database during
# its run; the same artefact oracle applies (exit status == META.json == run_meta, end time, log closed and readable, lock free).
CLI_KIND = "discover-doip"
CLI_COMMAND = "gallia.commands.discover.doip.DoIPDiscoverer"
CLI_DEAD_PEER = "127.0.0.1:1"
CLI_TARGETS: dict[str, str | None] = {
    "host-port": f"doip://{CLI_DEAD_PEER}",
    "host-port-src_addr-activation_type": f"doip://{CLI_DEAD_PEER}?src_addr=0x0e00&activation_type=0x00",
    "host-port-src_addr": f"doip://{CLI_DEAD_PEER}?src_addr=0x0e80",
    "foreign-scheme": f"tcp-lines://{CLI_DEAD_PEER}",  # refused by the command itself before it touches the database tables
}
# ---- "the command leaves a forked helper process behind" family (spec["forkhelper"]): at one lifecycle point the command forks a
# process (os.fork() or a multiprocessing Process of the "fork" start method - Linux' default) that is still alive when entry_point()
# returns. A forked process shares every open file description of the command, the lock file's included; "the lock file is released"
# is judged by a fresh open()+flock() right after entry_point() returned, while the helper is alive. The child harness stops and
# reaps the helper afterwards (the parent kills it if the child could not).
FORKHELPER_POINTS = ["setup_post", "main", "teardown_pre"]
FORKHELPER_HOW = ["os-fork", "multiprocessing-fork"]
HELPER_MAX_LIFE = 70.0  # the helper ends by itself after that (nobody stopped it); longer than any run may take
# ---- "Ctrl-C while entry_point() closes the database" family (spec["latesig"]): the command queues a burst of scan results
# (DBHandler.insert_scan_result, the call every UDS request of a scanner ends in) shortly before it ends, so that closing the
# database has something to write; the parent waits until run() is over (marker written by the harness command's run() wrapper)
# and until the command has called DBHandler.disconnect() (noted by a wrapper around that method of the command's handler; what is
# left of "db close" is writing out the queue and closing) and sends a real SIGINT. The run counts as exercised only if rows of the
# burst were still unwritten when the signal went out (counted by a read-only sqlite3 reader).
LATESIG_ENDS = [("return", "none"), ("exit3", "main"), ("connerr", "main"), ("runtime", "teardown_post"), ("kbdint", "teardown_pre"),
                ("exit1", "teardown_post"), ("udserr", "main"), ("exit0", "teardown_pre")]
LATESIG_ROWS = [600, 900, 1200]
LATESIG_MARGIN = 50  # rows of the burst that must still be missing from the database when the signal is sent
LATESIG_RUN_END_TIMEOUT = 25.0
LATESIG_ENTRY_TIMEOUT = 5.0
LATESIG_COND = "late-real-sigint"
BURST_TAG = "c15_burst"
# ---- "a run inside a run" family (spec["rerun"]): the shipped `gallia script rerun --file META.json` (Rerunner) re-creates a command from
# a META.json and awaits its entry_point() inside its own main(), i.e. two runs of one process are alive at the same time, each with its
# own artifacts dir / log file / database handler / lock file. The harness command (any kind, any ending) is the inner run; the outer run is
# the Rerunner with its own resources. Both runs are judged separately by the same artefact oracle. The outer class is the shipped Rerunner
# with setup()/teardown() that log one record each (before the inner command exists / after it has ended), nothing else is changed.
OUTER_CLASS = "C15Rerunner"
OUTER_COMMAND = f"vf.checks.c15.{OUTER_CLASS}"
OUTER_COND = "outer-of-nested-run"
RERUN_OUTER_RES = [  # (artifacts dir, database in {None, "same" file as the inner run, "own" file}, lock file) of the outer run
    (True, "same", True), (True, None, False), (True, "own", False), (False, "same", True), (True, "same", False), (True, None, True), (False, "own", False), (False, None, False),
]
# ---- "database file that is already there" dimension (spec["dbstate"], every run with a database): the path given as --db does not exist
# yet ("absent"), exists as an empty file (`--db "$(mktemp)"`, touch; a zero-byte file is an empty sqlite database: "empty-file"), or is a
# gallia database an earlier, completed run has written to ("initialised": done by the child with gallia's own DBHandler before the command
# is built; the row of that earlier run carries OTHER_WRITER as its script).
DBSTATES = ["absent", "empty-file", "initialised"]
# ---- "hook that takes its time" family (spec["slowhook"]): a pre-/post-hook that does not fail but runs long (power-cycle the ECU and wait
# for it to boot). No run time limit for hooks is documented, and a hook that is cut short or whose slowness ends the run has altered the run.
# Two flavours: "scaled" - the hook sleeps SLOW_SCALED_SLEEP s while the clock the stdlib subprocess module measures its timeouts with
# (subprocess._time) runs SLOW_CLOCK_SCALE times faster in the child, so that by any limit the command could hand to subprocess.run() the hook
# has taken hours (without a limit that clock is never read); "realtime" - the hook really sleeps SLOW_REAL_SLEEP s under the unchanged clock.
SLOW_SCALED_SLEEP = 0.3
SLOW_CLOCK_SCALE = 40000.0
SLOW_REAL_SLEEP = {"quick": [20.0], "thorough": [20.0, 35.0]}
# ---- "Ctrl-C while the run_meta row is being completed" window of the latesig family (spec["latesig"]["window"] == RUNENTRY_WINDOW, with
# spec["contend"]): the harness takes the database's write lock while the command is held at the end of its run() and keeps it until the child has noted that the
# command's call of DBHandler.complete_run_meta() (made after run() was over) was left by a CancelledError - so the lock is held while the UPDATE
# is attempted and while the Ctrl-C is delivered - or RUNENTRY_WAIT_INTERRUPT s have passed; only then is the lock released.
RUNENTRY_WINDOW = "run-entry-completion"
RUNENTRY_ENDS = [("exit3", "main"), ("return", "none"), ("runtime", "teardown_post"), ("connerr", "main"), ("exit1", "teardown_pre"), ("udserr", "main")]
RUNENTRY_WAIT_INTERRUPT = 4.0
# where the command is held while the harness takes the lock: at the very end of its run(), after teardown (a lock taken earlier would stall what
# UDSScanner.teardown itself writes to the database). Before it takes the lock the harness waits until the scan_result table has stopped growing
# (RUNENTRY_QUIET s without a new row, at most RUNENTRY_QUIET_MAX s), and it counts that table when it has the lock and after the run: equal
# counts = the handler had no other write pending while the run entry was completed ("no-other-write-pending"); in two runs of six the command
# queues 5 scan results after the lock has been taken ("other-writes-pending").
RUNENTRY_HOLD = "end-of-run"
RUNENTRY_QUIET = 0.15
RUNENTRY_QUIET_MAX = 3.0
# ---- "hook variables of another run in the process environment" dimension (spec["staleenv"], runs with a hook): gallia started from the
# post-hook of another gallia run (chained scans, a re-run from a hook) inherits that run's GALLIA_* hook variables. What this run tells its own
# hooks has to be about this run. All five hook variables of the other run are inherited (what a post-hook really passes on); the unchanged tree
# handed GALLIA_HOOK / GALLIA_ARTIFACTS_DIR / GALLIA_INVOCATION through to its own hooks until /repo 6159b3e. VERIF_C15_STALE_HOOK_ENV=two restricts
# the inheritance to the exit code and META of the other run.
STALE_ENV: dict[str, str] = {
    "GALLIA_EXIT_CODE": "41",  # no run of the harness ends with 41
    "GALLIA_META": json.dumps({"command": "gallia.commands.scan.uds.services.ServicesScanner", "start_time": "2001-02-03T04:05:06+00:00",
                               "end_time": "2001-02-03T04:05:07+00:00", "exit_code": 41, "config": {"c15_note": "config of another run"}}),
    "GALLIA_HOOK": "post",
    "GALLIA_ARTIFACTS_DIR": "/nonexistent/c15-other-run/scan_services/run-20010203-040506.000000",
    "GALLIA_INVOCATION": "gallia scan uds services --target c15-other-run",
}
STALE_VARS_DEFAULT = ["GALLIA_EXIT_CODE", "GALLIA_META"]
STALE_COND = "inherited-from-process-environment"
# ---- "the command changes its own config while it runs" dimension (spec["cfgmut"], runs with an artifacts dir or a database): at one lifecycle
# point at or before the ending the command reads an option from its config object and assigns another value to it (gallia's
# `scan uds identifiers` narrows self.config.end that way). The config a run is re-created from is the one it was started with.
CFGMUT_FIELDS: dict[str, Any] = {"c15_end": 0x7F, "c15_note": "changed by the command while it ran", "power_cycle_sleep": 1.25}
CFGMUT_COND = "config-modified-by-command-during-run"
# ---- "an earlier run in the same process" dimension (spec["prior"], runs with an artifacts dir): the process that executes the judged command has
# executed another gallia command before (a driver script that runs several commands one after the other, a test harness, any long-lived embedding):
# a small AsyncScript (C15Second; optional artifacts dir of its own, ends by return or sys.exit(n)) is built and run to its end through
# asyncio.run(entry_point()) before the judged command object is created. Both runs are judged on their own artefacts; "the start/end times" in
# META.json are the times of *that* run: not before the command object was created (the harness classes note the time in __init__ before
# BaseCommand.__init__ runs), not after entry_point() has ended, and - for the later run - not before the earlier run of the process had ended.
PRIOR_COND = "earlier-run-of-the-same-process"
PRIOR_CODES = [0, 5, 0, 2]
# ---- "two runs side by side in one event loop, serialised by one lock file" family (spec["gather"], lock file on): a driver coroutine runs the
# judged harness command and a second small command (C15Second, same lock file, artifacts dir of its own) as two tasks of one loop. One of them
# (the "holder") sits suspended at a lifecycle point, holding the lock, when the entry_point() of the other one (the "waiter") is started; the holder
# stays suspended for `gap` s more (sleeping in 10 ms steps) and then goes to its ending. Roles: the judged command holds / the judged command waits.
# Both runs have to end with their exit code, META.json, closed log, and the waiter's lifecycle may only begin after the holder's entry_point() has
# ended. Progress is observed from outside the loop: a heartbeat task notes the time every 20 ms, a daemon thread reads it; if the loop has not
# turned for GATHER_STUCK_AFTER s the thread notes the state (events so far, stack of the main thread) and ends the process (GATHER_EXIT_STUCK) -
# a blocked loop can neither be cancelled nor timed out from inside. Counted as a finding only if it happens again when the case is repeated.
GATHER_COND = "second-run-in-the-same-event-loop"
GATHER_POINTS = ["setup_post", "main", "teardown_pre"]
GATHER_GAPS = [0.05, 0.1, 0.2]
GATHER_STUCK_AFTER = 10.0
GATHER_EXIT_STUCK = 95
GATHER_GO_TIMEOUT = 20.0
SECOND_CODES = [0, 4, 0, 6]
OTHER_KINDS = ("outer", "prior", "second")  # records in logged.jsonl that are not the judged command's own
TEXT_SURROGATE = [c for c, t in TEXT_CLASSES.items() if any(0xD800 <= ord(ch) <= 0xDFFF for ch in t)]
LOGGER_NAME = "gallia.verif.c15"
# set by the fault injector (main thread), read by the virtual ECU (its own thread): "answer" | "silent" | "reset"
ECU_CTL: dict[str, str] = {"mode": "answer"}

HOOK_SH = r"""#!/bin/sh
# C15 hook: dump the environment, probe the lock file, then behave as told by $1; $2 says as which hook it was configured (the files
# it leaves are named after that, not after what it is told in GALLIA_HOOK)
V="${2:-$GALLIA_HOOK}"
env -0 > "$C15_OUT/hook-$V.env"
if [ -n "$C15_LOCK" ]; then
  if flock -n "$C15_LOCK" true 2>/dev/null; then echo free; else echo held; fi > "$C15_OUT/hook-$V.lock"
fi
case "$1" in
  ok) exit 0 ;;
  fail) exit 3 ;;
  failnoisy) echo "c15 hook says something on stdout"; echo "c15 hook says something on stderr" >&2; exit 1 ;;
  noisy) yes "c15 noisy hook stdout line 0123456789 0123456789" | head -n 2500
         yes "c15 noisy hook stderr line 0123456789 0123456789" | head -n 2500 >&2
         exit 0 ;;
  slow) sleep "${C15_SLOW:-0.3}"; echo done > "$C15_OUT/hook-$V.done"; exit 0 ;;
esac
exit 0
"""


# =================================================================================================
# case generation
# =================================================================================================
def base_triples() -> list[tuple[str, str, str]]:
    out: list[tuple[str, str, str]] = []
    for k in KINDS:
        out.append((k, "return", "none"))
        for e in EXITS[1:]:
            for p in POINTS:
                out.append((k, e, p))
    return out


def _targets() -> list[tuple[str, ...]]:
    """factor tuples whose value combinations the quick covering array must contain"""
    t: list[tuple[str, ...]] = []
    for i, a in enumerate(FACTORS):
        for b in FACTORS[i + 1:]:
            t.append((a, b))
    t += [("kind", "exit", "art"), ("kind", "exit", "db"), ("kind", "point", "db"), ("kind", "exit", "lock"),
          ("kind", "pre", "art"), ("kind", "post", "art"), ("exit", "art", "db")]
    return t


NONFAILING = ["none", "ok", "noisy"]
FAILING = ["fail", "failnoisy"]


def gen_quick(seed: int) -> list[dict[str, Any]]:
    """Phase A: every (kind, exit, point) once with hooks that do not exit non-zero, the remaining factors chosen
    greedily for pair (and selected triple) coverage. Phase B: rows with at least one failing hook until every
    remaining pair/triple is covered. (Failing hooks get their own rows because a defect in the hook path would
    otherwise hide what the same run says about every other mechanism.)"""
    import itertools
    import random

    rng = random.Random(f"C15/quick/{seed}")
    targets = _targets()
    covered: set[tuple[Any, ...]] = set()
    base = base_triples()
    rng.shuffle(base)
    res = list(itertools.product([False, True], repeat=3))
    rows: list[dict[str, Any]] = []

    def combos(row: dict[str, Any]) -> list[tuple[Any, ...]]:
        return [(t, tuple(row[f] for f in t)) for t in targets]

    def pick(triples: list[tuple[str, str, str]], hookpairs: list[tuple[str, str]]) -> tuple[dict[str, Any], int]:
        best: list[dict[str, Any]] = []
        best_gain = -1
        for k, e, p in triples:
            for pre, post in hookpairs:
                for art, db, lock in res:
                    row = {"kind": k, "exit": e, "point": p, "pre": pre, "post": post, "art": art, "db": db, "lock": lock}
                    gain = sum(1 for c in combos(row) if c not in covered)
                    if gain > best_gain:
                        best, best_gain = [row], gain
                    elif gain == best_gain:
                        best.append(row)
        return rng.choice(best), best_gain

    quiet = list(itertools.product(NONFAILING, NONFAILING))
    for tr in base:
        row, _ = pick([tr], quiet)
        covered.update(combos(row))
        rows.append(row)
    loud = [(a, b) for a in HOOKS for b in HOOKS if a in FAILING or b in FAILING]
    for _ in range(400):
        row, gain = pick(rng.sample(base, 12), loud)
        if gain == 0:
            row, gain = pick(base, loud)  # look everywhere before giving up
            if gain == 0:
                break
        covered.update(combos(row))
        rows.append(row)
    for i, r in enumerate(rows):
        r["id"] = i
    return rows


def uncovered_pairs(rows: list[dict[str, Any]]) -> list[tuple[Any, ...]]:
    """self-check of the covering array: feasible factor-value pairs that no row contains"""
    import itertools

    have = set()
    for r in rows:
        for a, b in itertools.combinations(FACTORS, 2):
            have.add((a, r[a], b, r[b]))
    missing = []
    for a, b in itertools.combinations(FACTORS, 2):
        for va in DOMAINS[a]:
            for vb in DOMAINS[b]:
                if {a, b} == {"exit", "point"} and ((va == "return") != (vb == "none")):
                    continue  # a fault-free run has no injection point and vice versa
                if (a, va, b, vb) not in have:
                    missing.append((a, va, b, vb))
    return missing


def gen_thorough(seed: int) -> list[dict[str, Any]]:
    """Per (kind, exit, point) x (artifacts, database, lock): three rows from a rotating diagonal of the non-failing
    3x3 hook square, one row with a failing pre-hook, one with a failing post-hook (5520 runs). VERIF_C15_FULL=1:
    the full product with all 25 hook pairs (27600 runs; needs VERIF_THOROUGH_BUDGET of about 2400)."""
    import itertools
    import random

    rng = random.Random(f"C15/thorough/{seed}")
    full = os.environ.get("VERIF_C15_FULL", "") == "1"
    rows: list[dict[str, Any]] = []
    for k, e, p in base_triples():
        for art, db, lock in itertools.product([False, True], repeat=3):
            if full:
                pairs = list(itertools.product(HOOKS, HOOKS))
            else:
                s = rng.randrange(3)
                pairs = [(NONFAILING[i], NONFAILING[(i + s) % 3]) for i in range(3)]
                pairs.append((rng.choice(FAILING), rng.choice(HOOKS)))
                pairs.append((rng.choice(NONFAILING), rng.choice(FAILING)))
            for pre, post in pairs:
                rows.append({"kind": k, "exit": e, "point": p, "pre": pre, "post": post, "art": art, "db": db, "lock": lock})
    rng.shuffle(rows)
    for i, r in enumerate(rows):
        r["id"] = i
    return rows


def gen_cases(tier: str, seed: int) -> list[dict[str, Any]]:
    return gen_quick(seed) if tier == "quick" else gen_thorough(seed)


def gen_contend(tier: str, seed: int, first_id: int) -> list[dict[str, Any]]:
    """Runs on a database that a second writer holds locked while the command finishes: quick 6 (every command kind
    twice, six different endings), thorough every kind x all 8 endings x 2. Database always on, hooks never failing."""
    import random

    rng = random.Random(f"C15/contend/{tier}/{seed}")
    if tier == "quick":
        ends = rng.sample(CONTEND_ENDS, 6)
        triples = [(KINDS[i % 3], e, p) for i, (e, p) in enumerate(ends)]
    else:
        triples = [(k, e, p) for k in KINDS for e, p in CONTEND_ENDS] * 2
    rows = []
    for i, (k, e, p) in enumerate(triples):
        rows.append({"kind": k, "exit": e, "point": p, "pre": rng.choice(["none", "ok"]), "post": rng.choice(["none", "ok", "noisy"]),
                     "art": rng.random() < 0.7, "db": True, "lock": rng.random() < 0.5, "contend": CONTEND_HOLDS[(i + seed) % len(CONTEND_HOLDS)],
                     "id": first_id + i})
    return rows


def gen_tdprops(tier: str, seed: int, first_id: int) -> list[dict[str, Any]]:
    """UDS scanner runs whose ECU answers during setup and main and fails only when UDSScanner.teardown reads the ECU
    properties: quick 6 (both fault flavours x three resource settings, artifacts dir and database each on in four),
    thorough both flavours x all 8 resource settings x retries {0, 1}. Hooks never failing."""
    import itertools
    import random

    rng = random.Random(f"C15/tdprops/{tier}/{seed}")
    if tier == "quick":
        res = [(True, True, True), (True, True, False), (True, False, True), (False, True, False), (True, True, False), (False, True, True)]
        res = res[seed % 6:] + res[:seed % 6]
        combos = [(TDPROPS_EXITS[i % 2], r, (i // 2 + seed) % 2) for i, r in enumerate(res)]
    else:
        combos = [(e, r, n) for e in TDPROPS_EXITS for r in itertools.product([False, True], repeat=3) for n in (0, 1)]
    rows = []
    for i, (e, (art, db, lock), retries) in enumerate(combos):
        rows.append({"kind": "uds", "exit": e, "point": TDPROPS_POINT, "pre": rng.choice(["none", "ok"]), "post": rng.choice(["none", "ok", "noisy"]),
                     "art": art, "db": db, "lock": lock, "uds_timeout": rng.choice([0.6, 0.8, 1.0]), "uds_retries": retries, "id": first_id + i})
    return rows


def _ends_from(point: str) -> list[tuple[str, str]]:
    """(exit kind, fault point) pairs whose fault comes at or after lifecycle point `point` (a fault-free run comes after all)"""
    first = POINTS.index(point)
    return [("return", "none")] + [(e, p) for e in EXITS[1:] for p in POINTS[first:]]


def gen_dbcycle(tier: str, seed: int, first_id: int) -> list[dict[str, Any]]:
    """Runs in which the command disconnects its DBHandler and connects it again at one lifecycle point (setup after
    super().setup(), main, teardown before super().teardown()) and then ends in any way at or after that point. Quick: command
    kind x cycle point (9 runs), endings rotating through the exit kinds; thorough: kind x cycle point x every later ending.
    Database always on, hooks never failing."""
    import random

    rng = random.Random(f"C15/dbcycle/{tier}/{seed}")
    combos: list[tuple[str, str, str, str]] = []
    if tier == "quick":
        exits = EXITS[:]
        rng.shuffle(exits)
        i = 0
        for k in KINDS:
            for cyc in DBCYCLE_POINTS:
                e = exits[i % len(exits)]
                i += 1
                p = "none" if e == "return" else rng.choice(POINTS[POINTS.index(cyc):])
                combos.append((k, cyc, e, p))
    else:
        combos = [(k, cyc, e, p) for k in KINDS for cyc in DBCYCLE_POINTS for e, p in _ends_from(cyc)]
    rows = []
    for i, (k, cyc, e, p) in enumerate(combos):
        rows.append({"kind": k, "exit": e, "point": p, "pre": rng.choice(["none", "ok"]), "post": rng.choice(["none", "ok", "noisy"]),
                     "art": rng.random() < 0.6, "db": True, "lock": rng.random() < 0.4,
                     "dbcycle": {"at": cyc, "n": 1 + (i + seed) % 2, "gap": rng.choice([0.0, 0.01, 0.05]), "other_writes": (i + seed) % 3 != 0},
                     "id": first_id + i})
    return rows


def gen_logtext(tier: str, seed: int, first_id: int) -> list[dict[str, Any]]:
    """Runs in which the command logs one record of a text class (TEXT_CLASSES) at one lifecycle point and then ends in any way at
    or after that point. Quick: every text class once (kind, point and ending rotate); thorough: class x kind x point.
    Artifacts dir always on, hooks never failing."""
    import random

    rng = random.Random(f"C15/logtext/{tier}/{seed}")
    classes = list(TEXT_CLASSES)
    combos: list[tuple[str, str, str]] = []
    if tier == "quick":
        for i, c in enumerate(classes):
            combos.append((c, KINDS[(i + seed) % 3], POINTS[(i * 2 + seed) % len(POINTS)]))
    else:
        combos = [(c, k, at) for c in classes for k in KINDS for at in POINTS]
    rows = []
    for i, (c, k, at) in enumerate(combos):
        e, p = rng.choice(_ends_from(at)) if rng.random() < 0.85 else ("return", "none")
        rows.append({"kind": k, "exit": e, "point": p, "pre": rng.choice(["none", "ok"]), "post": rng.choice(["none", "ok", "noisy"]),
                     "art": True, "db": rng.random() < 0.5, "lock": rng.random() < 0.3, "logtext": {"at": at, "class": c}, "id": first_id + i})
    return rows


def gen_cli(tier: str, seed: int, first_id: int) -> list[dict[str, Any]]:
    """`gallia discover doip` through the real CLI main. Quick: the four target forms once each (database on in all, artifacts
    dir on in three, lock file on in two, rotating with the seed); thorough: target form x all 8 resource settings."""
    import itertools

    forms = list(CLI_TARGETS)
    if tier == "quick":
        res = [(True, True, True), (False, True, False), (True, True, False), (True, True, True)]
        res = res[seed % 4:] + res[:seed % 4]
        combos = list(zip(forms, res))
    else:
        combos = [(f, r) for f in forms for r in itertools.product([False, True], repeat=3)]
    return [{"kind": CLI_KIND, "exit": "cli", "point": "none", "pre": "none", "post": "none", "art": art, "db": db, "lock": lock,
             "cli": {"target": f}, "id": first_id + i} for i, (f, (art, db, lock)) in enumerate(combos)]


def gen_forkhelper(tier: str, seed: int, first_id: int) -> list[dict[str, Any]]:
    """Runs in which the command forks a helper process at one lifecycle point (setup after super().setup(), main, teardown before
    super().teardown()) that outlives entry_point(), and then ends in any way at or after that point (a real SIGINT excepted: there
    entry_point() raises and the lock is only judged after the process ended). Quick: command kind x fork flavour (6 runs), fork point
    and ending rotating; thorough: kind x flavour x fork point x 8 later endings. Lock file always on, hooks never failing."""
    import random

    rng = random.Random(f"C15/forkhelper/{tier}/{seed}")
    combos: list[tuple[str, str, str, str, str]] = []
    if tier == "quick":
        i = seed
        for k in KINDS:
            for how in FORKHELPER_HOW:
                at = FORKHELPER_POINTS[i % 3]
                ends = [x for x in _ends_from(at) if x[0] != "sigint"]
                e, p = ends[(i * 7 + seed) % len(ends)]
                combos.append((k, how, at, e, p))
                i += 1
    else:
        for k in KINDS:
            for how in FORKHELPER_HOW:
                for at in FORKHELPER_POINTS:
                    ends = [x for x in _ends_from(at) if x[0] != "sigint"]
                    for e, p in [("return", "none")] + rng.sample(ends[1:], 7):
                        combos.append((k, how, at, e, p))
    rows = []
    for i, (k, how, at, e, p) in enumerate(combos):
        rows.append({"kind": k, "exit": e, "point": p, "pre": rng.choice(["none", "ok"]), "post": rng.choice(["none", "ok", "noisy"]),
                     "art": rng.random() < 0.5, "db": rng.random() < 0.5, "lock": True, "forkhelper": {"at": at, "how": how}, "id": first_id + i})
    return rows


def gen_latesig(tier: str, seed: int, first_id: int) -> list[dict[str, Any]]:
    """Runs that end in one of 8 ways in main or teardown and get a real SIGINT while entry_point() closes the database: the command
    queued a burst of scan results at its last lifecycle point before the ending. Quick: every command kind twice (6 runs, endings
    rotating with the seed); thorough: kind x 8 endings x 2. Database always on, hooks never failing."""
    import random

    rng = random.Random(f"C15/latesig/{tier}/{seed}")
    if tier == "quick":
        triples = [(KINDS[i % 3], *LATESIG_ENDS[(i * 3 + seed) % len(LATESIG_ENDS)]) for i in range(6)]
    else:
        triples = [(k, e, p) for k in KINDS for e, p in LATESIG_ENDS] * 2
    rows = []
    for i, (k, e, p) in enumerate(triples):
        rows.append({"kind": k, "exit": e, "point": p, "pre": rng.choice(["none", "ok"]), "post": rng.choice(["none", "ok", "noisy"]),
                     "art": i % 4 != 3, "db": True, "lock": rng.random() < 0.5,
                     "latesig": {"at": "teardown_pre" if p.startswith("teardown") else "main", "rows": LATESIG_ROWS[(i + seed) % len(LATESIG_ROWS)],
                                 "delay": [0.0, 0.005, 0.02][(i // 2 + seed) % 3], "window": "db-sync"},
                     "id": first_id + i})
    if os.environ.get("VERIF_C15_LATESIG_RUN_ENTRY", "1") == "1":
        # the Ctrl-C arrives earlier, while the run_meta row is being completed (another writer holds the database's write lock
        # from right before the ending until the child has noted that the Ctrl-C ended the command's complete_run_meta() call). This window was
        # a genuine defect (repaired in /repo f4c4351). Every command kind twice (thorough: four times), six endings rotating with the seed.
        for i in range(6 if tier == "quick" else 12):
            e, p = RUNENTRY_ENDS[(i + seed) % len(RUNENTRY_ENDS)]
            rows.append({"kind": KINDS[i % 3], "exit": e, "point": p, "pre": "none", "post": ["ok", "none", "noisy"][(i + seed) % 3], "art": i % 3 != 2, "db": True, "lock": i % 2 == 0,
                         "contend": CONTEND_HOLDS[0],
                         "latesig": {"at": RUNENTRY_HOLD, "rows": 5 if i in (1, 5) else 0, "delay": [0.3, 0.15][i % 2], "window": RUNENTRY_WINDOW},
                         "id": first_id + len(rows)})
    return rows


RERUN_ENDS = [("return", "none"), ("exit3", "main"), ("connerr", "setup_post"), ("runtime", "teardown_pre"), ("kbdint", "main"), ("sigint", "main"),
              ("udserr", "teardown_post"), ("exit1", "setup_pre"), ("exitstr", "main")]


def gen_rerun(tier: str, seed: int, first_id: int) -> list[dict[str, Any]]:
    """Runs inside a run: the shipped Rerunner (`gallia script rerun --file META.json`) re-creates the harness command and awaits its
    entry_point() inside its own run. Quick: 9 runs (9 endings of all classes, command kind rotating, the 8 resource settings of the outer
    run rotating); thorough: command kind x every (exit kind, lifecycle point). The inner run has an artifacts dir in 4 of 5 runs; its hooks never fail."""
    import random

    rng = random.Random(f"C15/rerun/{tier}/{seed}")
    if tier == "quick":
        triples = [(KINDS[(i + seed) % 3], e, p) for i, (e, p) in enumerate(RERUN_ENDS)]
    else:
        triples = base_triples()
    rows = []
    for i, (k, e, p) in enumerate(triples):
        oart, odb, olock = RERUN_OUTER_RES[(i + seed) % len(RERUN_OUTER_RES)]
        rows.append({"kind": k, "exit": e, "point": p, "pre": rng.choice(["none", "ok"]), "post": rng.choice(["none", "ok", "noisy"]),
                     "art": i % 5 != 4, "db": odb == "same" or rng.random() < 0.5, "lock": rng.random() < 0.5,
                     "rerun": {"art": oart, "db": odb, "lock": olock}, "id": first_id + i})
    return rows


def gen_slowhook(tier: str, seed: int, first_id: int) -> list[dict[str, Any]]:
    """Runs with a pre- and/or post-hook that does not fail but takes long. Quick: command kind x {pre, post, both} under the scaled subprocess
    clock (9 runs, endings rotating) plus one run whose hook really sleeps 20 s (pre- or post-hook by the seed); thorough: kind x {pre, post, both}
    x 8 endings scaled, plus a real 20 s pre-hook and a real 35 s post-hook. No real SIGINT (whether the post-hook runs then is not decided)."""
    import random

    rng = random.Random(f"C15/slowhook/{tier}/{seed}")
    ends = [x for x in RERUN_ENDS if x[0] != "sigint"]
    where = [("slow", "none"), ("none", "slow"), ("slow", "slow")]
    combos: list[tuple[str, tuple[str, str], tuple[str, str], dict[str, Any]]] = []
    i = seed
    for k in KINDS:
        for w in where:
            for e in ([ends[i % len(ends)]] if tier == "quick" else ends):
                combos.append((k, w, e, {"flavour": "scaled", "sleep": SLOW_SCALED_SLEEP, "scale": SLOW_CLOCK_SCALE}))
                i += 1
    for j, secs in enumerate(SLOW_REAL_SLEEP[tier]):
        w = where[(j + seed) % 2]
        combos.append((KINDS[(j + seed) % 3], w, ends[(j * 3 + seed + 1) % len(ends)], {"flavour": "realtime", "sleep": secs, "scale": 1.0}))
    rows = []
    for i, (k, (pre, post), (e, p), sh) in enumerate(combos):
        rows.append({"kind": k, "exit": e, "point": p, "pre": pre, "post": post, "art": rng.random() < 0.7, "db": rng.random() < 0.5, "lock": rng.random() < 0.5,
                     "slowhook": sh, "id": first_id + i})
    return rows


def gen_gather(tier: str, seed: int, first_id: int) -> list[dict[str, Any]]:
    """Two runs side by side in one event loop, serialised by one lock file: the judged harness command and a second small command as two tasks.
    Role "holder": the judged command sits at a lifecycle point (setup after super().setup(), main, teardown before super().teardown()), holding the
    lock, when the second command's entry_point() is started, and ends in any way at or after that point; role "waiter": the second command sits in
    its main() when the judged command's entry_point() is started. Quick: command kind x role (6 runs), hold point, ending, gap and the second
    command's exit code rotating; thorough: kind x (holder x hold point x 4 later endings + waiter x 8 endings). No real SIGINT (it would reach
    both runs). Lock file always on, hooks never failing."""
    import random

    rng = random.Random(f"C15/gather/{tier}/{seed}")
    combos: list[tuple[str, str, str, str, str]] = []
    i = seed
    for k in KINDS:
        for role in ("holder", "waiter"):
            for at in (GATHER_POINTS if tier != "quick" and role == "holder" else [GATHER_POINTS[i % 3]]):
                ends = [x for x in _ends_from(at if role == "holder" else POINTS[0]) if x[0] != "sigint"]
                if tier == "quick":
                    picked = [ends[(i * 7 + seed) % len(ends)]]
                else:
                    picked = [("return", "none")] + rng.sample(ends[1:], 3 if role == "holder" else 7)
                for e, p in picked:
                    combos.append((k, role, at, e, p))
                i += 1
    rows = []
    for i, (k, role, at, e, p) in enumerate(combos):
        rows.append({"kind": k, "exit": e, "point": p, "pre": rng.choice(["none", "ok"]), "post": rng.choice(["none", "ok", "noisy"]),
                     "art": (i + seed) % 3 != 2, "db": rng.random() < 0.4, "lock": True,
                     "gather": {"role": role, "at": at, "gap": GATHER_GAPS[(i + seed) % len(GATHER_GAPS)], "art": (i + seed) % 4 != 3,
                                "code": SECOND_CODES[(i + seed) % len(SECOND_CODES)]},
                     "id": first_id + i})
    return rows


def assign_prior(tier: str, seed: int, cases: list[dict[str, Any]]) -> None:
    """usage dimension folded into the runs of the other families: every second run with an artifacts dir (shuffled in blocks of two, by id; the
    families that drive the child from the parent at exact moments, the nested and the side-by-side runs excepted) happens in a process that has
    run another gallia command to its end before (spec["prior"]: artifacts dir of that earlier run on in 3 of 4, its exit code rotating)."""
    import random

    rng = random.Random(f"C15/prior/{tier}/{seed}")
    turn: list[bool] = []
    n = 0
    for c in sorted(cases, key=lambda c: c["id"]):
        if not c["art"] or any(c.get(k) for k in ("cli", "rerun", "latesig", "contend", "forkhelper", "gather")):
            continue
        if not turn:
            turn = [True, False]
            rng.shuffle(turn)
        if turn.pop():
            c["prior"] = {"art": (n + seed) % 4 != 3, "code": PRIOR_CODES[(n + seed) % len(PRIOR_CODES)]}
            n += 1


def assign_dbstate(tier: str, seed: int, cases: list[dict[str, Any]]) -> None:
    """every run with a database gets the state its database path is in before the run: each block of three consecutive such runs
    (by id) gets the three states in a freshly shuffled order"""
    import random

    rng = random.Random(f"C15/dbstate/{tier}/{seed}")
    block: list[str] = []
    for c in sorted(cases, key=lambda c: c["id"]):
        if c["db"]:
            if not block:
                block = DBSTATES[:]
                rng.shuffle(block)
            c["dbstate"] = block.pop()


def assign_usage(tier: str, seed: int, cases: list[dict[str, Any]]) -> None:
    """Two usage dimensions folded into the runs of every family (the shipped command through the CLI excepted), each on every second run it applies
    to (shuffled in blocks of two, by id): runs with a hook start with hook variables of another gallia run in their process environment
    (spec["staleenv"]); runs with an artifacts dir or a database change one option of their own config object at a lifecycle point at or before
    their ending (spec["cfgmut"]; field and point rotate)."""
    import random

    rng = random.Random(f"C15/usage/{tier}/{seed}")
    stale_vars = STALE_VARS_DEFAULT if os.environ.get("VERIF_C15_STALE_HOOK_ENV", "") == "two" else list(STALE_ENV)
    turn: dict[str, list[bool]] = {"stale": [], "mut": []}

    def mine(what: str) -> bool:
        if not turn[what]:
            turn[what] = [True, False]
            rng.shuffle(turn[what])
        return turn[what].pop()

    n = 0
    for c in sorted(cases, key=lambda c: c["id"]):
        if c.get("cli"):
            continue
        if (c["pre"] != "none" or c["post"] != "none") and mine("stale"):
            c["staleenv"] = {"vars": stale_vars}
        if (c["art"] or c["db"]) and mine("mut"):
            upto = POINTS[:POINTS.index(c["point"]) + 1] if c["point"] in POINTS else POINTS
            fields = [f for f in CFGMUT_FIELDS if f != "power_cycle_sleep" or c["kind"] != "script"]
            c["cfgmut"] = {"at": upto[(n + seed) % len(upto)], "field": fields[(n // 2 + seed) % len(fields)]}
            n += 1


def shards(tier: str, seed: int) -> list[dict[str, Any]]:
    n = 16
    cases = gen_cases(tier, seed)
    missing = uncovered_pairs(cases)
    if missing:
        raise RuntimeError(f"C15 covering array misses {len(missing)} pairs, e.g. {missing[:3]}")
    out = [{"tier": tier, "seed": seed, "cases": cases[i::n]} for i in range(n)]
    # the contended runs cost real seconds: spread them over the shards and start them first, next to the other children
    contend = gen_contend(tier, seed, len(cases))
    for j, c in enumerate(contend):
        out[(j * 5 + seed) % n]["cases"].insert(0, c)
    # so do the runs whose ECU falls silent in teardown (one request timeout each, times the retries)
    tdp = gen_tdprops(tier, seed, len(cases) + len(contend))
    for j, c in enumerate(tdp):
        out[(j * 5 + seed + 2) % n]["cases"].insert(0, c)
    # the command reconnects its database handler during the run / logs text of every class
    dbc = gen_dbcycle(tier, seed, len(cases) + len(contend) + len(tdp))
    for j, c in enumerate(dbc):
        out[(j * 7 + seed + 4) % n]["cases"].append(c)
    lgt = gen_logtext(tier, seed, len(cases) + len(contend) + len(tdp) + len(dbc))
    for j, c in enumerate(lgt):
        out[(j * 3 + seed + 1) % n]["cases"].append(c)
    # the shipped DoIP discoverer through the real CLI takes real seconds (unanswered UDP requests): start these first
    cli = gen_cli(tier, seed, len(cases) + len(contend) + len(tdp) + len(dbc) + len(lgt))
    for j, c in enumerate(cli):
        out[(j * 4 + seed + 3) % n]["cases"].insert(0, c)
    nxt = len(cases) + len(contend) + len(tdp) + len(dbc) + len(lgt) + len(cli)
    # the command leaves a forked helper process behind / gets its Ctrl-C while the database is being closed
    fkh = gen_forkhelper(tier, seed, nxt)
    for j, c in enumerate(fkh):
        out[(j * 5 + seed + 6) % n]["cases"].append(c)
    lsg = gen_latesig(tier, seed, nxt + len(fkh))
    for j, c in enumerate(lsg):
        out[(j * 3 + seed + 8) % n]["cases"].insert(0, c)
    nxt += len(fkh) + len(lsg)
    # a run inside a run (the shipped `script rerun`)
    rrn = gen_rerun(tier, seed, nxt)
    for j, c in enumerate(rrn):
        out[(j * 5 + seed + 9) % n]["cases"].append(c)
    # hooks that take long; the ones that really sleep for tens of seconds start first
    slw = gen_slowhook(tier, seed, nxt + len(rrn))
    for j, c in enumerate(slw):
        if c["slowhook"]["flavour"] == "realtime":
            out[(j * 7 + seed + 5) % n]["cases"].insert(0, c)
        else:
            out[(j * 3 + seed + 11) % n]["cases"].append(c)
    # two runs side by side in one event loop, serialised by one lock file
    for j, c in enumerate(gen_gather(tier, seed, nxt + len(rrn) + len(slw))):
        out[(j * 5 + seed + 13) % n]["cases"].append(c)
    assign_dbstate(tier, seed, [c for s in out for c in s["cases"]])
    assign_usage(tier, seed, [c for s in out for c in s["cases"]])
    assign_prior(tier, seed, [c for s in out for c in s["cases"]])
    return out


def required_reach(tier: str) -> dict[str, int]:
    need = {f"exit.{e}": 3 for e in EXITS}
    need.update({f"point.{p}": 3 for p in POINTS})
    need.update({f"kind.{k}": 10 for k in KINDS})
    need.update({f"hook.pre.{h}": 3 for h in HOOKS})
    need.update({f"hook.post.{h}": 3 for h in HOOKS})
    need.update({
        "art.on": 20, "art.off": 20, "db.on": 20, "db.off": 20, "lock.on": 20, "lock.off": 20,
        "sigint.delivered": 5, "meta.parsed": 20, "run_meta.rows_read": 20, "log.decoded": 20, "log.marker_found": 10,
        "hook.env_checked": 20, "lock.probed_during_run": 10, "lock.probed_after_exit": 20, "fault.point_reached": 60,
        "config.recreated": 20, "ecu.requests_answered": 5,
    })
    # second writer on the shared database: runs whose end really overlapped the foreign write lock, and (evidence that the
    # lock is the one the command needs) runs that could only finish after the lock was released
    need.update({"contend.judged": 2 if tier == "quick" else 12, "contend.finished_only_after_release": 2 if tier == "quick" else 12})
    # the log file as the command leaves it (copied by the child when entry_point() ended), in particular after a real Ctrl-C
    need.update({"log.checked_at_entry_point_end": 20, "log.checked_at_entry_point_end.real-sigint": 3 if tier == "quick" else 20,
                 "log.handlers_checked_at_entry_point_end": 40})
    # ECU failing only for the properties read in UDSScanner.teardown: runs in which the ECU really saw (and dropped / hung up on)
    # a ReadDataByIdentifier request after the switch, per flavour, and such runs with a META.json / run_meta row to compare
    k = 2 if tier == "quick" else 10
    need.update({"tdprops.exercised.ecusilent": k, "tdprops.exercised.ecureset": k, "tdprops.meta_checked": k, "tdprops.run_meta_checked": k,
                 "ecu.properties_requests_answered": 5})
    # the command disconnected and re-connected its database handler (events db_disconnected / db_reconnected seen, in that order,
    # before the run ended) and the run_meta row of such a run was read; per command kind
    k = 6 if tier == "quick" else 150
    need.update({"dbcycle.exercised": k, "dbcycle.run_meta_checked": k, "dbcycle.other_writer_wrote_in_between": 2 if tier == "quick" else 50})
    need.update({f"dbcycle.kind.{kd}": 1 if tier == "quick" else 30 for kd in KINDS})
    # every record the harness logged through gallia's logger before the run ended was looked for in the log file (all runs with an
    # artifacts dir), and runs whose command logged a text with / without lone surrogates before further records
    need.update({"log.sequence_checked": 20, "log.sequence_checked_at_entry_point_end": 20,
                 "logtext.checked.surrogates": 3 if tier == "quick" else 40, "logtext.checked.scalar-text": 4 if tier == "quick" else 60,
                 "logtext.records_logged_after_text": 7 if tier == "quick" else 100})
    need.update({f"logtext.class.{c}": 1 for c in TEXT_CLASSES})
    # the shipped `discover doip` command through gallia's CLI main: runs that ended by themselves with a database / an artifacts dir
    # to compare, and runs in which the discoverer really wrote its discovery_run row (it used the database during the run)
    k = 3 if tier == "quick" else 12
    need.update({"cli.discover-doip.run_meta_checked": k, "cli.discover-doip.wrote_discovery_run": 2 if tier == "quick" else 9,
                 "cli.discover-doip.meta_checked": 2 if tier == "quick" else 12, "cli.discover-doip.log_checked_at_entry_point_end": 2 if tier == "quick" else 12})
    # a forked helper process of the command was alive when the lock file was probed right after entry_point() had returned, per fork flavour
    k = 4 if tier == "quick" else 100
    need.update({"forkhelper.exercised": k, "forkhelper.lock_probed_after_return": k})
    need.update({f"forkhelper.how.{h}": 2 if tier == "quick" else 45 for h in FORKHELPER_HOW})
    # a real SIGINT went out after run() was over and the run_meta row had its end time, while rows the command had queued were still
    # unwritten (entry_point() was closing the database), and the artefacts of such runs were compared
    k = 3 if tier == "quick" else 30
    # (run-entry-completion window: counted only if the foreign write lock was held from before the ending until the child had noted that the
    # command's complete_run_meta() call, made after run() was over, was ended by the Ctrl-C's CancelledError; and the run_meta row of such runs was read)
    need.update({"latesig.run-entry-completion-window": 4 if tier == "quick" else 8, "latesig.run-entry-completion-window.run_meta_checked": 4 if tier == "quick" else 8,
                 "latesig.run-entry-completion-window.no-other-write-pending": 3 if tier == "quick" else 6,
                 "latesig.exercised": k, "latesig.run_meta_checked": k, "latesig.meta_checked": 2 if tier == "quick" else 20,
                 f"log.checked_at_entry_point_end.{LATESIG_COND}": 2 if tier == "quick" else 20})
    # a run inside a run (gallia's Rerunner awaiting the re-created command's entry_point()): the inner command really ran inside the outer
    # run, both had their log files open at the same time, and the outer run's own META.json / log / run_meta row / lock file were judged
    q = tier == "quick"
    need.update({"rerun.exercised": 6 if q else 100, "rerun.both_logs_open": 3 if q else 40, "rerun.outer.meta_checked": 3 if q else 50,
                 "rerun.outer.log_sequence_checked": 3 if q else 50, "rerun.outer.log_sequence_checked_at_entry_point_end": 3 if q else 50,
                 "rerun.outer.run_meta_checked": 3 if q else 50, "rerun.shared_database": 2 if q else 25, "rerun.outer.lock_probed": 2 if q else 25})
    need.update({f"rerun.kind.{kd}": 1 if q else 25 for kd in KINDS})
    # the database path was absent / an empty file / a database an earlier run had used, and the run_meta row of such a run was read
    need.update({f"dbstate.{st}.run_meta_checked": 10 if q else 300 for st in DBSTATES})
    # hooks that take long were run to their end (marker written after the sleep), under the scaled subprocess clock and in real time
    need.update({"slowhook.completed.pre": 4 if q else 40, "slowhook.completed.post": 4 if q else 40, "slowhook.clock_scaled": 8 if q else 80,
                 "slowhook.realtime.completed": 1 if q else 2})
    # the process was started with GALLIA_EXIT_CODE / GALLIA_META of another run in its environment and the environment its own post-hook saw was compared
    need.update({"staleenv.post_hook_env_checked": 15 if q else 500, "staleenv.post_hook_env_checked.with_meta_json": 6 if q else 250})
    # the command changed an option of its own config object during the run (noted after the assignment) and the config in META.json / in the
    # run_meta row of such a run was re-created and compared with the config the run was started with; per command kind
    need.update({"cfgmut.exercised": 40 if q else 1500, "cfgmut.meta_config_checked": 20 if q else 800, "cfgmut.run_meta_config_checked": 20 if q else 800})
    need.update({f"cfgmut.kind.{kd}": 8 if q else 300 for kd in KINDS})
    need.update({f"cfgmut.field.{f}": 5 if q else 200 for f in CFGMUT_FIELDS})
    # META.json's start/end time was compared with the window of that run (command object created .. entry_point() ended, noted in the child); the process
    # had run another command to its end before the judged command was created, that earlier run was judged on its own artefacts and the later
    # run's start time was compared with the end of the earlier one
    need.update({"meta.times_checked_against_run_window": 60 if q else 1500, "rerun.outer.times_checked_against_run_window": 3 if q else 50,
                 "prior.exercised": 30 if q else 800, "prior.meta_checked": 20 if q else 500, "prior.later_run.start_time_checked": 30 if q else 800})
    # two commands side by side in one event loop with one lock file: the other entry_point() was started while the holder sat suspended with the lock
    # (probed: held), the loop went on turning, the holder went to its ending, the waiter's lifecycle began after the holder's entry_point() had ended;
    # per role of the judged command, and the second command was judged on its own artefacts
    need.update({"gather.exercised": 4 if q else 40, "gather.role.holder": 2 if q else 24, "gather.role.waiter": 2 if q else 16,
                 "gather.waiter_began_after_holder_ended": 4 if q else 40, "gather.second.exercised": 4 if q else 40, "gather.second.meta_checked": 3 if q else 25})
    return need


# =================================================================================================
# shared between parent and child: configuration of a run
# =================================================================================================
def run_paths(rundir: Path) -> dict[str, Path]:
    return {
        "out": rundir / "out", "art": rundir / "art", "db": rundir / "db" / "gallia.sqlite", "lock": rundir / "run.lock",
        "sock": rundir / "ecu.sock", "hook": rundir / "hook.sh", "spec": rundir / "spec.json",
    }


def config_kwargs(spec: dict[str, Any], rundir: Path) -> dict[str, Any]:
    p = run_paths(rundir)
    kw: dict[str, Any] = {"volatile_info": False}
    if spec["pre"] != "none":
        kw["pre_hook"] = f"sh {p['hook']} {spec['pre']} pre"
    if spec["post"] != "none":
        kw["post_hook"] = f"sh {p['hook']} {spec['post']} post"
    if spec["art"]:
        kw["artifacts_base"] = p["art"]
    if spec["db"]:
        kw["db"] = p["db"]
    if spec["lock"]:
        kw["lock_file"] = p["lock"]
    if spec["kind"] in ("scanner", "uds"):
        kw["target"] = f"unix-lines://{p['sock']}"
        kw["dumpcap"] = False
    if spec["kind"] == "uds":
        kw["tester_present_interval"] = 0.2
        if spec.get("uds_timeout") is not None:
            kw["timeout"] = spec["uds_timeout"]
            kw["max_retries"] = spec.get("uds_retries", 0)
    return kw


_DEFINED = False


def define_commands() -> None:
    """Create the harness command classes as attributes of *this* module, so that run_meta.command
    ('vf.checks.c15.C15Script', ...) can be resolved the way gallia's Rerunner does it."""
    global _DEFINED, C15Script, C15Scanner, C15UDSScanner, C15ScriptConfig, C15ScannerConfig, C15UDSScannerConfig, C15ECU, C15Rerunner
    global C15Second, C15SecondConfig
    if _DEFINED:
        return
    import gallia.command  # noqa: F401  (before gallia.plugins.plugin: circular import otherwise)
    from gallia.command.base import AsyncScript, AsyncScriptConfig, Scanner, ScannerConfig
    from gallia.command.uds import UDSScanner, UDSScannerConfig
    from gallia.services.uds.ecu import ECU, ECUProperties

    class C15ECU(ECU):  # type: ignore[no-redef]
        """An OEM-style client: reading the properties talks to the ECU (the generic ECU.properties() sends nothing)."""

        async def properties(self, fresh: bool = False, config: Any = None) -> Any:
            for did in PROPS_DIDS:
                await self.read_data_by_identifier(did, config=config)
            return ECUProperties()

    class C15ScriptConfig(AsyncScriptConfig):  # type: ignore[no-redef]
        c15_note: str = "c15"
        c15_end: int = 0xFF

    class C15ScannerConfig(ScannerConfig):  # type: ignore[no-redef]
        c15_note: str = "c15"
        c15_end: int = 0xFF

    class C15UDSScannerConfig(UDSScannerConfig):  # type: ignore[no-redef]
        c15_note: str = "c15"
        c15_end: int = 0xFF

    class _Mixin:
        injector: Any = None

        def __init__(self, config: Any) -> None:
            self.c15_created = iso_now()  # the command object does not exist before this moment
            super().__init__(config)  # type: ignore[call-arg]

        async def setup(self) -> None:
            await self.injector.at("setup_pre", self)
            await super().setup()  # type: ignore[misc]
            self.injector.event("setup_super_done")
            await self.injector.at("setup_post", self)

        async def main(self) -> None:
            await self.injector.at("main", self)
            self.injector.event("main_done")

        async def teardown(self) -> None:
            await self.injector.at("teardown_pre", self)
            self.injector.event("teardown_super_enter")
            await super().teardown()  # type: ignore[misc]
            self.injector.event("teardown_super_done")
            await self.injector.at("teardown_post", self)

        async def run(self) -> int:
            if not self.injector.spec.get("latesig"):
                return await super().run()  # type: ignore[misc,no-any-return]
            self.injector.watch_db_close(self)
            try:
                return await super().run()  # type: ignore[misc,no-any-return]
            finally:
                # setup/main/teardown are over, however they ended: what follows is entry_point()'s own bookkeeping
                if self.injector.spec["latesig"].get("window") == RUNENTRY_WINDOW:
                    await self.injector.end_of_run_hold(self)
                self.injector.run_ended()

        async def entry_point(self) -> int:
            inj = self.injector
            if inj is None or not inj.spec.get("rerun"):
                return await super().entry_point()  # type: ignore[misc,no-any-return]
            # the command was re-created by the Rerunner and runs inside the Rerunner's run: what child_main() observes around
            # asyncio.run(entry_point()) for a top-level run is observed here, around the real entry_point() of the inner run
            inj.inner_begins(self)
            try:
                rc = await super().entry_point()  # type: ignore[misc]
                (inj.out / "returned").write_text(json.dumps(rc))
                return rc  # type: ignore[no-any-return]
            finally:
                inj.inner_ended(self)

    from gallia.commands.script.rerun import Rerunner

    class C15Rerunner(Rerunner):  # type: ignore[no-redef]
        """The shipped Rerunner; setup() and teardown() (empty in AsyncScript) log one record each, so that the outer run has records of
        its own from before the inner command exists and from after it has ended."""

        SHORT_HELP = "C15 harness: gallia's Rerunner"
        injector: Any = None

        def __init__(self, config: Any) -> None:
            self.c15_created = iso_now()
            super().__init__(config)

        async def setup(self) -> None:
            await super().setup()
            self.injector.outer_say("outer run: setup, the command to re-run has not been created yet")

        async def teardown(self) -> None:
            self.injector.outer_say("outer run: teardown, the re-created command has ended")
            await super().teardown()

    C15Rerunner.__module__ = "vf.checks.c15"
    C15Rerunner.__qualname__ = "C15Rerunner"

    class C15Script(_Mixin, AsyncScript):  # type: ignore[no-redef]
        CONFIG_TYPE = C15ScriptConfig
        SHORT_HELP = "C15 harness script"

    class C15Scanner(_Mixin, Scanner):  # type: ignore[no-redef]
        CONFIG_TYPE = C15ScannerConfig
        SHORT_HELP = "C15 harness scanner"

    class C15UDSScanner(_Mixin, UDSScanner):  # type: ignore[no-redef]
        CONFIG_TYPE = C15UDSScannerConfig
        SHORT_HELP = "C15 harness UDS scanner"

    class C15SecondConfig(AsyncScriptConfig):  # type: ignore[no-redef]
        c15_code: int = 0
        c15_role: str = "prior"

    class C15Second(AsyncScript):  # type: ignore[no-redef]
        """The other command of a process that runs more than one: an earlier run ("prior") or the run beside the judged one ("second")."""

        CONFIG_TYPE = C15SecondConfig
        SHORT_HELP = "C15 harness: another command of the same process"
        injector: Any = None

        def __init__(self, config: Any) -> None:
            self.c15_created = iso_now()
            super().__init__(config)

        async def main(self) -> None:
            await self.injector.other_main(self)

    for c in (C15ScriptConfig, C15ScannerConfig, C15UDSScannerConfig, C15Script, C15Scanner, C15UDSScanner, C15SecondConfig, C15Second):
        c.__module__ = "vf.checks.c15"
        c.__qualname__ = c.__name__
    _DEFINED = True


def build_config(spec: dict[str, Any], rundir: Path) -> Any:
    define_commands()
    cls = globals()[CLASS_NAMES[spec["kind"]]]
    return cls.CONFIG_TYPE(**config_kwargs(spec, rundir))


def outer_paths(rundir: Path) -> dict[str, Path]:
    """where the outer run (the Rerunner) of a nested run keeps its things; the inner run uses run_paths() like every other run"""
    return {"art": rundir / "outer-art", "db": rundir / "outer-db" / "gallia.sqlite", "lock": rundir / "outer.lock", "meta": rundir / "rerun-META.json"}


def build_outer_config(spec: dict[str, Any], rundir: Path) -> Any:
    define_commands()
    r, o = spec["rerun"], outer_paths(rundir)
    kw: dict[str, Any] = {"volatile_info": False, "file": o["meta"]}
    if r["art"]:
        kw["artifacts_base"] = o["art"]
    if r["db"] is not None:
        kw["db"] = run_paths(rundir)["db"] if r["db"] == "same" else o["db"]
    if r["lock"]:
        kw["lock_file"] = o["lock"]
    return C15Rerunner.CONFIG_TYPE(**kw)


def iso_now() -> str:
    return datetime.now().astimezone().isoformat()


def other_art(rundir: Path, which: str) -> Path:
    """artifacts base of the other command of the process ("prior": the earlier run, "second": the run beside the judged one)"""
    return rundir / f"{which}-art"


def build_other(spec: dict[str, Any], rundir: Path, which: str, inj: Any) -> Any:
    define_commands()
    d = spec["prior"] if which == "prior" else spec["gather"]
    kw: dict[str, Any] = {"volatile_info": False, "c15_code": int(d["code"]), "c15_role": which}
    if d.get("art"):
        kw["artifacts_base"] = other_art(rundir, which)
    if which == "second":
        kw["lock_file"] = run_paths(rundir)["lock"]  # the same lock file as the judged command's
    cmd = C15Second(C15SecondConfig(**kw))
    cmd.injector = inj
    return cmd


def marker(spec: dict[str, Any]) -> str:
    return f"C15-MARKER id={spec.get('id', 0)} {spec['kind']}/{spec['exit']}/{spec['point']} last record before the fault"


# =================================================================================================
# child
# =================================================================================================
class Injector:
    def __init__(self, spec: dict[str, Any], rundir: Path) -> None:
        self.spec = spec
        self.paths = run_paths(rundir)
        self.out = self.paths["out"]
        self.fd = os.open(self.out / "events", os.O_WRONLY | os.O_CREAT | os.O_APPEND, 0o644)
        self.logged_fd = os.open(self.out / "logged.jsonl", os.O_WRONLY | os.O_CREAT | os.O_APPEND, 0o644)
        self.seq = 0
        self.helper: tuple[str, Any] | None = None
        self.run_over = False
        self.inner_cmd: Any = None  # nested runs: the command the Rerunner re-created
        self.qh_base = 0
        self.g_hold: Any = None  # side-by-side runs: asyncio events "the holder sits at its hold point" / "the other entry_point() has been started"
        self.g_go: Any = None

    def event(self, name: str) -> None:
        os.write(self.fd, (name + "\n").encode())

    def run_ended(self) -> None:
        self.run_over = True
        self.event("run_ended")
        (self.out / "run-ended").write_text(str(os.getpid()))

    @staticmethod
    def queue_handlers() -> int:
        import logging

        # setup_logging(logger_name="") puts the console handler on the root logger; on "gallia" only add_zst_log_handler() attaches one
        return sum(1 for h in logging.getLogger("gallia").handlers if type(h).__name__ == "QueueHandler")

    async def gather_hold(self, who: str, where: str) -> None:
        """Side-by-side runs: this command holds the lock file and stays suspended here (an await point like any other) until the driver has started
        the other command's entry_point() in the same loop, and for `gap` s more; then it goes on to its ending."""
        import asyncio

        if self.g_hold is None:
            return
        self.probe_lock("lock-at-gather-hold")
        self.event(f"gather_hold {who} {where}")
        self.g_hold.set()
        try:
            await asyncio.wait_for(self.g_go.wait(), GATHER_GO_TIMEOUT)
        except asyncio.TimeoutError:
            self.event("gather_go_missed")
            return
        limit = time.monotonic() + float(self.spec["gather"]["gap"])
        while time.monotonic() < limit:
            await asyncio.sleep(0.01)
        self.event("gather_hold_over")

    async def other_main(self, cmd: Any) -> None:
        """main() of the other command of the process (C15Second): two records through gallia's logger, the lock probed if it has one, the hold
        if it is the holder of a side-by-side run, then its ending (return or sys.exit(n))."""
        from gallia.log import get_logger

        which = cmd.config.c15_role
        log = get_logger(LOGGER_NAME)
        self.event(f"{which}_main")
        self.say(log, f"C15-{which.upper()} id={self.spec.get('id', 0)} main() of the {which} command begins", which)
        if cmd.config.lock_file is not None:
            self.probe_lock(f"{which}-lock-in-main")
        if which == "second" and self.spec["gather"]["role"] == "waiter":
            await self.gather_hold("second", "main")
        self.say(log, f"C15-{which.upper()} id={self.spec.get('id', 0)} main() of the {which} command ends with {cmd.config.c15_code}", which)
        self.event(f"{which}_main_done")
        if cmd.config.c15_code:
            sys.exit(cmd.config.c15_code)

    def outer_say(self, text: str) -> None:
        """a record of the outer run of a nested run (logged while only the outer run's log file is open)"""
        from gallia.log import get_logger

        self.say(get_logger(LOGGER_NAME), f"C15-OUTER id={self.spec.get('id', 0)} {text}", "outer")
        self.event("outer_" + text.split(":")[1].split(",")[0].strip())

    def inner_begins(self, cmd: Any) -> None:
        self.inner_cmd = cmd
        self.qh_base = self.queue_handlers()  # the outer run's log handler, if it has one
        self.event("inner_entry_point_begins")

    def inner_ended(self, cmd: Any) -> None:
        observe_entry_point_end(cmd, self.out, qh_base=self.qh_base)
        self.probe_lock("lock-after-entry-point")
        self.event("inner_entry_point_ended")

    def watch_db_close(self, cmd: Any) -> None:
        """Observation at the boundary between the command and its database handler: DBHandler.disconnect() is the handler's only way
        of being closed; the call (not what it does) is noted once run() is over, then the handler's own method runs."""
        h = cmd.db_handler
        if h is None:
            return
        orig = h.disconnect

        async def disconnect() -> None:
            if self.run_over:
                self.event("db_close_entered")
                (self.out / "db-close-entered").write_text(str(os.getpid()))
            await orig()

        h.disconnect = disconnect
        if (self.spec.get("latesig") or {}).get("window") != RUNENTRY_WINDOW:
            return
        # same kind of observation for the call that completes the run entry: that it was made once run() was over, and that it was left
        # by the CancelledError of a Ctrl-C (noted, then passed on unchanged)
        import asyncio

        orig_complete = h.complete_run_meta

        async def complete_run_meta(*a: Any, **kw: Any) -> Any:
            if self.run_over:
                self.event("run_meta_completion_entered")
                (self.out / "run-meta-completion-entered").write_text(str(os.getpid()))
            try:
                return await orig_complete(*a, **kw)
            except asyncio.CancelledError:
                if self.run_over:
                    self.event("run_meta_completion_interrupted")
                    (self.out / "run-meta-completion-interrupted").write_text(str(os.getpid()))
                raise

        h.complete_run_meta = complete_run_meta

    async def end_of_run_hold(self, cmd: Any) -> None:
        """last thing in the command's run(): tell the parent that the run is about to end, go on when it has taken the database's write lock"""
        import asyncio

        later = int(self.spec["latesig"].get("rows") or 0) and cmd.db_handler is not None
        if later and cmd.db_handler.scan_run is None:
            await cmd.db_handler.insert_scan_run("c15://burst")  # (written at once, not queued: before anybody else has the lock)
        (self.out / "ready-db").write_text(str(os.getpid()))
        limit = time.monotonic() + SIGINT_READY_TIMEOUT + 8
        while not (self.out / "db-locked").exists() and time.monotonic() < limit:
            await asyncio.sleep(0.005)
        self.event("contend_go" if (self.out / "db-locked").exists() else "contend_go_missed")
        if later:
            await self.queue_rows(cmd)  # a scanner whose last requests are still being recorded

    def modify_config(self, cmd: Any, log: Any) -> None:
        """what `scan uds identifiers` does with its `end` option: use the option as given, then assign another value to the command's own config object"""
        field = self.spec["cfgmut"]["field"]
        if not hasattr(cmd.config, field):
            field = "c15_end"
        old = getattr(cmd.config, field)
        setattr(cmd.config, field, CFGMUT_FIELDS[field])
        self.event(f"config_modified {field}")
        self.say_seq(log, f"option {field} was {old!r}, the command goes on with {getattr(cmd.config, field)!r}")

    async def queue_rows(self, cmd: Any) -> None:
        """what a scanner does with every request it sends, many times in a row: hand scan results to the database handler's queue"""
        from datetime import UTC

        from gallia.db.log import LogMode
        from gallia.services.uds.core.service import TesterPresentRequest

        h = cmd.db_handler
        n = int(self.spec["latesig"]["rows"])
        if h.scan_run is None:
            await h.insert_scan_run("c15://burst")
        req = TesterPresentRequest(suppress_response=False)
        for i in range(n):
            await h.insert_scan_result({BURST_TAG: self.spec.get("id", 0), "i": i}, req, None, None, datetime.now(UTC).astimezone(), None, LogMode.explicit)
        self.event(f"rows_queued {n}")

    def fork_helper(self) -> None:
        """The command starts a helper process by fork (no exec) that is still busy when the command itself is done. The forked copy
        does OS-level work only (it must not touch the loop, the logging threads or the buffers it inherited) and ends with _exit."""
        how = self.spec["forkhelper"]["how"]
        stop = str(self.out / "helper-stop")

        def body() -> None:
            try:
                limit = time.monotonic() + HELPER_MAX_LIFE
                while time.monotonic() < limit and not os.path.exists(stop):
                    time.sleep(0.02)
            finally:
                os._exit(0)

        if how == "os-fork":
            pid = os.fork()
            if pid == 0:
                body()
            self.helper = ("pid", pid)
        else:
            import multiprocessing

            proc = multiprocessing.get_context("fork").Process(target=body, name="c15-helper", daemon=True)
            proc.start()
            pid = proc.pid or 0
            self.helper = ("mp", proc)
        (self.out / "helper-pid").write_text(str(pid))
        self.event(f"helper_forked {how}")

    def after_entry_point(self, cmd: Any, escaped: bool = False) -> None:
        """Harness housekeeping once entry_point() is over and the lock file has been probed: was the helper alive all the time (then
        stop and reap it), did the command leave its database connection open (then note it and - unless the spec says otherwise -
        stop the connection's worker thread: it is not a daemon thread and would keep the interpreter from exiting)."""
        d: dict[str, Any] = {}
        try:
            if self.helper is not None:
                kind, h = self.helper
                if kind == "pid":
                    d["helper_alive_at_probe"] = os.waitpid(h, os.WNOHANG) == (0, 0)
                    try:
                        os.kill(h, signal.SIGKILL)
                        os.waitpid(h, 0)
                    except (OSError, ChildProcessError):
                        pass
                else:
                    d["helper_alive_at_probe"] = bool(h.is_alive())
                    h.kill()
                    h.join(10)
                d["helper_reaped"] = True
            # (runs on a database file that was there before / nested runs: only after an exception has left entry_point() - the open
            # connection is a consequence of that exception, which is what gets reported, and would only keep the process from ending)
            for c in ([cmd] if self.spec.get("latesig") else [cmd, self.inner_cmd] if escaped else []):
                con = getattr(getattr(c, "db_handler", None), "connection", None)
                d["db_connection_left_open"] = d.get("db_connection_left_open", False) or (con is not None and con._thread.is_alive())
                if con is not None and not (self.spec.get("latesig") or {}).get("leave_connection"):
                    con.stop()
                    con._thread.join(15)
                    d["db_connection_stopped_by_harness"] = not con._thread.is_alive()
        except BaseException as e:  # noqa: BLE001  (housekeeping must never change how the child ends)
            d["error"] = repr(e)
        try:
            (self.out / "after-entry-point.json").write_text(json.dumps(d))
        except OSError:
            pass

    def say(self, log: Any, text: str, what: str) -> None:
        """log one record through gallia's logger and, once the call has returned, note what was logged"""
        log.info(text)
        os.write(self.logged_fd, (json.dumps({"t": text, "k": what}) + "\n").encode())

    def say_seq(self, log: Any, where: str) -> None:
        self.seq += 1
        self.say(log, f"C15-SEQ id={self.spec.get('id', 0)} n={self.seq} {where}", "seq")

    async def db_cycle(self, cmd: Any) -> None:
        """what gallia's DoIP discoverer does with its handler, the other way round: give the database away, take it back"""
        import asyncio

        dc = self.spec["dbcycle"]
        h = cmd.db_handler
        try:
            for _ in range(dc["n"]):
                await h.disconnect()
                self.event("db_disconnected")
                if dc.get("other_writes"):
                    con = sqlite3.connect(str(self.paths["db"]), timeout=10, isolation_level=None)
                    try:
                        now = time.time()
                        con.execute("INSERT INTO run_meta(script, config, start_time, start_timezone, end_time, end_timezone, exit_code, path, exclude) "
                                    "VALUES (?, '{}', ?, 'UTC', ?, 'UTC', 0, 'None', FALSE)", (OTHER_WRITER, now, now))
                    finally:
                        con.close()
                    self.event("db_other_writer_wrote")
                if dc.get("gap"):
                    await asyncio.sleep(dc["gap"])
                await h.connect()
                self.event("db_reconnected")
                # the command goes on working for a moment before anything else happens to the handler (a disconnect() that follows
                # connect() without a single suspension in between cancels the handler's writer task before it ever ran and raises
                # CancelledError: DBHandler usage outside this property)
                await asyncio.sleep(max(dc.get("gap") or 0.0, 0.005))
        except Exception as e:
            self.event(f"db_cycle_error {type(e).__name__}")
            raise

    def probe_lock(self, name: str, path: Path | None = None) -> None:
        if path is None and not self.spec["lock"]:
            return
        import fcntl

        try:
            fd = os.open(path if path is not None else self.paths["lock"], os.O_RDONLY)
        except OSError as e:
            (self.out / name).write_text(f"error {e!r}\n")
            return
        try:
            fcntl.flock(fd, fcntl.LOCK_EX | fcntl.LOCK_NB)
            fcntl.flock(fd, fcntl.LOCK_UN)
            res = "free"
        except BlockingIOError:
            res = "held"
        finally:
            os.close(fd)
        (self.out / name).write_text(res + "\n")

    async def at(self, point: str, cmd: Any) -> None:
        import asyncio

        from gallia.log import get_logger

        self.event(point)
        spec = self.spec
        log = get_logger(LOGGER_NAME)
        self.say_seq(log, f"at {point}")
        if point == "main" and spec["kind"] == "uds":
            resp = await cmd.ecu.ping()
            self.event(f"ecu_answered {type(resp).__name__}")
        if spec.get("cfgmut") and spec["cfgmut"]["at"] == point:
            self.modify_config(cmd, log)
        if spec.get("dbcycle") and spec["dbcycle"]["at"] == point and cmd.db_handler is not None:
            await self.db_cycle(cmd)
            self.say_seq(log, "database handler connected again")
        if spec.get("forkhelper") and spec["forkhelper"]["at"] == point:
            self.fork_helper()
            self.say_seq(log, "helper process forked")
        if spec.get("latesig") and spec["latesig"]["at"] == point and cmd.db_handler is not None:
            await self.queue_rows(cmd)
            self.say_seq(log, "scan results queued")
        if spec.get("logtext") and spec["logtext"]["at"] == point:
            c = spec["logtext"]["class"]
            self.say(log, f"C15-TEXT id={spec.get('id', 0)} class={c}: {TEXT_CLASSES[c]}", f"text:{c}")
            self.event(f"logtext {c}")
            self.say_seq(log, "after the text record")
        if spec["point"] == TDPROPS_POINT and point == "teardown_pre":
            # the fault of this run is not raised here: from now on the ECU fails, and the first code that needs an answer
            # is the properties read inside UDSScanner.teardown (the transport is still open)
            self.probe_lock("lock-at-fault")
            self.say(log, marker(spec), "marker")
            self.event("fault")
            ECU_CTL["mode"] = "silent" if spec["exit"] == "ecusilent" else "reset"
            self.event(f"ecu_mode {ECU_CTL['mode']}")
            return
        if spec.get("gather") and spec["gather"]["role"] == "holder" and spec["gather"]["at"] == point:
            await self.gather_hold("A", point)
            self.say_seq(log, "went on after another command's entry_point() had been started in the same event loop")
        fire = spec["point"] == point or (spec["exit"] == "return" and point == "main")
        if not fire:
            return
        self.probe_lock("lock-at-fault")
        self.say(log, marker(spec), "marker")
        self.event("fault")
        e = spec["exit"]
        if spec.get("contend") and e != "sigint" and (spec.get("latesig") or {}).get("at") != RUNENTRY_HOLD:
            # hold point: the parent takes the database's write lock now and tells us to go on (a real SIGINT is the go itself)
            (self.out / "ready-db").write_text(str(os.getpid()))
            limit = time.monotonic() + SIGINT_READY_TIMEOUT + 8
            while not (self.out / "db-locked").exists() and time.monotonic() < limit:
                await asyncio.sleep(0.005)
            self.event("contend_go" if (self.out / "db-locked").exists() else "contend_go_missed")
        if e == "return":
            return
        if e == "exit0":
            sys.exit(0)
        if e == "exit1":
            sys.exit(1)
        if e == "exit3":
            sys.exit(3)
        if e == "exitstr":
            sys.exit("c15: exiting with a message")
        if e == "connerr":
            raise (ConnectionError("c15 injected") if point.startswith("setup") else ConnectionResetError("c15 injected reset"))
        if e == "udserr":
            from gallia.services.uds.core.exception import MissingResponse
            from gallia.services.uds.core.service import TesterPresentRequest

            raise MissingResponse(TesterPresentRequest(suppress_response=False), "c15 injected")
        if e == "runtime":
            raise RuntimeError("c15 injected unexpected exception")
        if e == "kbdint":
            raise KeyboardInterrupt
        if e == "sigint":
            (self.out / "ready").write_text(str(os.getpid()))
            await asyncio.sleep(SIGINT_READY_TIMEOUT + 8)
            self.event("sigint_missed")
            raise AssertionError("c15 harness: SIGINT never arrived")
        raise AssertionError(f"unknown exit kind {e}")


def start_ecu(sock: Path, out: Path) -> None:
    """Virtual ECU (RandomUDSServer behind UDSServerTransport.handle_request) on a unix-lines socket, served from a
    daemon thread with its own loop: the main thread stays exactly `asyncio.run(cmd.entry_point())`."""
    import asyncio
    import threading
    from binascii import hexlify, unhexlify

    from gallia.services.uds.server import RandomUDSServer, UDSServerTransport
    from gallia.transports import TargetURI

    ready = threading.Event()
    err: list[BaseException] = []

    async def serve() -> None:
        server = RandomUDSServer(seed=15)
        await server.setup()
        tr = UDSServerTransport(server, TargetURI(f"unix-lines://{sock}"))
        count = 0
        rdbi = 0
        faulted = [0, 0]  # requests / ReadDataByIdentifier requests that met the ECU in "silent" or "reset" mode

        async def handle(reader: asyncio.StreamReader, writer: asyncio.StreamWriter) -> None:
            nonlocal count, rdbi
            try:
                while True:
                    line = await reader.readline()
                    if not line:
                        break
                    req = unhexlify(line.strip())
                    mode = ECU_CTL["mode"]
                    if mode != "answer":
                        faulted[0] += 1
                        faulted[1] += req[:1] == b"\x22"
                        (out / "ecu-faulted").write_text(f"{faulted[0]} {faulted[1]}")
                        if mode == "reset":
                            break  # hang up: the tester reads EOF / gets a reset
                        continue  # silent: the request is dropped
                    pdu, _ = await tr.handle_request(req)
                    if pdu is not None:
                        writer.write(hexlify(pdu) + b"\n")
                        await writer.drain()
                        count += 1
                        (out / "ecu-answers").write_text(str(count))
                        if req[:1] == b"\x22":
                            rdbi += 1
                            (out / "ecu-rdbi-answers").write_text(str(rdbi))
            except Exception:
                pass
            finally:
                writer.close()

        await asyncio.start_unix_server(handle, str(sock))
        ready.set()
        await asyncio.Event().wait()

    def body() -> None:
        try:
            asyncio.run(serve())
        except BaseException as e:  # noqa: BLE001
            err.append(e)
            ready.set()

    threading.Thread(target=body, name="c15-ecu", daemon=True).start()
    if not ready.wait(20) or err:
        print(f"c15 harness: virtual ECU did not start: {err!r}", file=sys.stderr)
        os._exit(97)


def observe_entry_point_end(cmd: Any, out: Path, prefix: str = "", qh_base: int = 0) -> None:
    """What the command itself left behind, taken in the child the moment entry_point() returned or raised (after
    asyncio.run() is done, before the interpreter's atexit hooks run: logging.shutdown() closes every handler that is
    still open and would make a log file the command never closed look fine after the process ended)."""
    import shutil

    try:
        d: dict[str, Any] = {
            "log_file_handlers_left": len(getattr(cmd, "log_file_handlers", []) or []),
            # (nested runs: qh_base is what was attached before this run's entry_point() began - the outer run's handler)
            "queue_handlers_on_gallia": Injector.queue_handlers() - qh_base,
            "log_copied": False,
            # the window of this run: the moment before the command object was created (noted by the harness classes' __init__) .. now
            "created": getattr(cmd, "c15_created", None),
            "ended": iso_now(),
        }
        ad = getattr(cmd, "artifacts_dir", None)
        if ad is not None:
            lf = Path(ad) / "log.json.zst"
            d["log_exists"] = lf.exists()
            if lf.exists():
                shutil.copyfile(lf, out / f"{prefix}log-at-entry-point-end.zst")
                d["log_copied"] = True
        (out / f"{prefix}entry-point-end.json").write_text(json.dumps(d))
    except BaseException as e:  # noqa: BLE001  (observing must never change how the child ends)
        try:
            (out / f"{prefix}entry-point-end.error").write_text(repr(e))
        except OSError:
            pass


async def run_other(cmd: Any, inj: Any) -> Any:
    """the entry_point() of the other command of the process, observed the way child_main() observes the judged one"""
    which = cmd.config.c15_role
    inj.event(f"{which}_entry_point_begins")
    try:
        rc = await cmd.entry_point()
        (inj.out / f"{which}-returned").write_text(json.dumps(rc))
        return rc
    except BaseException as e:  # noqa: BLE001
        (inj.out / f"{which}-escaped").write_text(f"{type(e).__name__}: {e!r}"[:300])
        raise
    finally:
        observe_entry_point_end(cmd, inj.out, prefix=f"{which}-")
        inj.event(f"{which}_entry_point_ended")


def run_prior(spec: dict[str, Any], rundir: Path, inj: Any) -> None:
    """Child, before the judged command object is created: the process runs another gallia command to its end (a driver script that executes
    several commands, one asyncio.run(entry_point()) each)."""
    import asyncio

    try:
        asyncio.run(run_other(build_other(spec, rundir, "prior", inj), inj))
    except KeyboardInterrupt:
        raise
    except BaseException:  # noqa: BLE001  (noted by run_other; the judged run takes place all the same)
        pass


async def gather_driver(cmd: Any, second: Any, inj: Any) -> Any:
    """Child, side-by-side runs: the judged command and the second command as two tasks of this loop. The holder is started first; when it sits at its
    hold point the other one's entry_point() is started. A heartbeat task and a daemon thread watch from outside whether the loop still turns."""
    import asyncio
    import threading
    import traceback

    spec, out = inj.spec, inj.out
    inj.g_hold, inj.g_go = asyncio.Event(), asyncio.Event()
    beat = {"t": time.monotonic(), "n": 0, "stop": False}
    main_ident = threading.get_ident()

    async def heart() -> None:
        while True:
            beat["t"], beat["n"] = time.monotonic(), beat["n"] + 1
            await asyncio.sleep(0.02)

    def watch() -> None:
        while not beat["stop"]:
            time.sleep(0.2)
            silent = time.monotonic() - beat["t"]
            if silent >= GATHER_STUCK_AFTER and not beat["stop"]:
                fr = sys._current_frames().get(main_ident)
                stack = [f"{f.filename.split('/src/')[-1]}:{f.lineno} {f.name}: {(f.line or '').strip()}" for f in traceback.extract_stack(fr)][-8:] if fr is not None else []
                try:
                    (out / "loop-stuck.json").write_text(json.dumps({"silent_for": round(silent, 2), "heartbeats": beat["n"], "main_thread": stack}))
                finally:
                    os._exit(GATHER_EXIT_STUCK)

    async def run_a() -> Any:
        inj.event("A_entry_point_begins")
        try:
            return await cmd.entry_point()
        finally:
            observe_entry_point_end(cmd, out, qh_base=inj.qh_base)
            inj.event("A_entry_point_ended")

    hb = asyncio.create_task(heart())
    threading.Thread(target=watch, name="c15-loop-watch", daemon=True).start()
    try:
        holder_first = spec["gather"]["role"] == "holder"
        first, other = (run_a, lambda: run_other(second, inj)) if holder_first else (lambda: run_other(second, inj), run_a)
        t1 = asyncio.create_task(first())
        hold = asyncio.create_task(inj.g_hold.wait())
        await asyncio.wait({t1, hold}, return_when=asyncio.FIRST_COMPLETED)
        hold.cancel()
        t2 = asyncio.create_task(other())
        await asyncio.sleep(0)  # the new task takes its first step (up to its first suspension) before this coroutine goes on
        inj.event("gather_loop_turns_after_other_began")
        inj.g_go.set()
        await asyncio.wait({t1, t2})
        ta, tb = (t1, t2) if holder_first else (t2, t1)
        if not tb.cancelled():
            tb.exception()  # (noted by run_other; retrieved so that asyncio does not complain)
        return ta.result()  # the judged command's exit code, or the exception that left its entry_point()
    finally:
        beat["stop"] = True
        hb.cancel()


def prepare_db_state(spec: dict[str, Any], rundir: Path, config: Any) -> None:
    """Child, before the command is built. Database state "initialised": an earlier, completed run has used the database file (gallia's
    own DBHandler: connect, run_meta row with OTHER_WRITER as script, completed, disconnect). State "empty-file" was made by the parent."""
    if spec.get("dbstate") != "initialised":
        return
    import asyncio
    from datetime import UTC

    from gallia.db.handler import DBHandler

    out = run_paths(rundir)["out"]
    h = DBHandler(run_paths(rundir)["db"])

    async def earlier_run() -> None:
        await h.connect()
        try:
            now = datetime.now(UTC).astimezone()
            await h.insert_run_meta(script=OTHER_WRITER, config=config, start_time=now, path=None)
            await h.complete_run_meta(now, 0, None)
        finally:
            await h.disconnect()

    try:
        asyncio.run(asyncio.wait_for(earlier_run(), 20))
        (out / "db-initialised").write_text("ok")
    except BaseException as e:  # noqa: BLE001  (then the run simply starts with whatever is there; it does not count as "initialised")
        (out / "db-initialise-failed").write_text(repr(e))
        con = h.connection
        if con is not None:
            try:
                con.stop()
                con._thread.join(10)
            except Exception:  # noqa: BLE001
                pass


def scale_subprocess_clock(spec: dict[str, Any], out: Path) -> None:
    """Child, "scaled" slow hooks: the clock the stdlib's subprocess module measures timeouts with runs `scale` times faster from now on.
    Only code that gives subprocess a timeout ever reads it; asyncio, logging and the hook script itself see the real clock."""
    sh = spec.get("slowhook")
    if not sh or float(sh.get("scale", 1.0)) == 1.0:
        return
    import subprocess as sp

    real, k = time.monotonic, float(sh["scale"])
    t0 = real()
    sp._time = lambda: t0 + (real() - t0) * k  # type: ignore[attr-defined]
    (out / "hook-clock-scaled").write_text(str(k))


def cli_argv(spec: dict[str, Any], rundir: Path) -> list[str]:
    p = run_paths(rundir)
    argv = ["gallia", "discover", "doip"]
    if spec["art"]:
        argv += ["--artifacts-base", str(p["art"])]
    if spec["db"]:
        argv += ["--db", str(p["db"])]
    if spec["lock"]:
        argv += ["--lock-file", str(p["lock"])]
    t = CLI_TARGETS[spec["cli"]["target"]]
    if t is not None:
        argv += ["--target", t]
    return argv


def child_cli(spec: dict[str, Any], rundir: Path) -> None:
    """gallia's own command line entry (gallia.cli.gallia.main: parse, setup_logging, sys.exit(asyncio.run(entry_point())));
    the SystemExit it ends with is caught only to look at what the command left behind before the interpreter's atexit hooks run."""
    import traceback
    import types

    paths = run_paths(rundir)
    inj = Injector(spec, rundir)
    if spec.get("dbstate") == "initialised":
        define_commands()
        prepare_db_state(spec, rundir, C15ScriptConfig())
    sys.argv = cli_argv(spec, rundir)
    (paths["out"] / "started").write_text(json.dumps(sys.argv))
    rc: Any = None
    try:
        try:
            from gallia.cli.gallia import main

            main()
            rc = 0
        except SystemExit as e:
            rc = e.code if e.code is not None else 0
        finally:
            runs = sorted(paths["art"].glob("*/run-*")) if paths["art"].exists() else []
            observe_entry_point_end(types.SimpleNamespace(log_file_handlers=[], artifacts_dir=runs[0] if len(runs) == 1 else None), paths["out"])
        (paths["out"] / "returned").write_text(json.dumps(rc if isinstance(rc, int) else repr(rc)))
    except BaseException as e:
        frames = traceback.extract_tb(e.__traceback__)
        gl = [f for f in frames if "/gallia/" in f.filename]
        (paths["out"] / "escaped.json").write_text(json.dumps({"type": type(e).__name__, "text": repr(e)[:300], "func": gl[-1].name if gl else None, "hook_variant": None}))
        if spec.get("dbstate", "absent") != "absent" and not isinstance(e, KeyboardInterrupt):
            # the exception is what gets reported; a database connection it left open would only keep the process from ending
            import gc

            import aiosqlite

            for o in gc.get_objects():
                try:
                    if isinstance(o, aiosqlite.Connection) and o._thread.is_alive():
                        o.stop()
                except Exception:  # noqa: BLE001
                    pass
        raise
    finally:
        inj.probe_lock("lock-after-entry-point")
    sys.exit(rc)


def child_main(specfile: str) -> None:
    from vf import runner

    runner.bootstrap_path()
    wrong = runner.assert_tree()
    if wrong:
        print(f"c15 harness: {wrong}", file=sys.stderr)
        os._exit(98)
    import asyncio
    import traceback

    rundir = Path(specfile).resolve().parent
    spec = json.loads(Path(specfile).read_text())
    if spec.get("cli"):
        import faulthandler

        stacks = open(run_paths(rundir)["out"] / "stacks", "w")  # noqa: SIM115
        faulthandler.dump_traceback_later(float(os.environ.get("C15_DUMP_AFTER", CHILD_TIMEOUT - STACK_DUMP_BEFORE_KILL)), file=stacks, exit=False)
        child_cli(spec, rundir)
        return
    paths = run_paths(rundir)
    import faulthandler

    # if the parent's watchdog is about to fire, leave the stacks of all threads behind: that is what tells a
    # command that hangs from a harness that hangs
    stacks = open(paths["out"] / "stacks", "w")  # noqa: SIM115
    faulthandler.dump_traceback_later(float(os.environ.get("C15_DUMP_AFTER", CHILD_TIMEOUT - STACK_DUMP_BEFORE_KILL)), file=stacks, exit=False)
    define_commands()
    from gallia.log import Loglevel, setup_logging

    # what gallia.cli.gallia.main does before running the command
    setup_logging(level=Loglevel.INFO, no_volatile_info=True, logger_name="")
    if spec["kind"] in ("scanner", "uds"):
        start_ecu(paths["sock"], paths["out"])
    config = build_config(spec, rundir)
    cls = globals()[CLASS_NAMES[spec["kind"]]]
    if spec["kind"] == "uds":
        import gallia.command.uds as guds

        guds.load_ecu = lambda vendor: C15ECU  # type: ignore[assignment]
    prepare_db_state(spec, rundir, config)
    scale_subprocess_clock(spec, paths["out"])
    inj = Injector(spec, rundir)
    if spec.get("prior"):
        run_prior(spec, rundir, inj)
        inj.qh_base = Injector.queue_handlers()  # what the earlier run left attached is judged as its own leftover
    second = build_other(spec, rundir, "second", inj) if spec.get("gather") else None
    nested = bool(spec.get("rerun"))
    if nested:
        # the command of this spec is the inner run: gallia's Rerunner builds it from the META.json and awaits its entry_point()
        # inside the Rerunner's own run (_Mixin.entry_point observes the inner run where child_main observes a top-level one)
        op = outer_paths(rundir)
        cls.injector = inj
        now = datetime.now().astimezone().isoformat()
        op["meta"].write_text(json.dumps({"command": f"vf.checks.c15.{cls.__name__}", "start_time": now, "end_time": now, "exit_code": 0,
                                          "config": json.loads(config.model_dump_json())}) + "\n")
        cmd = C15Rerunner(build_outer_config(spec, rundir))
    else:
        cmd = cls(config)
    cmd.injector = inj
    pre = "outer-" if nested else ""
    escaped_exc = False  # an exception other than the KeyboardInterrupt of a Ctrl-C has left entry_point()
    (paths["out"] / "started").write_text(config.model_dump_json())
    try:
        try:
            rc = asyncio.run(gather_driver(cmd, second, inj)) if second is not None else asyncio.run(cmd.entry_point())
        finally:
            if second is None:  # (side-by-side runs: taken by the driver the moment the judged command's entry_point() ended)
                observe_entry_point_end(cmd, paths["out"], prefix=pre, qh_base=0 if nested else inj.qh_base)
        (paths["out"] / f"{pre}returned").write_text(json.dumps(rc))
    except BaseException as e:
        escaped_exc = not isinstance(e, KeyboardInterrupt)
        frames = traceback.extract_tb(e.__traceback__)
        gl = [f for f in frames if "/gallia/" in f.filename]
        lines = " ".join((f.line or "") for f in frames)
        (paths["out"] / "escaped.json").write_text(json.dumps({
            "type": type(e).__name__, "text": repr(e)[:300], "func": gl[-1].name if gl else None,
            "hook_variant": "pre" if "HookVariant.PRE" in lines else ("post" if "HookVariant.POST" in lines else None),
        }))
        raise
    finally:
        if nested:
            if spec["rerun"]["lock"]:
                inj.probe_lock("outer-lock-after-entry-point", outer_paths(rundir)["lock"])
        else:
            inj.probe_lock("lock-after-entry-point")
        if spec.get("forkhelper") or spec.get("latesig"):
            inj.after_entry_point(cmd, escaped=escaped_exc and spec.get("dbstate", "absent") != "absent")
        elif escaped_exc and (spec.get("dbstate", "absent") != "absent" or nested):
            inj.after_entry_point(cmd, escaped=True)
        elif nested and inj.inner_cmd is not None and not (paths["out"] / "returned").exists() and (paths["out"] / "outer-returned").exists():
            inj.after_entry_point(cmd, escaped=True)  # the inner run's entry_point() raised inside the outer run, which ended normally
    sys.exit(rc)


# =================================================================================================
# parent: execute one run and collect the observations
# =================================================================================================
def _read(p: Path) -> str | None:
    try:
        return p.read_text(errors="replace")
    except OSError:
        return None


def zstd_closed(path: Path) -> tuple[bool, int]:
    """True iff the file is a sequence of complete zstd frames (the writer closed its stream)."""
    import zstandard

    data = path.read_bytes()
    total = 0
    if not data:
        return False, 0
    while data:
        o = zstandard.ZstdDecompressor().decompressobj()
        try:
            total += len(o.decompress(data))
        except zstandard.ZstdError:
            return False, total
        if not o.eof:
            return False, total
        data = o.unused_data
    return True, total


def analyze_log(lf: Path, spec: dict[str, Any]) -> dict[str, Any]:
    """size, zstd completeness and a full PenlogReader pass over one log file (or a copy of it)"""
    log: dict[str, Any] = {"size": lf.stat().st_size}
    try:
        log["closed"], log["bytes"] = zstd_closed(lf)
    except Exception as e:  # noqa: BLE001
        log["closed"], log["error"] = False, repr(e)
    try:
        from gallia.log import PenlogReader

        n = 0
        found = False
        hook_reports: list[str] = []
        own: list[str] = []  # data of every record of the harness' logger, in file order
        mk = marker(spec)
        with PenlogReader(lf) as r:
            total = len(r)
            for rec in r.records():
                n += 1
                if rec.data == mk:
                    found = True
                if rec.priority <= 4 and "hook" in rec.data:
                    hook_reports.append(rec.data[:200])
                if rec.module == LOGGER_NAME:
                    own.append(json.dumps(rec.data))  # ASCII form (lone surrogates escaped), injective
        log.update({"records": n, "lines": total, "marker": found, "hook_reports": hook_reports, "own": own})
    except Exception as e:  # noqa: BLE001
        log["read_error"] = f"{type(e).__name__}: {e}"[:300]
    return log


def other_writer_lock(db: Path) -> tuple[sqlite3.Connection | None, str | None]:
    """A second writer on the shared database: open it with the stdlib module and start a write transaction."""
    if not db.exists():
        return None, "database file does not exist yet"
    con = None
    try:
        con = sqlite3.connect(str(db), timeout=CONTEND_LOCK_TIMEOUT, isolation_level=None, check_same_thread=False)
        con.execute("BEGIN IMMEDIATE")
        now = time.time()
        con.execute("INSERT INTO run_meta(script, config, start_time, start_timezone, end_time, end_timezone, exit_code, path, exclude) "
                    "VALUES (?, '{}', ?, 'UTC', ?, 'UTC', 0, 'None', FALSE)", (OTHER_WRITER, now, now))
        return con, None
    except Exception as e:  # noqa: BLE001
        if con is not None:
            try:
                con.close()
            except Exception:  # noqa: BLE001
                pass
        return None, repr(e)


def wait_scan_results_quiet(db: Path, proc: Any) -> float | None:
    """seconds until the scan_result table had not grown for RUNENTRY_QUIET s (read-only reader); None: it never settled / could not be read"""
    t0 = time.monotonic()
    try:
        con = sqlite3.connect(f"file:{db}?mode=ro", uri=True, timeout=1)
    except sqlite3.Error:
        return None
    try:
        last, since = None, t0
        while time.monotonic() < t0 + RUNENTRY_QUIET_MAX and proc.poll() is None:
            try:
                n = con.execute("SELECT count(*) FROM scan_result").fetchall()[0][0]
            except sqlite3.Error:
                n = None
            now = time.monotonic()
            if n is None or n != last:
                last, since = n, now
            elif now - since >= RUNENTRY_QUIET:
                return round(now - t0, 3)
            time.sleep(0.03)
        return None
    finally:
        con.close()


def late_sigint(proc: Any, paths: dict[str, Path], spec: dict[str, Any]) -> dict[str, Any]:
    """Ctrl-C for a run that is already over: wait until the harness command's run() has ended, then (window "db-sync") until the
    command has called its database handler's disconnect(), look how many rows of the burst the database holds (read-only reader),
    and send SIGINT.
    Window "run-entry-completion" (with spec["contend"]): the command is held at the very end of its run(); once the scan_result table has stopped
    growing the harness takes the database's write lock and lets the command go; the signal goes out a moment after the child has noted the command's
    call of complete_run_meta(), and the lock is kept until the child has noted that this call was ended by CancelledError."""
    out, late = paths["out"], spec["latesig"]
    info: dict[str, Any] = {"sent": False, "window": late.get("window", "db-sync"), "db_close_entered_after": None, "rows_written_at_signal": None}
    hold = float(spec.get("contend") or 0)
    other = None
    try:
        if hold:
            deadline = time.monotonic() + SIGINT_READY_TIMEOUT
            while time.monotonic() < deadline and proc.poll() is None and not (out / "ready-db").exists():
                time.sleep(0.005)
            if (out / "ready-db").exists():
                info["quiet_after"] = wait_scan_results_quiet(paths["db"], proc)
                other, info["lock_error"] = other_writer_lock(paths["db"])
                if other is not None:
                    try:
                        info["scan_rows_at_lock"] = other.execute("SELECT count(*) FROM scan_result").fetchall()[0][0]
                    except sqlite3.Error as e:
                        info["rows_error"] = repr(e)
            t_lock = time.monotonic()
            (out / "db-locked").write_text("go")
        deadline = time.monotonic() + LATESIG_RUN_END_TIMEOUT
        while time.monotonic() < deadline and proc.poll() is None and not (out / "run-ended").exists():
            time.sleep(0.003)
        if proc.poll() is not None or not (out / "run-ended").exists():
            info["why_not_sent"] = "the process ended before run() did" if proc.poll() is not None else "run() did not end in time"
            return info
        t_end = time.monotonic()
        con = None
        try:
            con = sqlite3.connect(f"file:{paths['db']}?mode=ro", uri=True, timeout=1)
            if info["window"] == "db-sync":
                limit = t_end + LATESIG_ENTRY_TIMEOUT
                while time.monotonic() < limit and proc.poll() is None:
                    if (out / "db-close-entered").exists():
                        info["db_close_entered_after"] = round(time.monotonic() - t_end, 4)
                        break
                    time.sleep(0.002)
            else:
                # the command's call that completes the run entry, made after run() was over, has been noted by the child
                limit = t_end + LATESIG_ENTRY_TIMEOUT
                while time.monotonic() < limit and proc.poll() is None:
                    if (out / "run-meta-completion-entered").exists():
                        info["completion_entered_after"] = round(time.monotonic() - t_end, 4)
                        break
                    time.sleep(0.002)
            if late.get("delay"):
                time.sleep(float(late["delay"]))
            try:
                info["rows_written_at_signal"] = con.execute("SELECT count(*) FROM scan_result WHERE state LIKE ?", (f"%{BURST_TAG}%",)).fetchall()[0][0]
            except sqlite3.Error as e:
                info["rows_error"] = repr(e)
        except sqlite3.Error as e:
            info["reader_error"] = repr(e)
        finally:
            if con is not None:
                con.close()
        if proc.poll() is None:
            info["lock_held_at_signal"] = other is not None  # (held until this function commits: nobody else can end that transaction)
            proc.send_signal(signal.SIGINT)
            info["sent"] = True
            info["sent_after_run_end"] = round(time.monotonic() - t_end, 4)
        else:
            info["why_not_sent"] = "the process ended before the signal could be sent"
        if other is not None and info["window"] == RUNENTRY_WINDOW:
            # keep the lock until the child has noted that the Ctrl-C ended the command's complete_run_meta() call (then the UPDATE was attempted
            # and interrupted under the lock), but not for ever
            t_sig = time.monotonic()
            info["interrupted_seen_while_locked"] = False
            while info["sent"] and time.monotonic() < t_sig + RUNENTRY_WAIT_INTERRUPT and proc.poll() is None:
                if (out / "run-meta-completion-interrupted").exists():
                    info["interrupted_seen_while_locked"] = True
                    break
                time.sleep(0.003)
        elif other is not None:
            while time.monotonic() < t_lock + hold and proc.poll() is None:
                time.sleep(0.01)
    finally:
        if other is not None:
            try:
                other.execute("COMMIT")
            except Exception as e:  # noqa: BLE001
                info["release_error"] = repr(e)
            finally:
                other.close()
            info["held"] = round(time.monotonic() - t_lock, 3)
    return info


def execute(spec: dict[str, Any], rundir: Path, timeout: float = CHILD_TIMEOUT) -> dict[str, Any]:
    import fcntl

    paths = run_paths(rundir)
    rundir.mkdir(parents=True, exist_ok=True)
    paths["out"].mkdir(exist_ok=True)
    (rundir / "tmp").mkdir(exist_ok=True)
    paths["hook"].write_text(HOOK_SH)
    paths["spec"].write_text(json.dumps(spec))
    if spec["db"] and spec.get("dbstate") == "empty-file":
        # `--db "$(mktemp)"`: the file is there before the run and has nothing in it
        paths["db"].parent.mkdir(parents=True, exist_ok=True)
        paths["db"].touch()
    slow = spec.get("slowhook") or {}
    if slow.get("flavour") == "realtime":
        timeout += float(slow["sleep"]) * sum(1 for hv in ("pre", "post") if spec[hv] == "slow")  # the hooks really take that long
    env = dict(os.environ)
    env.update({
        "C15_OUT": str(paths["out"]), "C15_LOCK": str(paths["lock"]) if spec["lock"] else "", "TMPDIR": str(rundir / "tmp"),
        "PYTHONDONTWRITEBYTECODE": "1", "VERIF_REPO": os.environ.get("VERIF_REPO", "/repo"),
        "C15_DUMP_AFTER": str(timeout - STACK_DUMP_BEFORE_KILL), "C15_SLOW": str(slow.get("sleep", SLOW_SCALED_SLEEP)),
    })
    for k in ("PYTHONPATH", "GALLIA_CONFIG", "GALLIA_LOGLEVEL"):
        env.pop(k, None)
    env = {k: v for k, v in env.items() if not k.startswith("GALLIA_")}
    for name in (spec.get("staleenv") or {}).get("vars", []):
        env[name] = STALE_ENV[name]  # as if this gallia had been started from the post-hook of another gallia run
    obs: dict[str, Any] = {"watchdog": False, "sigint_delivered": False}
    t0 = time.monotonic()
    with open(rundir / "stdout", "wb") as so, open(rundir / "stderr", "wb") as se:
        proc = subprocess.Popen(
            [PY, "-m", "vf.checks.c15", "--child", str(paths["spec"])],
            cwd=ROOT, env=env, stdin=subprocess.DEVNULL, stdout=so, stderr=se, start_new_session=True,
        )
        hold = float(spec.get("contend") or 0)
        gate = "ready" if spec["exit"] == "sigint" else ("ready-db" if hold else None)
        try:
            if spec.get("latesig"):
                obs["latesig"] = late_sigint(proc, paths, spec)
                obs["sigint_delivered"] = bool(obs["latesig"]["sent"])
            elif gate is not None:
                deadline = time.monotonic() + SIGINT_READY_TIMEOUT
                while time.monotonic() < deadline and proc.poll() is None and not (paths["out"] / gate).exists():
                    time.sleep(0.01)
                if proc.poll() is None and (paths["out"] / gate).exists():
                    if spec["exit"] == "sigint" and spec["lock"]:
                        # second process: the lock must be held while the command runs
                        fd = os.open(paths["lock"], os.O_RDONLY)
                        try:
                            fcntl.flock(fd, fcntl.LOCK_EX | fcntl.LOCK_NB)
                            fcntl.flock(fd, fcntl.LOCK_UN)
                            obs["lock_parent_probe_during_run"] = "free"
                        except BlockingIOError:
                            obs["lock_parent_probe_during_run"] = "held"
                        finally:
                            os.close(fd)
                    con = None
                    if hold:
                        con, why = other_writer_lock(paths["db"])
                        t_lock = time.monotonic()
                        obs["contend"] = {"hold": hold, "locked": con is not None, "lock_error": why}
                    try:
                        if spec["exit"] == "sigint":
                            time.sleep(0.05)
                            proc.send_signal(signal.SIGINT)
                            obs["sigint_delivered"] = True
                        else:
                            (paths["out"] / "db-locked").write_text("go")
                        t_go = time.monotonic()
                        if con is not None:
                            # never longer than the nominal hold on purpose; what really happened is measured below
                            exited_at = None
                            while time.monotonic() < t_go + hold:
                                if exited_at is None and proc.poll() is not None:
                                    exited_at = time.monotonic()
                                time.sleep(0.01)
                            if exited_at is None and proc.poll() is not None:
                                exited_at = time.monotonic()
                            obs["contend"]["child_exited_while_locked_after"] = None if exited_at is None else round(exited_at - t_go, 3)
                    finally:
                        if con is not None:
                            released = False
                            try:
                                con.execute("COMMIT")
                                released = True
                            except Exception as e:  # noqa: BLE001
                                obs["contend"]["release_error"] = repr(e)
                            finally:
                                con.close()  # closing ends the transaction in any case
                            t_rel = time.monotonic()
                            obs["contend"].update({"committed": released, "held": round(t_rel - t_lock, 3), "overlap": round(t_rel - t_go, 3)})
            try:
                proc.wait(timeout=timeout)
            except subprocess.TimeoutExpired:
                obs["watchdog"] = True
        finally:
            if proc.poll() is None:
                try:
                    os.killpg(proc.pid, signal.SIGKILL)
                except OSError:
                    proc.kill()
                proc.wait(timeout=20)
    if spec.get("forkhelper"):
        # the child harness stops and reaps its helper process; if it could not (killed, died early), the helper must not stay behind
        try:
            aep = json.loads(_read(paths["out"] / "after-entry-point.json") or "{}")
            hp = int(_read(paths["out"] / "helper-pid") or 0)
            if hp > 1 and not aep.get("helper_reaped"):
                (paths["out"] / "helper-stop").write_text("stop")
                os.kill(hp, signal.SIGKILL)
        except (OSError, ValueError):
            pass
    obs["rc"] = proc.returncode
    obs["wall"] = round(time.monotonic() - t0, 3)
    obs["stderr"] = (_read(rundir / "stderr") or "")
    out = paths["out"]
    obs["started"] = (out / "started").exists()
    obs["stacks"] = (_read(out / "stacks") or "")[-6000:] if obs["watchdog"] else None
    obs["events"] = (_read(out / "events") or "").split("\n")[:-1]
    obs["returned"] = json.loads(_read(out / "returned") or "null")
    obs["logged"] = []  # what the command handed to gallia's logger, in order: (ASCII form of the text, kind, has lone surrogates)
    logged_all: list[list[Any]] = []  # nested runs: the same plus the outer run's own records (kind "outer"), in the order of logging
    for ln in (_read(out / "logged.jsonl") or "").splitlines():
        try:
            d = json.loads(ln)
            logged_all.append([json.dumps(d["t"]), d["k"], any(0xD800 <= ord(ch) <= 0xDFFF for ch in d["t"])])
        except (ValueError, KeyError):
            pass
    obs["logged"] = [x for x in logged_all if x[1] not in OTHER_KINDS]
    # ---- the other command of the process (an earlier run / the run beside the judged one): what it left behind, kept apart
    obs["loop_stuck"] = json.loads(_read(out / "loop-stuck.json") or "null")
    obs["lock_at_gather_hold"] = (_read(out / "lock-at-gather-hold") or "").strip() or None
    obs["others"] = {}
    for which in ("prior", "second"):
        if not spec.get("prior" if which == "prior" else "gather"):
            continue
        od: dict[str, Any] = {"returned": json.loads(_read(out / f"{which}-returned") or "null"), "escaped": _read(out / f"{which}-escaped"),
                              "ep_end": json.loads(_read(out / f"{which}-entry-point-end.json") or "null"), "ep_end_error": _read(out / f"{which}-entry-point-end.error"),
                              "lock_in_main": (_read(out / f"{which}-lock-in-main") or "").strip() or None,
                              "logged": [x for x in logged_all if x[1] == which], "meta_raw": None, "log": None, "log_at_ep_end": None}
        ab = other_art(rundir, which)
        dirs = sorted(ab.glob("*/run-*")) if ab.exists() else []
        od["artifact_dirs"] = [str(p) for p in dirs]
        if len(dirs) == 1:
            od["meta_raw"] = _read(dirs[0] / "META.json")
            if (dirs[0] / "log.json.zst").exists():
                od["log"] = analyze_log(dirs[0] / "log.json.zst", spec)
        if (out / f"{which}-log-at-entry-point-end.zst").exists():
            od["log_at_ep_end"] = analyze_log(out / f"{which}-log-at-entry-point-end.zst", spec)
        obs["others"][which] = od
    obs["hook_clock_scaled"] = (out / "hook-clock-scaled").exists()
    obs["db_initialised"] = (out / "db-initialised").exists()
    obs["db_initialise_failed"] = _read(out / "db-initialise-failed")
    obs["escaped"] = json.loads(_read(out / "escaped.json") or "null")
    obs["lock_at_fault"] = (_read(out / "lock-at-fault") or "").strip() or None
    obs["lock_after_entry_point"] = (_read(out / "lock-after-entry-point") or "").strip() or None
    obs["after_ep"] = json.loads(_read(out / "after-entry-point.json") or "null")
    obs["ecu_answers"] = int(_read(out / "ecu-answers") or 0)
    obs["ecu_rdbi_answers"] = int(_read(out / "ecu-rdbi-answers") or 0)
    try:
        obs["ecu_faulted"] = [int(x) for x in (_read(out / "ecu-faulted") or "0 0").split()]
    except ValueError:
        obs["ecu_faulted"] = [0, 0]
    for v in ("pre", "post"):
        raw = None
        try:
            raw = (out / f"hook-{v}.env").read_bytes()
        except OSError:
            pass
        if raw is None:
            obs[f"hook_{v}_env"] = None
        else:
            d: dict[str, str] = {}
            for item in raw.split(b"\0"):
                if b"=" in item:
                    k, _, val = item.partition(b"=")
                    d[k.decode(errors="replace")] = val.decode(errors="replace")
            obs[f"hook_{v}_env"] = {k: d[k] for k in d if k.startswith("GALLIA_")}
        obs[f"hook_{v}_lock"] = (_read(out / f"hook-{v}.lock") or "").strip() or None
        obs[f"hook_{v}_done"] = (out / f"hook-{v}.done").exists()
    # ---- lock after exit, from a second process (this one)
    if spec["lock"]:
        if paths["lock"].exists():
            fd = os.open(paths["lock"], os.O_RDONLY)
            try:
                fcntl.flock(fd, fcntl.LOCK_EX | fcntl.LOCK_NB)
                fcntl.flock(fd, fcntl.LOCK_UN)
                obs["lock_after_exit"] = "free"
            except BlockingIOError:
                obs["lock_after_exit"] = "held"
            finally:
                os.close(fd)
        else:
            obs["lock_after_exit"] = "no-file"
    # ---- artifacts dir
    rundirs = sorted(paths["art"].glob("*/run-*")) if paths["art"].exists() else []
    obs["artifact_dirs"] = [str(p) for p in rundirs]
    obs["meta_raw"] = None
    obs["log"] = None
    if len(rundirs) == 1:
        ad = rundirs[0]
        obs["meta_raw"] = _read(ad / "META.json")
        lf = ad / "log.json.zst"
        if lf.exists():
            obs["log"] = analyze_log(lf, spec)
    # ---- what the child saw and copied when entry_point() ended (None: the child never got that far)
    obs["ep_end"] = json.loads(_read(out / "entry-point-end.json") or "null")
    obs["ep_end_error"] = _read(out / "entry-point-end.error")
    obs["log_at_ep_end"] = None
    snap = out / "log-at-entry-point-end.zst"
    if snap.exists():
        obs["log_at_ep_end"] = analyze_log(snap, spec)
    # ---- database
    obs["run_meta"] = None
    outer_rows_same_db: list[dict[str, Any]] = []
    if paths["db"].exists():
        try:
            con = sqlite3.connect(f"file:{paths['db']}?mode=ro", uri=True, timeout=10)
            try:
                cur = con.execute("SELECT id, script, config, start_time, end_time, end_timezone, exit_code, path FROM run_meta")
                cols = [c[0] for c in cur.description]
                allrows = [dict(zip(cols, row)) for row in cur.fetchall()]
                obs["run_meta"] = [r for r in allrows if r["script"] not in (OTHER_WRITER, OUTER_COMMAND)]
                obs["run_meta_other_writer_rows"] = sum(1 for r in allrows if r["script"] == OTHER_WRITER)
                outer_rows_same_db = [r for r in allrows if r["script"] == OUTER_COMMAND]
                if spec.get("cli"):
                    obs["discovery_run"] = [list(r) for r in con.execute("SELECT id, protocol, meta FROM discovery_run").fetchall()]
                if spec.get("latesig") and obs.get("latesig") is not None:
                    obs["latesig"]["rows_written_finally"] = con.execute("SELECT count(*) FROM scan_result WHERE state LIKE ?", (f"%{BURST_TAG}%",)).fetchall()[0][0]
                    obs["latesig"]["scan_rows_finally"] = con.execute("SELECT count(*) FROM scan_result").fetchall()[0][0]
            finally:
                con.close()
        except sqlite3.Error as e:
            obs["run_meta_error"] = repr(e)
    # ---- nested runs: what the outer run (the Rerunner) left behind, kept apart from the inner run's observations above
    if spec.get("rerun"):
        r, op = spec["rerun"], outer_paths(rundir)
        o: dict[str, Any] = {"returned": json.loads(_read(out / "outer-returned") or "null"), "logged_all": logged_all,
                             "ep_end": json.loads(_read(out / "outer-entry-point-end.json") or "null"), "ep_end_error": _read(out / "outer-entry-point-end.error"),
                             "lock_after_entry_point": (_read(out / "outer-lock-after-entry-point") or "").strip() or None,
                             "meta_raw": None, "log": None, "log_at_ep_end": None, "run_meta": None, "lock_after_exit": None}
        dirs = sorted(op["art"].glob("*/run-*")) if op["art"].exists() else []
        o["artifact_dirs"] = [str(p) for p in dirs]
        if len(dirs) == 1:
            o["meta_raw"] = _read(dirs[0] / "META.json")
            if (dirs[0] / "log.json.zst").exists():
                o["log"] = analyze_log(dirs[0] / "log.json.zst", spec)
        if (out / "outer-log-at-entry-point-end.zst").exists():
            o["log_at_ep_end"] = analyze_log(out / "outer-log-at-entry-point-end.zst", spec)
        if r["lock"]:
            if op["lock"].exists():
                fd = os.open(op["lock"], os.O_RDONLY)
                try:
                    fcntl.flock(fd, fcntl.LOCK_EX | fcntl.LOCK_NB)
                    fcntl.flock(fd, fcntl.LOCK_UN)
                    o["lock_after_exit"] = "free"
                except BlockingIOError:
                    o["lock_after_exit"] = "held"
                finally:
                    os.close(fd)
            else:
                o["lock_after_exit"] = "no-file"
        if r["db"] == "same":
            o["run_meta"] = outer_rows_same_db if obs["run_meta"] is not None else None
        elif r["db"] == "own" and op["db"].exists():
            try:
                con = sqlite3.connect(f"file:{op['db']}?mode=ro", uri=True, timeout=10)
                try:
                    cur = con.execute("SELECT id, script, config, start_time, end_time, end_timezone, exit_code, path FROM run_meta")
                    cols = [c[0] for c in cur.description]
                    o["run_meta"] = [dict(zip(cols, row)) for row in cur.fetchall()]
                finally:
                    con.close()
            except sqlite3.Error as e:
                o["run_meta_error"] = repr(e)
        obs["outer"] = o
    return obs


# =================================================================================================
# oracle
# =================================================================================================
def expected_codes(spec: dict[str, Any]) -> set[int]:
    e = spec["exit"]
    if e in ("return", "exit0"):
        return {0}
    if e == "exit1":
        return {1}
    if e == "exit3":
        return {3}
    if e == "exitstr":
        return {1, 70}
    if e in ("connerr", "udserr"):
        return {74} if spec["kind"] in ("scanner", "uds") else {70, 74}
    if e in TDPROPS_EXITS:
        return {74}  # MissingResponse (UDSException) / ConnectionError out of UDSScanner.teardown
    if e == "runtime":
        return {70}
    return {130}  # kbdint, sigint


def recreate_config(command: str, config: dict[str, Any]) -> Any:
    """gallia.commands.script.rerun.Rerunner's way of turning (command, config) back into a CONFIG_TYPE"""
    import importlib

    define_commands()
    parts = command.split(".")
    cls = getattr(importlib.import_module(".".join(parts[:-1])), parts[-1])
    return cls, cls.CONFIG_TYPE(**config)


def times_in_window(meta: dict[str, Any], epe: dict[str, Any] | None, prior: dict[str, Any] | None, whose: str, hit: Any) -> list[tuple[str, str]]:
    """'META.json carries the start/end times' of this run: the start time is not earlier than the moment before the command object was created, the
    end time not later than the moment entry_point() had ended (both noted by the harness in the same process, same clock), and a run that came
    after another run of the same process did not start before that one had ended."""
    out: list[tuple[str, str]] = []
    st, en = datetime.fromisoformat(meta["start_time"]), datetime.fromisoformat(meta["end_time"])
    if st.tzinfo is None or en.tzinfo is None:
        return out
    if epe and epe.get("created") and epe.get("ended"):
        c0, c1 = datetime.fromisoformat(epe["created"]), datetime.fromisoformat(epe["ended"])
        hit("meta.times_checked_against_run_window")
        if st < c0:
            out.append(("meta/times-invalid/start-before-command-was-created", f"META.json{whose} says the run started at {meta['start_time']}; the command object of this run was created only at "
                        f"{epe['created']} ({(c0 - st).total_seconds():.3f} s later; noted right before BaseCommand.__init__ ran), its entry_point() ended at {epe['ended']}"))
        if en > c1:
            out.append(("meta/times-invalid/end-after-entry-point-ended", f"META.json{whose} says the run ended at {meta['end_time']}; its entry_point() had ended by {epe['ended']}"))
    pe = ((prior or {}).get("ep_end") or {}).get("ended")
    if pe:
        hit("prior.later_run.start_time_checked")
        if st < datetime.fromisoformat(pe):
            pm = None
            try:
                pm = json.loads(prior.get("meta_raw") or "null")  # type: ignore[union-attr]
            except ValueError:
                pass
            out.append((f"meta/times-invalid/start-before-earlier-run-ended/{PRIOR_COND}", f"META.json{whose} says the run started at {meta['start_time']}, but the process had run another command before, "
                        f"whose entry_point() ended only at {pe} ({(datetime.fromisoformat(pe) - st).total_seconds():.3f} s later), and the command object of this run was created after that"
                        + (f"; META.json of the earlier run: start {pm.get('start_time')} end {pm.get('end_time')}" + (" - the same start time" if pm.get("start_time") == meta["start_time"] else "") if isinstance(pm, dict) else "")))
    return out


def judge_other(spec: dict[str, Any], obs: dict[str, Any], which: str, reach: Any = None) -> list[tuple[str, str]]:
    """The artefact oracle for the other command of the process: the earlier run ("prior") or the run beside the judged one ("second"). A plain
    AsyncScript that ends by return or sys.exit(n): entry_point() returns n, META.json (artifacts dir on) says n and carries this run's times, the log is
    closed and readable and holds its two records when entry_point() has ended, no log handler stays attached, the lock (second) was held in main()."""
    cond = PRIOR_COND if which == "prior" else GATHER_COND

    def hit(name: str, n: int = 1) -> None:
        if reach is not None:
            reach(f"{'prior' if which == 'prior' else 'gather.second'}.{name}", n)

    v: list[tuple[str, str]] = []
    o = (obs.get("others") or {}).get(which)
    d = spec["prior"] if which == "prior" else spec["gather"]
    if o is None or obs.get("loop_stuck") or not obs["started"]:
        return v
    began = f"{which}_entry_point_begins" in obs["events"]
    if not began:
        hit("not_started")
        return v
    if o["escaped"] is not None:
        return [(f"entry_point/escaped-exception/{cond}", f"the entry_point() of the {which} command of the process raised instead of returning an exit code: {o['escaped']}")]
    if o["ep_end"] is None:
        hit("not_ended")  # the process ended before this run did (reported for the judged run)
        return v
    hit("exercised")
    want = int(d["code"])
    if o["returned"] != want:
        v.append((f"exit/code-differs/{cond}", f"the {which} command's entry_point() returned {o['returned']!r}; its main() " + (f"called sys.exit({want})" if want else "returned")))
    meta = None
    if d.get("art"):
        if len(o["artifact_dirs"]) != 1:
            v.append((f"meta/artifacts-dir-count/{cond}", f"{len(o['artifact_dirs'])} run directories below the artifacts base of the {which} command"))
        elif o["meta_raw"] is None:
            v.append((f"meta/missing/{cond}", f"artifacts dir configured for the {which} command but its META.json was not written"))
        else:
            try:
                meta = json.loads(o["meta_raw"])
                assert isinstance(meta, dict) and {"command", "start_time", "end_time", "exit_code", "config"} <= set(meta)
            except (ValueError, AssertionError):
                v.append(("meta/unparsable", f"META.json of the {which} command: {o['meta_raw'][:200]!r}"))
                meta = None
    elif o["artifact_dirs"]:
        v.append(("meta/artifacts-without-config", f"no artifacts dir configured for the {which} command but one was created"))
    if meta is not None:
        hit("meta_checked")
        if meta["exit_code"] != want:
            v.append((f"meta/exit-code-differs/{cond}", f"META.json of the {which} command says exit_code={meta['exit_code']!r}, its entry_point() returned {o['returned']!r}"))
        try:
            if not datetime.fromisoformat(meta["start_time"]) <= datetime.fromisoformat(meta["end_time"]):
                v.append(("meta/times-invalid/start-after-end", f"{which} command: start {meta['start_time']} > end {meta['end_time']}"))
            v.extend(times_in_window(meta, o["ep_end"], None, f" of the {which} command", hit))
        except (ValueError, TypeError):
            v.append(("meta/times-invalid/not-iso", f"{which} command: start={meta['start_time']!r} end={meta['end_time']!r}"))
    if d.get("art") and len(o["artifact_dirs"]) == 1:
        wanted = [t for t, _, sur in o["logged"] if not sur]
        for lg, when in ((o["log"], "file after the process ended"), (o["log_at_ep_end"], f"file as it is when the {which} command's entry_point() has ended")):
            have = {k for k, _ in v}
            found: list[tuple[str, str]] = []
            if lg is None:
                found.append((f"log/missing/{cond}", f"log.json.zst of the {which} command does not exist ({when})"))
            elif not lg.get("closed"):
                found.append((f"log/not-closed/{cond}", f"log.json.zst of the {which} command is not a complete zstd stream ({when}; {lg.get('size')} bytes on disk)"))
            elif "read_error" in lg:
                found.append((f"log/unreadable/{cond}", f"PenlogReader fails on the log of the {which} command ({when}): {lg['read_error']}"))
            else:
                hit("log_checked")
                missing = [t for t in wanted if t not in (lg.get("own") or [])]
                if missing:
                    found.append((f"log/records-missing/{cond}", f"{len(missing)} of the {len(wanted)} records the {which} command logged in its main() are not in its log ({when}); first missing: {missing[0][:120]}"))
            v.extend(f for f in found if f[0] not in have)
    epe = o["ep_end"]
    if (epe.get("log_file_handlers_left") or epe.get("queue_handlers_on_gallia")) and f"log/not-closed/{cond}" not in {k for k, _ in v}:
        v.append((f"log/handler-left-attached/{cond}", f"the {which} command's entry_point() has ended with {epe.get('log_file_handlers_left')} log file handler(s) in log_file_handlers and "
                  f"{epe.get('queue_handlers_on_gallia')} queue handler(s) still attached to the 'gallia' logger (the next run of the process would write into this run's log)"))
    if which == "second" and f"{which}_main" in obs["events"]:
        hit("lock_probed_in_main")
        if o["lock_in_main"] == "free":
            v.append((f"lock/not-held-during-run/{GATHER_COND}", "the lock file could be locked by somebody else while the second command's main() ran"))
    return v


def judge(spec: dict[str, Any], obs: dict[str, Any], rundir: Path, reach: Any = None) -> list[tuple[str, str]]:
    """-> [(key, what)]; keys name the mechanism"""
    def hit(name: str, n: int = 1) -> None:
        if reach is not None:
            reach(name, n)

    v: list[tuple[str, str]] = []
    kind, ex = spec["kind"], spec["exit"]
    real_sigint = bool(obs["sigint_delivered"])
    # discriminating condition used in keys: how the run ended, in four classes (not the individual exit kind)
    endclass = {"return": "return", "exit0": "sys-exit", "exit1": "sys-exit", "exit3": "sys-exit", "exitstr": "sys-exit",
                "connerr": "exception", "udserr": "exception", "runtime": "exception", "kbdint": "raised-KeyboardInterrupt"}
    cond = "real-sigint" if real_sigint else endclass.get(ex, "sigint-not-delivered")
    late = spec.get("latesig")
    if late and real_sigint:
        cond = LATESIG_COND  # the run had ended the way `ex` says; the Ctrl-C came while entry_point() was closing the database
    tdprops = spec["point"] == TDPROPS_POINT
    if tdprops:
        cond = TDPROPS_COND
    rc = obs["rc"]
    events = obs["events"]
    want = expected_codes(spec)
    esc = obs["escaped"]

    # ---- two runs side by side in one event loop: the loop stopped turning (seen from a thread outside it) - neither run can end any more
    g = spec.get("gather")
    if g and obs.get("loop_stuck"):
        ls = obs["loop_stuck"]
        holder, waiter = ("the judged command", "the second command") if g["role"] == "holder" else ("the second command", "the judged command")
        began = ("second" if g["role"] == "holder" else "A") + "_entry_point_begins"
        hit("gather.loop_stuck")
        return [(f"lock/waiting-for-lock-file-stalls-event-loop/{GATHER_COND}",
                 f"two commands in one event loop with the same lock file: {holder} ({kind if g['role'] == 'holder' else 'script'}) held the lock and sat suspended at "
                 f"{g['at'] if g['role'] == 'holder' else 'main'} when the entry_point() of {waiter} was started "
                 + ("(noted)" if began in events else "(not noted)") + f"; from then on the event loop did not turn for {ls.get('silent_for')} s (heartbeat task silent after {ls.get('heartbeats')} beats, "
                 f"watched from a thread; the process was then ended by the harness): the holder can never go on to its ending and release the lock, neither run ends - no exit code, "
                 f"no META.json, log not closed, lock not released. Main thread: {' <- '.join(reversed(ls.get('main_thread') or []))[:700]}")]
    # ---- an exception that leaves entry_point() is one mechanism; its consequences are listed, not keyed
    if esc is not None and not (real_sigint and esc["type"] == "KeyboardInterrupt"):
        hv = esc.get("hook_variant")
        if esc.get("func") == "run_hook" and hv:
            mode = spec[hv]
            cls = "failing-hook" if mode in ("fail", "failnoisy") else f"{mode}-hook"
            key = f"run_hook/{cls}/{esc['type']}/{hv}"
            sh = spec.get("slowhook") or {}
            cause = (f"{hv}-hook exiting non-zero" if mode in ("fail", "failnoisy") else
                     f"a {hv}-hook that does not fail but takes long (it sleeps {sh.get('sleep')} s"
                     + (f" while the clock of the subprocess module runs {sh.get('scale'):g} times faster: {float(sh.get('sleep', 0)) * float(sh.get('scale', 1)):g} s by that clock)" if obs.get("hook_clock_scaled") else " of real time)")
                     if mode == "slow" else f"a {mode} {hv}-hook")
            what = (f"{cause} makes run_hook raise {esc['type']} out of entry_point(): "
                    + ("the run is aborted before it starts, no META.json, log not closed" if hv == "pre" else
                       "the exit code of the run is replaced by the traceback's 1 and the lock is not released by the command"))
        else:
            key = f"entry_point/escaped-exception/{esc['type']}/{esc.get('func')}"
            what = f"{esc['type']} leaves entry_point() (innermost gallia frame {esc.get('func')}): {esc.get('text')}"
        return [(key, what)]
    if not obs["started"]:
        return [("harness/child-did-not-start", f"child rc={rc}: {obs['stderr'][-300:]}")]
    # ---- second writer on the shared database: was the end of this run really contended, and for how long?
    contended = False
    if spec.get("contend"):
        c = obs.get("contend") or {}
        if c.get("held", 0) > CONTEND_MAX_HELD:
            # the harness itself held the lock for too long (stalled machine): nothing this run shows can be blamed on the command
            hit("contend.discarded_held_too_long")
            return []
        contended = bool(c.get("locked")) and c.get("overlap", 0) >= CONTEND_MIN_OVERLAP
        hit("contend.judged" if contended else "contend.not_exercised")
        if contended:
            hit(f"contend.kind.{kind}")
            hit("contend.finished_only_after_release" if c.get("child_exited_while_locked_after") is None else "contend.finished_while_locked")

    # ---- Ctrl-C while entry_point() closes the database: did the signal really go out in that window?
    late_hit = False
    runentry_hit = False
    if late:
        li = obs.get("latesig") or {}
        aep = obs.get("after_ep") or {}
        if li.get("held", 0) > CONTEND_MAX_HELD:
            # the harness itself held the database's write lock for too long (stalled machine): nothing this run shows can be blamed on the command
            hit("latesig.run-entry-completion-window.discarded_held_too_long")
            return []
        if not li.get("sent"):
            hit("latesig.signal_not_sent")  # judged as the plain run it was
        elif li.get("window") == "db-sync":
            if li.get("db_close_entered_after") is None:
                # the command was not seen closing its database handler before the signal went out: where in its bookkeeping it was is unknown
                hit("latesig.discarded_db_close_not_seen")
                return []
            n = int(late["rows"])
            late_hit = f"rows_queued {n}" in events and li.get("rows_written_at_signal") is not None and li["rows_written_at_signal"] <= n - LATESIG_MARGIN
            hit("latesig.exercised" if late_hit else "latesig.signal_after_database_was_written")
            if late_hit:
                hit(f"latesig.kind.{kind}")
                hit(f"latesig.ending.{endclass.get(ex, ex)}")
        else:
            runentry_hit = bool(li.get("lock_held_at_signal")) and bool(li.get("interrupted_seen_while_locked")) and "run_meta_completion_interrupted" in events
            hit("latesig.run-entry-completion-window" if runentry_hit else "latesig.run-entry-completion-window.not_exercised")
            if runentry_hit:
                hit(f"latesig.run-entry-completion-window.kind.{kind}")
                idle = li.get("scan_rows_at_lock") is not None and li.get("scan_rows_at_lock") == li.get("scan_rows_finally")
                hit("latesig.run-entry-completion-window." + ("no-other-write-pending" if idle else "other-writes-pending"))
        if aep.get("db_connection_left_open"):
            # counted, not judged: the harness stops the connection's (non-daemon) worker thread after its observations, so the
            # process can end; whether the process would have ended by itself is not observed in these runs
            hit("latesig.db_connection_left_open_at_entry_point_end")
    # ---- the command left a forked helper process behind: was it alive when the lock file was probed after entry_point()?
    fh = spec.get("forkhelper")
    fh_hit = False
    if fh:
        aep = obs.get("after_ep") or {}
        fh_hit = any(e == f"helper_forked {fh['how']}" for e in events) and bool(aep.get("helper_alive_at_probe"))
        hit("forkhelper.exercised" if fh_hit else "forkhelper.not_exercised")
        if fh_hit:
            hit(f"forkhelper.how.{fh['how']}")
            hit(f"forkhelper.kind.{kind}")
            hit(f"forkhelper.at.{fh['at']}")
            hit("forkhelper.lock_probed_after_return", 1 if obs["returned"] is not None and obs["lock_after_entry_point"] in ("free", "held") else 0)

    # ---- two runs side by side in one event loop: did the other entry_point() really begin while the holder sat suspended with the lock, and did the
    # waiter's lifecycle begin only after the holder's entry_point() had ended?
    if g:
        hold_ev = f"gather_hold {'A ' + g['at'] if g['role'] == 'holder' else 'second main'}"
        began_ev, holder_end, waiter_start = (("second_entry_point_begins", "A_entry_point_ended", "second_main") if g["role"] == "holder" else
                                              ("A_entry_point_begins", "second_entry_point_ended", "setup_pre"))
        idx = {e: events.index(e) for e in (hold_ev, began_ev, "gather_loop_turns_after_other_began", "gather_hold_over", holder_end, waiter_start) if e in events}
        g_hit = (len(idx) == 6 and idx[hold_ev] < idx[began_ev] < idx["gather_loop_turns_after_other_began"] < idx["gather_hold_over"] < idx[holder_end]
                 and obs.get("lock_at_gather_hold") == "held")
        hit("gather.exercised" if g_hit else "gather.not_exercised")
        if g_hit:
            hit(f"gather.role.{g['role']}")
            hit(f"gather.kind.{kind}")
            hit("gather.waiter_began_after_holder_ended", 1 if idx[holder_end] < idx[waiter_start] else 0)
        if holder_end in idx and waiter_start in idx and idx[waiter_start] < idx[holder_end]:
            v.append((f"lock/not-held-during-run/{GATHER_COND}", f"two commands in one event loop with the same lock file: the lifecycle of the one that had to wait for the lock began "
                      f"({waiter_start}) before the entry_point() of the one holding it had ended ({holder_end}); events: {events[:40]}"))
    hit("fault.point_reached", 1 if "fault" in events else 0)
    # ---- the command changed an option of its own config object while it ran: did that really happen in this run?
    cfgmut_field = next((e.split(" ", 1)[1] for e in events if e.startswith("config_modified ")), None)
    cfgmut_hit = bool(spec.get("cfgmut")) and cfgmut_field is not None
    if spec.get("cfgmut"):
        hit("cfgmut.exercised" if cfgmut_hit else "cfgmut.not_exercised")
        if cfgmut_hit:
            hit(f"cfgmut.kind.{kind}")
            hit(f"cfgmut.field.{cfgmut_field}")
            hit(f"cfgmut.at.{spec['cfgmut']['at']}")
    # ---- the command gave its database handler away and took it back: did that really happen (and complete) in this run?
    dbcycled = False
    if spec.get("dbcycle"):
        if any(e.startswith("db_cycle_error") for e in events):
            # disconnect()/connect() themselves raised: whatever follows is the consequence of that exception, not of a run that
            # reconnected. Not judged; the reach counters below keep such runs from counting as exercised.
            hit("dbcycle.cycle_failed")
            return []
        n_dis, n_re = events.count("db_disconnected"), events.count("db_reconnected")
        dbcycled = n_re >= 1 and n_dis == n_re == spec["dbcycle"]["n"] and events.index("db_disconnected") < events.index("db_reconnected")
        hit("dbcycle.exercised" if dbcycled else "dbcycle.not_exercised")
        if dbcycled:
            hit(f"dbcycle.kind.{kind}")
            hit(f"dbcycle.at.{spec['dbcycle']['at']}")
            hit("dbcycle.other_writer_wrote_in_between", 1 if "db_other_writer_wrote" in events else 0)
    # ---- ECU failing for the properties read of UDSScanner.teardown: did a properties request really meet the failing ECU?
    tdprops_hit = False
    if tdprops:
        tdprops_hit = "fault" in events and "teardown_super_enter" in events and obs["ecu_faulted"][1] >= 1
        hit(f"tdprops.exercised.{ex}" if tdprops_hit else "tdprops.not_exercised")
        if not tdprops_hit:
            want = want | {0}  # nothing asked the failing ECU for anything: a clean end is as good as the error
    # ---- process exit status
    ok_rc = want | ({-signal.SIGINT} if real_sigint else set())
    if late and real_sigint:
        # the run was over when the Ctrl-C came: the process may end with the run's own code or as interrupted
        ok_rc = want | {128 + signal.SIGINT, -signal.SIGINT}
    if rc not in ok_rc:
        if tdprops:
            v.append((f"exit/code-differs/{cond}", f"process ended with {rc}, documented mapping says {sorted(want)}: the ECU "
                      + ("stopped answering" if ex == "ecusilent" else "closed the connection") + f" when UDSScanner.teardown read the ECU properties "
                      f"({obs['ecu_faulted'][1]} ReadDataByIdentifier request(s) met the failing ECU; timeout {spec.get('uds_timeout')} s, {spec.get('uds_retries')} retries), "
                      "an expected UDS/connection error raised in teardown"))
        else:
            v.append((f"exit/code-differs/{ex if not real_sigint else cond}", f"process ended with {rc}, documented mapping says {sorted(want)} for {ex} in a {kind} command"))
    eff = 130 if real_sigint else rc  # the code every record has to carry
    if late and real_sigint and rc not in (128 + signal.SIGINT, -signal.SIGINT):
        eff = rc  # the process ended with the code of the finished run: that is what the records have to say

    # ---- hooks: ran, environment contract, failing hook reported and harmless
    for hv in ("pre", "post"):
        mode = spec[hv]
        if mode == "none":
            continue
        env = obs[f"hook_{hv}_env"]
        if env is None:
            if hv == "post" and real_sigint:
                hit("sigint.post_hook_not_run")
                continue
            v.append((f"hook/not-run/{hv}", f"configured {hv}-hook was not executed"))
            continue
        hit("hook.env_checked")
        # the process may have started with hook variables of another gallia run in its environment (it was launched from that run's post-hook):
        # a hook of this run that is handed exactly the other run's value got it from there
        inherited = set((spec.get("staleenv") or {}).get("vars", []))

        def hcond(name: str, otherwise: str) -> str:
            return STALE_COND if name in inherited and env.get(name) == STALE_ENV[name] else otherwise

        def hnote(name: str) -> str:
            return (f" - that is the {name} this process was started with in its own environment (the value of another gallia run, as when gallia is launched from that run's post-hook), "
                    "not what this run has to tell its hook" if hcond(name, "") else "")

        if env.get("GALLIA_HOOK") != hv:
            v.append((f"hook/env/GALLIA_HOOK/{hcond('GALLIA_HOOK', hv)}", f"GALLIA_HOOK={env.get('GALLIA_HOOK')!r} in the {hv}-hook" + hnote("GALLIA_HOOK")))
        if spec["art"] and obs["artifact_dirs"] and env.get("GALLIA_ARTIFACTS_DIR") != obs["artifact_dirs"][0]:
            v.append((f"hook/env/GALLIA_ARTIFACTS_DIR/{hcond('GALLIA_ARTIFACTS_DIR', hv)}", f"GALLIA_ARTIFACTS_DIR={env.get('GALLIA_ARTIFACTS_DIR')!r}, artifacts are in {obs['artifact_dirs'][0]}" + hnote("GALLIA_ARTIFACTS_DIR")))
        if "GALLIA_INVOCATION" not in env:
            v.append((f"hook/env/GALLIA_INVOCATION/{hv}", "GALLIA_INVOCATION not set"))
        elif hcond("GALLIA_INVOCATION", ""):
            v.append((f"hook/env/GALLIA_INVOCATION/{STALE_COND}", f"GALLIA_INVOCATION={env.get('GALLIA_INVOCATION')!r} in the {hv}-hook" + hnote("GALLIA_INVOCATION")))
        if hv == "post":
            if inherited:
                hit("staleenv.post_hook_env_checked")
                hit("staleenv.post_hook_env_checked.with_meta_json", 1 if obs["meta_raw"] is not None else 0)
            if env.get("GALLIA_EXIT_CODE") != str(eff):
                v.append((f"hook/env/GALLIA_EXIT_CODE/{hcond('GALLIA_EXIT_CODE', cond)}", f"post-hook saw GALLIA_EXIT_CODE={env.get('GALLIA_EXIT_CODE')!r}, process ended with {rc}" + hnote("GALLIA_EXIT_CODE")))
            try:
                hm = json.loads(env.get("GALLIA_META", ""))
                if hcond("GALLIA_META", ""):
                    v.append((f"hook/env/GALLIA_META/{STALE_COND}", f"post-hook saw GALLIA_META={env.get('GALLIA_META')!r:.160}" + hnote("GALLIA_META")
                              + (f"; META.json of this run: {obs['meta_raw']:.160}" if obs["meta_raw"] is not None else "")))
                elif hm.get("exit_code") != eff:
                    v.append((f"hook/env/GALLIA_META/exit-code-differs/{cond}", f"GALLIA_META.exit_code={hm.get('exit_code')!r}, process ended with {rc}"))
                if obs["meta_raw"] is not None and hm != json.loads(obs["meta_raw"]) and not hcond("GALLIA_META", ""):
                    v.append(("hook/env/GALLIA_META/differs-from-META.json", "GALLIA_META is not the content of META.json"))
            except ValueError:
                v.append(("hook/env/GALLIA_META/not-json", f"GALLIA_META={env.get('GALLIA_META')!r:.200}"))
        if spec["lock"] and obs[f"hook_{hv}_lock"] == "free":
            v.append((f"lock/not-held-during-hook/{hv}", f"lock file could be locked by the {hv}-hook while the command was running"))
        if mode == "slow":
            # a hook that takes long is not a failing hook: it is run to its end and the run goes on as if it had been quick
            sh = spec.get("slowhook") or {}
            if obs.get(f"hook_{hv}_done"):
                hit(f"slowhook.completed.{hv}")
                hit(f"slowhook.{sh.get('flavour')}.completed")
                if sh.get("flavour") == "scaled":
                    hit("slowhook.clock_scaled", 1 if obs.get("hook_clock_scaled") else 0)
            else:
                v.append((f"hook/slow-hook-cut-short/{hv}", f"the {hv}-hook was started but not allowed to finish (it sleeps {sh.get('sleep')} s and exits 0)"))
            if hv == "pre" and "setup_pre" not in events:
                v.append(("hook/slow-hook-aborts-run/pre", "the pre-hook took long and the command's setup() never ran"))
        if mode in ("fail", "failnoisy"):
            hit(f"hook.failing.{hv}")
            reported = any(f"{hv}-hook" in ln and "fail" in ln for ln in obs["stderr"].splitlines())
            if not reported and obs["log"]:
                reported = any(f"{hv}-hook" in r for r in obs["log"].get("hook_reports", []))
            if not reported:
                v.append((f"hook/failing-not-reported/{hv}", f"{hv}-hook exited non-zero but neither stderr nor the log file mention it"))
            if hv == "pre" and "setup_pre" not in events:
                v.append(("hook/failing-aborts-run/pre", "pre-hook exited non-zero and the command's setup() never ran"))

    # ---- META.json
    meta = None
    if spec["art"]:
        if len(obs["artifact_dirs"]) != 1:
            v.append((f"meta/artifacts-dir-count/{cond}", f"{len(obs['artifact_dirs'])} run directories below the artifacts base"))
        elif obs["meta_raw"] is None:
            v.append((f"meta/missing/{cond}", "artifacts dir configured but META.json was not written"))
        else:
            try:
                meta = json.loads(obs["meta_raw"])
                assert isinstance(meta, dict) and {"command", "start_time", "end_time", "exit_code", "config"} <= set(meta)
            except (ValueError, AssertionError):
                v.append(("meta/unparsable", f"META.json content: {obs['meta_raw'][:200]!r}"))
                meta = None
    elif obs["artifact_dirs"]:
        v.append(("meta/artifacts-without-config", "no artifacts dir configured but one was created"))
    if meta is not None:
        hit("meta.parsed")
        if tdprops_hit:
            hit("tdprops.meta_checked")
        if late_hit:
            hit("latesig.meta_checked")
        if meta["exit_code"] != eff:
            v.append((f"meta/exit-code-differs/{cond}", f"META.json says exit_code={meta['exit_code']!r}, the process ended with {rc}" + (" (SIGINT; must be 130)" if real_sigint else "")))
        try:
            st, en = datetime.fromisoformat(meta["start_time"]), datetime.fromisoformat(meta["end_time"])
            if not st <= en:
                v.append(("meta/times-invalid/start-after-end", f"start {meta['start_time']} > end {meta['end_time']}"))
            v.extend(times_in_window(meta, obs.get("ep_end"), (obs.get("others") or {}).get("prior"), "", hit))
        except (ValueError, TypeError):
            v.append(("meta/times-invalid/not-iso", f"start={meta['start_time']!r} end={meta['end_time']!r}"))
        try:
            cls, cfg = recreate_config(meta["command"], meta["config"])
            orig = build_config(spec, rundir)
            hit("config.recreated")
            if cfgmut_hit:
                hit("cfgmut.meta_config_checked")
            if cls.__name__ != CLASS_NAMES[kind] or type(cfg) is not type(orig) or cfg.model_dump_json() != orig.model_dump_json():
                if cfgmut_hit and type(cfg) is type(orig):
                    a, b = json.loads(cfg.model_dump_json()), json.loads(orig.model_dump_json())
                    diff = {k: (a.get(k), b.get(k)) for k in sorted(set(a) | set(b)) if a.get(k) != b.get(k)}
                    v.append((f"meta/config-differs/{CFGMUT_COND}", f"the config in META.json is not the config the run was started with (option: (META.json, started with)): {diff}; the command had "
                              f"assigned a new value to {cfgmut_field} of its own config object at {spec['cfgmut']['at']}, after having used the value it was started with - re-running from this "
                              "META.json re-creates a different run" + ("; run_meta.config in the database has the values the run was started with" if spec["db"] else "")))
                else:
                    v.append(("meta/config-differs", f"config re-created from META.json differs: {cfg.model_dump_json()[:300]} vs {orig.model_dump_json()[:300]}"))
        except Exception as e:  # noqa: BLE001
            v.append((f"meta/config-not-recreatable/{type(e).__name__}", f"CONFIG_TYPE(**META.config) fails: {e!r:.300}"))

    # ---- every record the command logged before the run ended must be in the log ("fully readable"): the harness noted each text
    # after gallia's logger had taken it. A text that is not a sequence of Unicode scalar values (lone surrogates) is itself not
    # looked for; the records before and after it are.
    logged = obs.get("logged") or []
    lt = spec.get("logtext")
    lt_logged = lt is not None and f"logtext {lt['class']}" in events
    seqdisc = f"text-{lt['class']}" if lt_logged else cond

    def sequence(lgx: dict[str, Any], when: str, counter: str) -> list[tuple[str, str]]:
        out: list[tuple[str, str]] = []
        own = lgx.get("own")
        if own is None or not logged:
            return out
        hit(counter)
        wanted = [t for t, k, sur in logged if not sur]
        missing = [t for t in wanted if t not in own]
        if lt_logged:
            after = [k for _, k, _ in logged]
            after = after[after.index(f"text:{lt['class']}") + 1:]
            if counter == "log.sequence_checked":  # once per run
                hit("logtext.checked.surrogates" if lt["class"] in TEXT_SURROGATE else "logtext.checked.scalar-text")
                hit(f"logtext.class.{lt['class']}")
                hit("logtext.records_logged_after_text", 1 if after else 0)
        if missing:
            textrec = [t for t, k, _ in logged if k.startswith("text:")]
            only_text = lt_logged and all(t in textrec for t in missing)
            first = missing[0]
            if only_text:
                out.append((f"log/text-record-differs/{lt['class']}", f"the record of text class {lt['class']} the command logged is not in the log file with the text it was logged with ({when}); "
                            f"logged {first[:160]}, records of that logger in the file: {[o[:80] for o in own if 'C15-TEXT' in o][:2]}"))
            else:
                pos = [t for t, _, _ in logged].index(first)
                before = [k for _, k, _ in logged[:pos]]
                out.append((f"log/records-missing/{seqdisc}", f"{len(missing)} of the {len(wanted)} records the command logged before the run ended are not in the log file ({when}); "
                            f"first missing: {first[:120]} (record {pos + 1} of {len(logged)} logged"
                            + (f", logged after the record of text class {lt['class']}" if lt_logged and f"text:{lt['class']}" in before else "") + f"); the file holds {len(own)} record(s) of that logger"))
        else:
            it = iter(own)
            if not all(t in it for t in wanted):
                out.append((f"log/records-out-of-order/{seqdisc}", f"the records the command logged are all in the log file but not in the order they were logged ({when})"))
        return out

    # ---- log file
    if spec["art"] and len(obs["artifact_dirs"]) == 1:
        lg = obs["log"]
        if lg is None:
            v.append((f"log/missing/{cond}", "artifacts dir configured but log.json.zst does not exist"))
        else:
            if not lg.get("closed"):
                v.append((f"log/not-closed/{cond}", f"log.json.zst is not a complete zstd stream ({lg.get('size')} bytes on disk)"))
            if "read_error" in lg:
                v.append((f"log/unreadable/{cond}", f"PenlogReader fails: {lg['read_error']}"))
            else:
                hit("log.decoded")
                if lg["records"] != lg["lines"] or lg["records"] == 0:
                    v.append(("log/record-count", f"{lg['records']} records decoded from {lg['lines']} lines"))
                if "fault" in events:
                    if lg["marker"]:
                        hit("log.marker_found")
                    else:
                        v.append((f"log/marker-missing/{cond}", "the last record logged before the fault is not in the log file"))
                v.extend(sequence(lg, "file after the process ended", "log.sequence_checked"))
    # ---- log file as the command left it: the copy the child took when entry_point() returned or raised. (After the process
    # ended the file can look fine only because the interpreter's logging.shutdown() closed a handler the command left open.)
    epe = obs.get("ep_end")
    if epe is not None:
        have = {k for k, _ in v}

        def add(key: str, what: str) -> None:
            if key not in have:  # the same mechanism may already have been seen on the file after exit
                v.append((key, what))

        how = "raised" if obs["returned"] is None else "returned"
        hit("log.handlers_checked_at_entry_point_end")
        not_closed = False
        if spec["art"] and len(obs["artifact_dirs"]) == 1:
            hit("log.checked_at_entry_point_end")
            hit(f"log.checked_at_entry_point_end.{cond}")
            ls = obs["log_at_ep_end"]
            if ls is None:
                if obs["log"] is not None:
                    add(f"log/missing/{cond}", f"log.json.zst did not exist yet when entry_point() {how}")
            elif not ls.get("closed"):
                not_closed = True
                add(f"log/not-closed/{cond}", f"log.json.zst is not a complete zstd stream when entry_point() has {how} ({ls.get('size')} bytes on disk, "
                    f"{epe.get('log_file_handlers_left')} log file handler(s) still open, {epe.get('queue_handlers_on_gallia')} queue handler(s) still attached to the 'gallia' logger); "
                    f"after the process ended the file has {(obs['log'] or {}).get('size')} bytes and is "
                    + ("complete, but only because the interpreter's logging.shutdown() closed the handler at exit" if (obs["log"] or {}).get("closed") else "still incomplete"))
            elif "read_error" in ls:
                add(f"log/unreadable/{cond}", f"PenlogReader fails on the log file as it is when entry_point() has {how}: {ls['read_error']}")
            else:
                hit("log.decoded_at_entry_point_end")
                if ls["records"] != ls["lines"] or ls["records"] == 0:
                    add("log/record-count", f"{ls['records']} records decoded from {ls['lines']} lines (log file as it is when entry_point() has {how})")
                if "fault" in events:
                    if ls["marker"]:
                        hit("log.marker_found_at_entry_point_end")
                    else:
                        add(f"log/marker-missing/{cond}", f"the last record logged before the fault is not in the log file when entry_point() has {how}")
                for key, what in sequence(ls, f"file as it is when entry_point() has {how}", "log.sequence_checked_at_entry_point_end"):
                    add(key, what)
        if not not_closed and (epe.get("log_file_handlers_left") or epe.get("queue_handlers_on_gallia")):
            add(f"log/handler-left-attached/{cond}", f"entry_point() has {how} with {epe.get('log_file_handlers_left')} log file handler(s) in log_file_handlers and "
                f"{epe.get('queue_handlers_on_gallia')} queue handler(s) still attached to the 'gallia' logger (a later run in the same process would write into this run's log)")
    elif obs.get("ep_end_error"):
        hit("harness.entry_point_end_observation_failed")

    # ---- database
    if spec["db"]:
        rows = obs["run_meta"]
        if rows is None or len(rows) != 1:
            v.append((f"run_meta/row-count/{cond}", f"run_meta rows: {None if rows is None else len(rows)} ({obs.get('run_meta_error', '')})"))
        else:
            hit("run_meta.rows_read")
            if spec.get("dbstate") and (spec["dbstate"] != "initialised" or (obs.get("db_initialised") and obs.get("run_meta_other_writer_rows"))):
                hit(f"dbstate.{spec['dbstate']}.run_meta_checked")  # the state the database path was in before the run
            if tdprops_hit:
                hit("tdprops.run_meta_checked")
            if dbcycled:
                hit("dbcycle.run_meta_checked")
            if late_hit:
                hit("latesig.run_meta_checked")
            if runentry_hit:
                hit("latesig.run-entry-completion-window.run_meta_checked")
            row = rows[0]
            reached = "teardown_super_done" in events and kind in ("scanner", "uds")
            where = "scanner-teardown" if reached else ("scanner-teardown-entered" if "teardown_super_enter" in events and kind != "script" else "other")
            if dbcycled:
                where = DBCYCLE_WHERE
            if row["end_time"] is None and contended:
                c = obs["contend"]
                v.append((CONTEND_KEY, f"run_meta.end_time is NULL (exit_code {row['exit_code']!r}) after the process ended with {rc}: another writer held the "
                          f"shared database's write lock for {c['held']} s ({c['overlap']} s of it after the command was told to finish)"
                          + ("" if c.get("child_exited_while_locked_after") is None else f" and the process ended {c['child_exited_while_locked_after']} s into it, without waiting for the lock")))
            elif row["end_time"] is None and runentry_hit:
                li = obs["latesig"]
                v.append(("run_meta/end_time-null/ctrl-c-while-run-entry-is-completed", f"run_meta.end_time is NULL (exit_code {row['exit_code']!r}) after the process ended with {rc}: "
                          f"run() was over ({ex}), another writer held the shared database's write lock ({li.get('held')} s in all, far below the handler's 10 s busy timeout) when the command "
                          f"called complete_run_meta(), the Ctrl-C sent {li.get('sent_after_run_end')} s after the end of run() ended that call with CancelledError while the lock was still held, "
                          "then the lock was released; META.json " + (f"says exit_code {meta['exit_code']!r} with an end time" if meta is not None else "is not configured")))
            elif row["end_time"] is None:
                v.append((f"run_meta/end_time-null/{where}", f"run_meta.end_time is NULL (exit_code {row['exit_code']!r}) after the process ended with {rc}"
                          + (f"; the command had disconnected its database handler and connected it again {spec['dbcycle']['n']} time(s) at {spec['dbcycle']['at']} "
                             "(the connect/disconnect cycle of gallia's DoIP discoverer) and was connected when the run ended" if dbcycled else "")))
            else:
                if row["exit_code"] != eff:
                    v.append((f"run_meta/exit-code-differs/{cond}", f"run_meta.exit_code={row['exit_code']!r}, the process ended with {rc}"))
                if not row["start_time"] <= row["end_time"]:
                    v.append(("run_meta/times-invalid", f"start {row['start_time']} > end {row['end_time']}"))
            try:
                _, cfg = recreate_config(row["script"], json.loads(row["config"]))
                if cfgmut_hit:
                    hit("cfgmut.run_meta_config_checked")
                if cfg.model_dump_json() != build_config(spec, rundir).model_dump_json():
                    v.append(("run_meta/config-differs" + (f"/{CFGMUT_COND}" if cfgmut_hit else ""), "config re-created from run_meta differs from the config the run was started with"
                              + (f" (the command had assigned a new value to {cfgmut_field} of its own config object at {spec['cfgmut']['at']})" if cfgmut_hit else "")))
            except Exception as e:  # noqa: BLE001
                v.append((f"run_meta/config-not-recreatable/{type(e).__name__}", f"{e!r:.300}"))
    elif obs["run_meta"]:
        v.append(("run_meta/db-without-config", "no database configured but one was written"))

    # ---- lock
    if spec["lock"]:
        hit("lock.probed_after_exit")
        if obs.get("lock_after_exit") != "free":
            v.append(("lock/held-after-exit", f"lock file state after the process ended: {obs.get('lock_after_exit')}"))
        if obs["returned"] is not None and obs["lock_after_entry_point"] == "held":
            v.append(("lock/held-after-return", "entry_point() returned but the lock file is still locked"
                      + (f" (a helper process the command had forked at {fh['at']} by {fh['how']} was alive at that moment: it shares the command's open lock file)" if fh_hit else "")))
        for probe in ("lock_at_fault", "lock_parent_probe_during_run"):
            if obs.get(probe) is not None:
                hit("lock.probed_during_run")
                if obs[probe] == "free":
                    v.append(("lock/not-held-during-run", f"lock file could be locked by somebody else while the command was running ({probe})"))
    return v


def judge_outer(spec: dict[str, Any], obs: dict[str, Any], rundir: Path, reach: Any = None) -> list[tuple[str, str]]:
    """Nested runs: the artefact oracle for the outer run (gallia's Rerunner), whose main() awaited the entry_point() of the command it
    re-created. Its exit code is the inner run's (the Rerunner ends with sys.exit(<what the inner entry_point() returned>)); META.json, log,
    run_meta row and lock file are its own. Its log handler was attached from before the inner command existed until after it had ended:
    every record the harness logged in that time (the outer run's two records and all records of the inner run) belongs into its log."""
    def hit(name: str, n: int = 1) -> None:
        if reach is not None:
            reach(f"rerun.{name}", n)

    v: list[tuple[str, str]] = []
    o, r = obs.get("outer"), spec["rerun"]
    real_sigint = bool(obs["sigint_delivered"])
    esc = obs["escaped"]
    if o is None or not obs["started"] or (esc is not None and not (real_sigint and esc["type"] == "KeyboardInterrupt")):
        return v  # reported by judge() as one mechanism
    events, rc = obs["events"], obs["rc"]
    began = "inner_entry_point_begins" in events
    exercised = began and "outer_setup" in events and "inner_entry_point_ended" in events
    hit("exercised" if exercised else "not_exercised")
    if exercised:
        hit(f"kind.{spec['kind']}")
        hit("both_logs_open", 1 if r["art"] and spec["art"] and obs["log"] is not None and o["log"] is not None else 0)
        hit("shared_database", 1 if r["db"] == "same" else 0)
    eff = 130 if real_sigint else rc
    if not real_sigint:
        if began and obs["returned"] is None:
            v.append(("entry_point/escaped-exception/inner-of-nested-run", f"the entry_point() of the command the Rerunner re-created raised instead of returning an exit code "
                      f"(the Rerunner's own run ended with {o['returned']!r})"))
        elif isinstance(obs["returned"], int) and o["returned"] != obs["returned"]:
            v.append((f"exit/code-differs/{OUTER_COND}", f"the Rerunner's entry_point() returned {o['returned']!r}; it ends with sys.exit(n), n = {obs['returned']!r} "
                      "being what the re-created command's entry_point() returned"))
    # ---- META.json of the outer run
    meta = None
    if r["art"]:
        if len(o["artifact_dirs"]) != 1:
            v.append((f"meta/artifacts-dir-count/{OUTER_COND}", f"{len(o['artifact_dirs'])} run directories below the outer run's artifacts base"))
        elif o["meta_raw"] is None:
            v.append((f"meta/missing/{OUTER_COND}", "artifacts dir configured for the Rerunner but its META.json was not written"))
        else:
            try:
                meta = json.loads(o["meta_raw"])
                assert isinstance(meta, dict) and {"command", "start_time", "end_time", "exit_code", "config"} <= set(meta)
            except (ValueError, AssertionError):
                v.append(("meta/unparsable", f"META.json of the outer run: {o['meta_raw'][:200]!r}"))
                meta = None
    elif o["artifact_dirs"]:
        v.append(("meta/artifacts-without-config", "no artifacts dir configured for the outer run but one was created"))
    want_cfg = None
    try:
        want_cfg = build_outer_config(spec, rundir).model_dump_json()
    except Exception:  # noqa: BLE001
        pass
    if meta is not None:
        hit("outer.meta_checked")
        if meta["exit_code"] != eff:
            v.append((f"meta/exit-code-differs/{OUTER_COND}", f"META.json of the Rerunner's run says exit_code={meta['exit_code']!r}, the process ended with {rc}" + (" (SIGINT; must be 130)" if real_sigint else "")))
        try:
            if not datetime.fromisoformat(meta["start_time"]) <= datetime.fromisoformat(meta["end_time"]):
                v.append(("meta/times-invalid/start-after-end", f"outer run: start {meta['start_time']} > end {meta['end_time']}"))
            v.extend(times_in_window(meta, o["ep_end"], None, " of the Rerunner's run", lambda name, n=1: hit("outer." + name.replace("meta.", ""), n)))
        except (ValueError, TypeError):
            v.append(("meta/times-invalid/not-iso", f"outer run: start={meta['start_time']!r} end={meta['end_time']!r}"))
        try:
            cls, cfg = recreate_config(meta["command"], meta["config"])
            if cls.__name__ != OUTER_CLASS or cfg.model_dump_json() != want_cfg:
                v.append(("meta/config-differs", f"config re-created from the outer run's META.json differs: {cfg.model_dump_json()[:300]} vs {str(want_cfg)[:300]}"))
        except Exception as e:  # noqa: BLE001
            v.append((f"meta/config-not-recreatable/{type(e).__name__}", f"outer run: CONFIG_TYPE(**META.config) fails: {e!r:.300}"))
    # ---- log of the outer run: after the process ended, and as the Rerunner left it when its entry_point() ended
    if r["art"] and len(o["artifact_dirs"]) == 1:
        wanted = [t for t, _, sur in o["logged_all"] if not sur]
        how = "raised" if o["returned"] is None else "returned"
        for lg, when, counter in ((o["log"], "file after the process ended", "outer.log_checked"), (o["log_at_ep_end"], f"file as it is when the Rerunner's entry_point() has {how}", "outer.log_checked_at_entry_point_end")):
            have = {k for k, _ in v}
            found: list[tuple[str, str]] = []
            if lg is None:
                if counter == "outer.log_checked" or o["ep_end"] is not None:
                    found.append((f"log/missing/{OUTER_COND}", f"the outer run's log.json.zst does not exist ({when})"))
            else:
                hit(counter)
                if not lg.get("closed"):
                    found.append((f"log/not-closed/{OUTER_COND}", f"the outer run's log.json.zst is not a complete zstd stream ({when}; {lg.get('size')} bytes on disk)"))
                if "read_error" in lg:
                    found.append((f"log/unreadable/{OUTER_COND}", f"PenlogReader fails on the outer run's log ({when}): {lg['read_error']}"))
                else:
                    if lg["records"] != lg["lines"] or lg["records"] == 0:
                        found.append(("log/record-count", f"outer run: {lg['records']} records decoded from {lg['lines']} lines ({when})"))
                    own = lg.get("own") or []
                    if wanted:
                        hit(counter.replace("log_checked", "log_sequence_checked"))
                        missing = [t for t in wanted if t not in own]
                        if missing:
                            pos = wanted.index(missing[0])
                            found.append((f"log/records-missing/{OUTER_COND}", f"{len(missing)} of the {len(wanted)} records logged while the Rerunner's log file was open (its own before the re-created "
                                          f"command existed / after it had ended, and the inner run's in between) are not in the Rerunner's log ({when}); first missing: {missing[0][:120]} "
                                          f"(record {pos + 1} of {len(wanted)}); the file holds {len(own)} record(s) of that logger; the inner run had "
                                          + ("its own log file open at the same time" if spec["art"] else "no log file")))
                        else:
                            it = iter(own)
                            if not all(t in it for t in wanted):
                                found.append((f"log/records-out-of-order/{OUTER_COND}", f"the records logged during the Rerunner's run are all in its log but not in the order they were logged ({when})"))
            v.extend(f for f in found if f[0] not in have)
    epe = o["ep_end"]
    if epe is not None and (epe.get("log_file_handlers_left") or epe.get("queue_handlers_on_gallia")) and f"log/not-closed/{OUTER_COND}" not in {k for k, _ in v}:
        v.append((f"log/handler-left-attached/{OUTER_COND}", f"the Rerunner's entry_point() has ended with {epe.get('log_file_handlers_left')} log file handler(s) in log_file_handlers and "
                  f"{epe.get('queue_handlers_on_gallia')} queue handler(s) still attached to the 'gallia' logger"))
    # ---- run_meta row of the outer run (in the inner run's database file or in one of its own)
    if r["db"] is not None:
        rows = o["run_meta"]
        if rows is None or len(rows) != 1:
            v.append((f"run_meta/row-count/{OUTER_COND}", f"run_meta rows of the Rerunner's run: {None if rows is None else len(rows)} ({o.get('run_meta_error', obs.get('run_meta_error', ''))})"))
        else:
            hit("outer.run_meta_checked")
            row = rows[0]
            if row["end_time"] is None:
                v.append((f"run_meta/end_time-null/{OUTER_COND}", f"run_meta.end_time of the Rerunner's run is NULL (exit_code {row['exit_code']!r}) after the process ended with {rc}"
                          + ("; the re-created command used the same database file" if r["db"] == "same" else "")))
            else:
                if row["exit_code"] != eff:
                    v.append((f"run_meta/exit-code-differs/{OUTER_COND}", f"run_meta.exit_code={row['exit_code']!r} for the Rerunner's run, the process ended with {rc}"))
                if not row["start_time"] <= row["end_time"]:
                    v.append(("run_meta/times-invalid", f"outer run: start {row['start_time']} > end {row['end_time']}"))
            try:
                _, cfg = recreate_config(row["script"], json.loads(row["config"]))
                if cfg.model_dump_json() != want_cfg:
                    v.append(("run_meta/config-differs", "config re-created from the outer run's run_meta row differs"))
            except Exception as e:  # noqa: BLE001
                v.append((f"run_meta/config-not-recreatable/{type(e).__name__}", f"outer run: {e!r:.300}"))
    # ---- lock file of the outer run
    if r["lock"]:
        hit("outer.lock_probed")
        if o["lock_after_exit"] != "free":
            v.append((f"lock/held-after-exit/{OUTER_COND}", f"the Rerunner's lock file after the process ended: {o['lock_after_exit']}"))
        if o["returned"] is not None and o["lock_after_entry_point"] == "held":
            v.append((f"lock/held-after-return/{OUTER_COND}", "the Rerunner's entry_point() returned but its lock file is still locked"))
    return v


def judge_cli(spec: dict[str, Any], obs: dict[str, Any], rundir: Path, reach: Any = None) -> list[tuple[str, str]]:
    """The artefact oracle for a shipped command run through gallia's CLI. What the exit code *should* be is not known to
    the harness (the command decides that); that every record of the run carries the code the process ended with is."""
    def hit(name: str, n: int = 1) -> None:
        if reach is not None:
            reach(f"cli.{CLI_KIND}.{name}", n)

    v: list[tuple[str, str]] = []
    rc = obs["rc"]
    esc = obs["escaped"]
    form = spec["cli"]["target"]
    if esc is not None:
        return [(f"entry_point/escaped-exception/{esc['type']}/{esc.get('func')}", f"{esc['type']} leaves gallia's CLI main for `{' '.join(cli_argv(spec, rundir)[1:3])}` "
                 f"(innermost gallia frame {esc.get('func')}): {esc.get('text')}")]
    if not obs["started"]:
        return [("harness/child-did-not-start", f"child rc={rc}: {obs['stderr'][-300:]}")]
    if not isinstance(obs["returned"], int) or rc != obs["returned"] or not 0 <= rc <= 255:
        v.append((f"exit/code-differs/{CLI_KIND}", f"CLI main ended with SystemExit({obs['returned']!r}), the process with {rc}"))
    # ---- META.json
    meta = None
    if spec["art"]:
        if len(obs["artifact_dirs"]) != 1:
            v.append((f"meta/artifacts-dir-count/{CLI_KIND}", f"{len(obs['artifact_dirs'])} run directories below the artifacts base"))
        elif obs["meta_raw"] is None:
            v.append((f"meta/missing/{CLI_KIND}", "artifacts dir configured but META.json was not written"))
        else:
            try:
                meta = json.loads(obs["meta_raw"])
                assert isinstance(meta, dict) and {"command", "start_time", "end_time", "exit_code", "config"} <= set(meta)
            except (ValueError, AssertionError):
                v.append(("meta/unparsable", f"META.json content: {obs['meta_raw'][:200]!r}"))
                meta = None
    elif obs["artifact_dirs"]:
        v.append(("meta/artifacts-without-config", "no artifacts dir configured but one was created"))
    paths = run_paths(rundir)
    given = {"target": CLI_TARGETS[form], "db": str(paths["db"]) if spec["db"] else None, "artifacts_base": str(paths["art"]) if spec["art"] else None,
             "lock_file": str(paths["lock"]) if spec["lock"] else None}

    def config_ok(command: str, config: dict[str, Any], where: str) -> None:
        try:
            cls, cfg = recreate_config(command, config)
            got = json.loads(cfg.model_dump_json())
            diff = {k: (got.get(k), w) for k, w in given.items() if got.get(k) != w}
            if f"{cls.__module__}.{cls.__name__}" != CLI_COMMAND or diff:
                v.append((f"{where}/config-differs", f"config re-created from {where} is a {cls.__name__} with (got, given on the command line): {diff}"))
        except Exception as e:  # noqa: BLE001
            v.append((f"{where}/config-not-recreatable/{type(e).__name__}", f"CONFIG_TYPE(**config) fails: {e!r:.300}"))

    if meta is not None:
        hit("meta_checked")
        if meta["exit_code"] != rc:
            v.append((f"meta/exit-code-differs/{CLI_KIND}", f"META.json says exit_code={meta['exit_code']!r}, the process ended with {rc}"))
        try:
            if not datetime.fromisoformat(meta["start_time"]) <= datetime.fromisoformat(meta["end_time"]):
                v.append(("meta/times-invalid/start-after-end", f"start {meta['start_time']} > end {meta['end_time']}"))
        except (ValueError, TypeError):
            v.append(("meta/times-invalid/not-iso", f"start={meta['start_time']!r} end={meta['end_time']!r}"))
        config_ok(meta["command"], meta["config"], "meta")
    # ---- log file: after the process ended and as the command left it
    if spec["art"] and len(obs["artifact_dirs"]) == 1:
        how = "raised SystemExit"
        for lg, when, counter in ((obs["log"], "after the process ended", "log_checked"), (obs["log_at_ep_end"], f"when CLI main has {how}", "log_checked_at_entry_point_end")):
            have = {k for k, _ in v}
            if lg is None:
                if when.startswith("after") or obs.get("ep_end") is not None:
                    key = f"log/missing/{CLI_KIND}"
                    if key not in have:
                        v.append((key, f"artifacts dir configured but log.json.zst does not exist {when}"))
                continue
            hit(counter)
            found = []
            if not lg.get("closed"):
                found.append((f"log/not-closed/{CLI_KIND}", f"log.json.zst is not a complete zstd stream {when} ({lg.get('size')} bytes on disk)"))
            elif "read_error" in lg:
                found.append((f"log/unreadable/{CLI_KIND}", f"PenlogReader fails on the log file {when}: {lg['read_error']}"))
            elif lg["records"] != lg["lines"] or lg["records"] == 0:
                found.append(("log/record-count", f"{lg['records']} records decoded from {lg['lines']} lines ({when})"))
            v.extend(f for f in found if f[0] not in have)
        epe = obs.get("ep_end")
        if epe is not None and epe.get("queue_handlers_on_gallia") and f"log/not-closed/{CLI_KIND}" not in {k for k, _ in v}:
            v.append((f"log/handler-left-attached/{CLI_KIND}", f"CLI main has ended with {epe.get('queue_handlers_on_gallia')} queue handler(s) still attached to the 'gallia' logger"))
    # ---- database
    if spec["db"]:
        rows = obs["run_meta"]
        if rows is None or len(rows) != 1:
            v.append((f"run_meta/row-count/{CLI_KIND}", f"run_meta rows: {None if rows is None else len(rows)} ({obs.get('run_meta_error', '')})"))
        else:
            hit("run_meta_checked")
            if reach is not None and spec.get("dbstate") and (spec["dbstate"] != "initialised" or (obs.get("db_initialised") and obs.get("run_meta_other_writer_rows"))):
                reach(f"dbstate.{spec['dbstate']}.run_meta_checked")
            row = rows[0]
            disc = obs.get("discovery_run") or []
            wrote = any(r[2] == row["id"] for r in disc)
            hit("wrote_discovery_run", 1 if wrote else 0)
            if form != "foreign-scheme" and not wrote:
                v.append((f"discovery_run/missing/{CLI_KIND}", f"the discovery went on to probe {CLI_DEAD_PEER} but the database has no discovery_run row for run {row['id']} (rows: {disc})"))
            if row["script"] != CLI_COMMAND:
                v.append((f"run_meta/script-differs/{CLI_KIND}", f"run_meta.script={row['script']!r}"))
            if row["end_time"] is None:
                v.append((f"run_meta/end_time-null/{CLI_KIND}", f"run_meta.end_time is NULL (exit_code {row['exit_code']!r}) after `gallia discover doip --db ... --target {CLI_TARGETS[form]}` ended with {rc}"
                          + ("; the discoverer had written its discovery_run row during the run" if wrote else "")))
            else:
                if row["exit_code"] != rc:
                    v.append((f"run_meta/exit-code-differs/{CLI_KIND}", f"run_meta.exit_code={row['exit_code']!r}, the process ended with {rc}"))
                if not row["start_time"] <= row["end_time"]:
                    v.append(("run_meta/times-invalid", f"start {row['start_time']} > end {row['end_time']}"))
            try:
                config_ok(row["script"], json.loads(row["config"]), "run_meta")
            except ValueError:
                v.append(("run_meta/config-not-recreatable/ValueError", f"run_meta.config is not JSON: {row['config'][:200]!r}"))
    elif obs["run_meta"]:
        v.append(("run_meta/db-without-config", "no database configured but one was written"))
    # ---- lock
    if spec["lock"]:
        hit("lock_probed_after_exit")
        if obs.get("lock_after_exit") != "free":
            v.append(("lock/held-after-exit", f"lock file state after the process ended: {obs.get('lock_after_exit')}"))
        if obs["lock_after_entry_point"] == "held":
            v.append(("lock/held-after-return", "CLI main has ended but the lock file is still locked"))
    return v


# =================================================================================================
# shard
# =================================================================================================
def hang_blame(obs: dict[str, Any]) -> str:
    """'command' iff the child had built the command and no thread sits in harness code (fault injector, virtual ECU
    start-up) other than the frames that merely call asyncio.run(entry_point()) / serve the ECU socket."""
    st = obs.get("stacks") or ""
    if not obs.get("started") or "most recent call first" not in st:
        return "unknown"
    for ln in st.splitlines():
        if "vf/checks/c15.py" in ln and not any(f" in {fn}" in ln for fn in ("child_main", "child_cli", "<module>", "body", "serve")):
            return "harness"
    return "command"


def summarize(obs: dict[str, Any]) -> dict[str, Any]:
    s = {k: obs.get(k) for k in ("rc", "wall", "events", "returned", "escaped", "sigint_delivered", "watchdog", "lock_at_fault",
                                 "lock_after_entry_point", "lock_after_exit", "artifact_dirs", "run_meta", "log", "hook_pre_lock", "hook_post_lock", "contend", "run_meta_other_writer_rows",
                                 "ep_end", "ep_end_error", "log_at_ep_end", "ecu_answers", "ecu_rdbi_answers", "ecu_faulted", "latesig", "after_ep", "loop_stuck", "lock_at_gather_hold")}
    s["meta"] = (obs.get("meta_raw") or "")[:600] or None
    for k in ("hook_pre_done", "hook_post_done", "hook_clock_scaled", "db_initialised", "db_initialise_failed"):
        if obs.get(k):
            s[k] = obs[k]
    if obs.get("outer"):
        oo = dict(obs["outer"])
        oo["meta"] = (oo.pop("meta_raw") or "")[:600] or None
        oo["logged_all"] = [[t[:120], k, sur] for t, k, sur in oo.get("logged_all") or []]
        for f in ("log", "log_at_ep_end"):
            if isinstance(oo.get(f), dict) and "own" in oo[f]:
                oo[f] = {**oo[f], "own": [x[:120] for x in oo[f]["own"]]}
        if oo.get("run_meta"):
            oo["run_meta"] = [{k: (x[:200] if isinstance(x, str) else x) for k, x in r.items()} for r in oo["run_meta"]]
        s["outer"] = oo
    if obs.get("others"):
        s["others"] = {}
        for which, od in obs["others"].items():
            oo = dict(od)
            oo["meta"] = (oo.pop("meta_raw") or "")[:600] or None
            oo["logged"] = [[t[:120], k, sur] for t, k, sur in oo.get("logged") or []]
            for f in ("log", "log_at_ep_end"):
                if isinstance(oo.get(f), dict) and "own" in oo[f]:
                    oo[f] = {**oo[f], "own": [x[:120] for x in oo[f]["own"]]}
            s["others"][which] = oo
    s["logged"] = [[t[:120], k, sur] for t, k, sur in (obs.get("logged") or [])]
    for f in ("log", "log_at_ep_end"):
        if isinstance(s.get(f), dict) and "own" in s[f]:
            s[f] = {**s[f], "own": [o[:120] for o in s[f]["own"]]}
    s["stderr_tail"] = obs.get("stderr", "")[-1500:]
    for hv in ("pre", "post"):
        env = obs.get(f"hook_{hv}_env")
        s[f"hook_{hv}_env"] = None if env is None else {k: v[:300] for k, v in env.items()}
    if s["run_meta"]:
        s["run_meta"] = [{k: (v[:200] if isinstance(v, str) else v) for k, v in r.items()} for r in s["run_meta"]]
    return s


def case_ident(spec: dict[str, Any]) -> tuple[Any, ...]:
    return (tuple(spec[f] for f in FACTORS) + (("contend", spec["contend"]) if spec.get("contend") else ())
            + (("uds", spec["uds_timeout"], spec.get("uds_retries")) if spec.get("uds_timeout") is not None else ())
            + (("dbcycle",) + tuple(sorted(spec["dbcycle"].items())) if spec.get("dbcycle") else ())
            + (("logtext",) + tuple(sorted(spec["logtext"].items())) if spec.get("logtext") else ())
            + (("cli", spec["cli"]["target"]) if spec.get("cli") else ())
            + (("forkhelper",) + tuple(sorted(spec["forkhelper"].items())) if spec.get("forkhelper") else ())
            + (("latesig",) + tuple(sorted(spec["latesig"].items())) if spec.get("latesig") else ())
            + (("rerun",) + tuple(sorted((k, str(x)) for k, x in spec["rerun"].items())) if spec.get("rerun") else ())
            + (("slowhook",) + tuple(sorted(spec["slowhook"].items())) if spec.get("slowhook") else ())
            + (("dbstate", spec["dbstate"]) if spec.get("dbstate", "absent") != "absent" else ())
            + (("staleenv",) + tuple(spec["staleenv"]["vars"]) if spec.get("staleenv") else ())
            + (("cfgmut",) + tuple(sorted(spec["cfgmut"].items())) if spec.get("cfgmut") else ())
            + (("prior",) + tuple(sorted(spec["prior"].items())) if spec.get("prior") else ())
            + (("gather",) + tuple(sorted(spec["gather"].items())) if spec.get("gather") else ()))


def process_case(ctx: Any, spec: dict[str, Any], base: Path, lock: Any) -> dict[str, Any] | None:
    import shutil

    rundir = base / f"r{spec.get('id', 0)}"
    obs = execute(spec, rundir)
    if obs.get("loop_stuck"):
        # the event loop of a side-by-side run stopped turning for GATHER_STUCK_AFTER s: a finding only if it does so again
        shutil.rmtree(rundir, ignore_errors=True)
        again = execute(spec, rundir)
        with lock:
            ctx.reach("gather.loop_stuck_reproduced" if again.get("loop_stuck") else "gather.loop_stuck_not_reproduced")
        obs = again
    hang = None
    if obs["watchdog"]:
        # A watchdog alone is a harness problem. It becomes a finding only if it reproduces and the thread stacks the
        # child dumped before it was killed show it sitting in the command / interpreter shutdown, not in harness code.
        hangs = [obs]
        for _ in range(3):
            shutil.rmtree(rundir, ignore_errors=True)
            again = execute(spec, rundir, timeout=RETRY_TIMEOUT)
            if again["watchdog"]:
                hangs.append(again)
                if len(hangs) >= 2:
                    break
        blamed = [h for h in hangs if hang_blame(h) == "command"]
        if len(hangs) >= 2 and len(blamed) >= 2:
            obs = blamed[-1]
            where = "after-entry-point-returned" if obs["returned"] is not None or obs["escaped"] is not None else "in-entry-point"
            hang = (f"process/hangs/{where}", f"the command process does not terminate (watchdog {CHILD_TIMEOUT}s/{RETRY_TIMEOUT}s, reproduced; "
                    f"last lifecycle event {(obs['events'] or ['-'])[-1]!r}; thread stacks in the witness)")
        else:
            with lock:
                ctx.reach("harness.watchdog")
            s0 = summarize(obs)
            s0["stacks"] = obs["stacks"]
            return {"spec": spec, "obs": s0, "hangs_in_attempts": len(hangs), "blamed_on_command": len(blamed)}
    with lock:
        nontrivial = not (spec["exit"] == "return" and spec["pre"] == spec["post"] == "none" and not (spec["art"] or spec["db"] or spec["lock"]))
        ctx.case(case_ident(spec), nontrivial=nontrivial)
        if hang is not None:
            ctx.reach("process.hang_reproduced")
            summ = summarize(obs)
            summ["stacks"] = obs["stacks"]
            ctx.violation(hang[0], hang[1], {"spec": spec, "obs": summ})
            ctx.sample({"case": {f: spec[f] for f in FACTORS}, "rc": "watchdog", "events": obs["events"], "keys": [hang[0]]})
            shutil.rmtree(rundir, ignore_errors=True)
            return None
        if spec.get("cli"):
            found = judge_cli(spec, obs, rundir, ctx.reach)
            rm = obs["run_meta"][0] if obs["run_meta"] else None
            rmv = None if rm is None else {"end_time_null": rm["end_time"] is None, "exit_code": rm["exit_code"]}
            ctx.reach(f"cli.{CLI_KIND}.outcome.rc={obs['rc']}")
            ctx.trace((CLI_KIND, spec["cli"]["target"], obs["rc"], json.dumps(rmv), len(obs.get("discovery_run") or []), tuple(sorted(k for k, _ in found))))
            ctx.sample({"case": {"kind": CLI_KIND, "argv": cli_argv(spec, Path("<rundir>")), **{f: spec[f] for f in ("art", "db", "lock")}}, "rc": obs["rc"], "run_meta": rmv,
                        "discovery_run": obs.get("discovery_run"), "keys": sorted(k for k, _ in found)})
            summ = summarize(obs)
            summ["discovery_run"] = obs.get("discovery_run")
            for key, what in found:
                ctx.violation(key, what, {"spec": spec, "all_keys_of_this_run": sorted(k for k, _ in found), "obs": summ})
            shutil.rmtree(rundir, ignore_errors=True)
            return None
        ctx.reach(f"exit.{spec['exit']}")
        ctx.reach(f"kind.{spec['kind']}")
        if spec["point"] != "none":
            ctx.reach(f"point.{spec['point']}")
        ctx.reach(f"hook.pre.{spec['pre']}")
        ctx.reach(f"hook.post.{spec['post']}")
        for f in ("art", "db", "lock"):
            ctx.reach(f"{f}.{'on' if spec[f] else 'off'}")
        if obs["sigint_delivered"]:
            ctx.reach("sigint.delivered")
            if obs["rc"] == -signal.SIGINT:
                ctx.reach("sigint.died_by_signal")
        if obs["ecu_answers"]:
            ctx.reach("ecu.requests_answered")
        if obs["ecu_rdbi_answers"]:
            ctx.reach("ecu.properties_requests_answered")
        found = judge(spec, obs, rundir, ctx.reach)
        for which in ("prior", "second"):
            if spec.get("prior" if which == "prior" else "gather"):
                seen = {k for k, _ in found}
                found += [f for f in judge_other(spec, obs, which, ctx.reach) if f[0] not in seen]
        if spec.get("rerun"):
            seen = {k for k, _ in found}
            found += [f for f in judge_outer(spec, obs, rundir, ctx.reach) if f[0] not in seen]
        summ = summarize(obs)
        meta_code = None
        try:
            meta_code = json.loads(obs["meta_raw"])["exit_code"] if obs["meta_raw"] else None
        except (ValueError, KeyError, TypeError):
            meta_code = "?"
        rm = obs["run_meta"][0] if obs["run_meta"] else None
        ctx.trace((spec["kind"], tuple(e for e in obs["events"] if not e.startswith("ecu_")), obs["rc"], meta_code,
                   None if rm is None else (rm["end_time"] is None, rm["exit_code"]), obs["hook_pre_env"] is not None,
                   obs["hook_post_env"] is not None, tuple(sorted(k for k, _ in found))))
        ctx.reach(f"outcome.rc={obs['rc']}")
        ctx.sample({"case": {f: spec[f] for f in FACTORS + [x for x in ("contend", "dbcycle", "logtext", "forkhelper", "latesig", "rerun", "slowhook", "dbstate", "staleenv", "cfgmut", "prior", "gather") if spec.get(x)]}, "rc": obs["rc"], "meta_exit_code": meta_code, "events": obs["events"],
                    "run_meta": None if rm is None else {"end_time_null": rm["end_time"] is None, "exit_code": rm["exit_code"]},
                    "keys": sorted(k for k, _ in found)})
        for key, what in found:
            ctx.violation(key, what, {"spec": spec, "all_keys_of_this_run": sorted(k for k, _ in found), "obs": summ})
    shutil.rmtree(rundir, ignore_errors=True)
    return None


def run(ctx: Any, params: dict[str, Any]) -> None:
    import tempfile
    import threading

    base = ctx.mkscratch()
    (base / "tmp").mkdir(exist_ok=True)
    tempfile.tempdir = str(base / "tmp")  # PenlogReader decompresses into a TemporaryFile: keep it out of /tmp
    mine = params["cases"]
    lock = threading.Lock()
    hung: list[dict[str, Any]] = []
    skipped = 0
    workers = int(os.environ.get("VERIF_C15_WORKERS", "3" if params["tier"] == "quick" else "2"))

    def one(spec: dict[str, Any]) -> None:
        nonlocal skipped
        if ctx.out_of_time():
            skipped += 1
            return
        r = process_case(ctx, spec, base, lock)
        if r is not None:
            hung.append(r)

    with ThreadPoolExecutor(max_workers=workers) as ex:
        list(ex.map(one, mine))
    if skipped:
        ctx.reach("budget.cases_skipped", skipped)
    if hung:
        raise RuntimeError(
            f"{len(hung)} child process(es) exceeded the {CHILD_TIMEOUT}s watchdog (harness problem until reproduced): "
            + json.dumps([{k: v for k, v in h.items() if k != "obs"} for h in hung[:3]]) + " stacks: " + (hung[0]["obs"].get("stacks") or "")[-1200:]
        )


def replay(ctx: Any, witness: dict[str, Any]) -> None:
    import tempfile
    import threading

    base = ctx.mkscratch()
    (base / "tmp").mkdir(exist_ok=True)
    tempfile.tempdir = str(base / "tmp")
    spec = witness.get("spec", witness)
    r = process_case(ctx, spec, base, threading.Lock())
    if r is not None:
        raise RuntimeError(f"child exceeded the {CHILD_TIMEOUT}s watchdog: {json.dumps(r)[:1500]}")
    print(json.dumps({"spec": spec, "violations": dict(ctx.violation_counts)}, indent=1))


if __name__ == "__main__":
    if len(sys.argv) == 3 and sys.argv[1] == "--child":
        from vf.checks import c15 as _self  # the importable module, not __main__: run_meta.command must be resolvable

        _self.child_main(sys.argv[2])
    else:
        print("usage: python -m vf.checks.c15 --child <spec.json>", file=sys.stderr)
        sys.exit(2)
