"""C08 Connection loss surfaces as a bounded-time error and the next attempt recovers (DESIGN.md section 3)."""

from __future__ import annotations

import asyncio
import os
import socket
import struct
from binascii import hexlify
from typing import Any

from vf import gateway, vtime
from vf.checks import c06, c07

PROPERTY = "C08"
LEVEL = "fault_enumeration"
ENGINE = "vtime-memstream"
TECHNIQUE = (
    "cut-point enumeration under a virtual clock: the production tcp-lines / unix-lines / DoIP / HSFZ transports (and UDSClient on top) "
    "run against a scripted peer that cuts the connection (EOF, reset, silence) after every byte offset of its handshake/ack/reply "
    "stream; every operation's result class and virtual completion time is recorded and judged (bounded end, no fabricated data, "
    "recovery through reconnect, harmless double close); an empty virtual schedule is the 'blocks forever' verdict; a seeded sample "
    "repeats the cuts on real loopback TCP / unix sockets; the same cuts are repeated with TWO operations from two tasks in flight on one "
    "transport object (write+read, read+write, read+read, read or write + close()/reconnect() from another task): every suspended "
    "operation must end (a watchdog in virtual time names the one that does not), close()/reconnect() must return and the new "
    "connection must work; at client level every cut is run with the retry count given by the constructor and, on a client built with "
    "the default max_retry=0, by the per-request UDSRequestConfig; at transport level every cut after the ack is also run as a SECOND USE of "
    "the same transport object: the caller pauses between write() and read() (so that frames and the end of the stream have all arrived "
    "before the reply is picked up), then keeps reading until the transport reports the end, or writes again - every one of these "
    "operations must end in bounded virtual time and the successive reads may only return the peer's complete frames, in order, once; "
    "on real loopback TCP / unix sockets every line transport is also USED AGAIN AFTER THE LOSS and then closed twice: the peer ends the "
    "connection on accept / with the request unread / inside the reply (close or SO_LINGER reset), the caller goes on with write(), two "
    "write() calls back to back, read(), request() or UDSClient requests without retries on the dead connection (where the kernel of each "
    "socket family reports the loss to the writer in its own way) and finally calls close() twice - each operation must end with a timeout / "
    "connection error / EOF / missing response and both close() calls must return normally"
)
LEVEL_TEXT = (
    "Fault enumeration: transport in {tcp-lines, unix-lines, DoIP, HSFZ} x cut at every byte offset (hence every frame boundary and "
    "every position inside handshake, ack and reply frames) x cut kind {EOF, reset, silence} x caller timeout {0.3, 2, none} at "
    "transport level (second use: cut at every offset after the ack of the plain stream and of a stream with a responsePending x pause "
    "between write() and read() {none, between the data frames, after everything arrived} x follow-up {consumer loop of reads, write + "
    "reads} x caller timeout {none, 2}), and x peer restart delay {0, 0.05, 1.5} x max_retry {1, 2} x retry count configured via {constructor, per-request "
    "config} at UDS client level, in virtual time; pair level: operation pair {write+read, read+write, read+read, read+close, "
    "read+reconnect, write+close} from two tasks on one transport x every byte offset after the handshake (read+write: cut times "
    "before/between/after ack and reply) x cut kind x caller timeouts {none, 0.3, 2} per operation; plus real "
    "loopback sockets (close, SO_LINGER reset, stall, restart; read pending while another task closes / reconnects) for a seeded sample, and "
    "enumerated on real sockets: line transport {tcp, unix} x end of the connection {on accept, request unread, inside the reply} x {close, reset} x "
    "use after the loss {write, read+write, UDS request, two UDS requests, write+read+write, request(), two writes back to back, those + UDS request} "
    "followed by close() twice. Held = every recorded operation ended in bounded "
    "virtual time with a timeout / connection error / explicit EOF or the complete genuine reply, and the client recovered where the "
    "statement promises it."
)
LEVEL_NOTE = "Trusted: gateway simulator (vf/gateway.py) and its reset model (reader exception + failing writer), virtual clock. Real-socket part uses wall-clock only as the operations' own short timeouts."
RULE = (
    "cases = (transport, level, cut offset, cut kind, caller timeout, restart delay, max_retry, where the retry count is configured; "
    "at pair level: operation pair, both caller timeouts, delay of the closing task; second use: stream variant, pause before read(), "
    "follow-up kind; real sockets after the loss: where and how the peer ended the connection, sequence of uses before close()); offsets enumerated over the whole "
    "peer->client stream of one exchange; non-trivial = the cut falls before the end of the stream, or the case continues to use the transport after the loss; distinct = distinct case tuples"
)
ASSUMPTIONS = [
    "silence without a caller timeout is only required to end for writes (ack time); reads in that combination are not generated",
    "recovery is required after EOF/reset (and after a missing ack, which closes the connection) when the peer accepts again before the client's reconnect attempt; a silent peer that keeps the connection open gives no reconnect",
    "pair level: a read without caller timeout facing a silent peer is only generated together with a close()/reconnect() from another task and then has to end after that local close; an operation without caller timeout that shares the transport with one that has a timeout may take that timeout + ack time; which of two concurrent reads gets the reply and whether a concurrent reader steals the writer's ack is C06/C07's subject and not judged (only: bounded end, error class, no fabricated or duplicated data)",
    "pair level, virtual time: a local close of the stream feeds EOF to the stream reader one loop iteration later (asyncio's connection_lost); the real-socket sample checks the same combinations against asyncio itself for the line transports",
    "second use: operations started after the loss are judged like pending ones (bounded end from their own start, error class, no fabricated or repeated data); a complete frame that arrived before the loss may be delivered by a later read or be lost to an error, both are accepted; a read without caller timeout is again only generated for EOF / reset",
    "two concurrent read() calls on a line transport are not generated (asyncio's StreamReader forbids two waiting readers)",
    "real sockets, use after the loss: which of the later operations fails and with which connection error is the kernel's business (unix: EPIPE on the first write; TCP: one write is accepted, the RST fails the next operation) and is not judged; judged is that each ends in bounded time with an allowed result class, returns no data (the peer never sent a complete reply) and that close() returns normally both times",
    "virtual-time reset = the reader raises ConnectionResetError and writes fail; TCP half-close subtleties are only covered by the real-socket sample",
]
EXHAUSTIVE = {"quick": True, "thorough": True}
EXHAUSTIVE_NOTE = "thorough enumerates every byte offset x cut kind x timeout for all four transports at transport level; quick enumerates the same offsets with fewer restart-delay x max_retry combinations at client level"

TOL = 1e-3
TRANSPORTS = ["tcp-lines", "unix-lines", "doip", "hsfz"]
REQ = bytes.fromhex("22f190")
REPLY = bytes.fromhex("62f19057304c303030303433")
ACK_TIME = {"doip": 2.0, "hsfz": 1.0, "tcp-lines": 0.0, "unix-lines": 0.0}
SRC, TGT = 0x0E00, 0x001D
HS, HD = 0xF4, 0x10


VIAS = ["constructor", "request-config"]  # where the client's retry count is configured
MAX_READS = 4  # second-use cases: a consumer loop reads at most this many times (the peer sends at most two data frames)
PICKUP_LATE = 0.5  # virtual seconds between write() returning and read() being called: everything the peer sent (incl. the end of stream) is there
PICKUP_MID = 0.007  # between the responsePending and the final reply
HORIZON = 20000.0  # virtual seconds; far beyond (max_retry + 1) x (timeout + ack time + pending polls + backoff)


def shards(tier: str, seed: int) -> list[dict[str, Any]]:
    if tier == "quick":
        return [{"mode": "virtual", "transport": t, "step": 1, "client": c} for t in TRANSPORTS for c in (False, True)] + [{"mode": "virtual", "transport": t, "pair": True} for t in TRANSPORTS] + [{"mode": "real", "n": 6, "part": i} for i in range(4)]
    return [{"mode": "virtual", "transport": t, "step": 1, "client": c, "half": h} for t in TRANSPORTS for c in (False, True) for h in (0, 1)] + [{"mode": "virtual", "transport": t, "pair": True} for t in TRANSPORTS] + [{"mode": "real", "n": 40, "part": i} for i in range(8)]


def required_reach(tier: str) -> dict[str, int]:
    r: dict[str, int] = {}
    for t in TRANSPORTS:
        for k in ("eof", "reset", "silence"):
            r[f"cell:{t}:{k}:timeout"] = 3
            if k != "silence":
                r[f"cell:{t}:{k}:no-timeout"] = 3
        r[f"recovered:{t}"] = 3
    for t in TRANSPORTS:
        framed = t in ("doip", "hsfz")
        r[f"recovered-via-request-config:{t}"] = 3
        r[f"pair.closer-while-read-pending.no-timeout:{t}"] = 5
        r[f"pair.reconnect-recovered:{t}"] = 5
        for combo in PAIR_COMBOS:
            if framed or combo not in ("read+read", "write+close"):
                r[f"pair:{t}:{combo}"] = 10
        if framed:
            r[f"pair.two-suspended-at-cut.no-timeout:{t}"] = 20
            r[f"pair.closer-while-write-pending:{t}"] = 5
    r.update({"client.retry-via-request-config": 200, "client.retry-via-request-config:eof": 50, "client.retry-via-request-config:reset": 50, "client.retry-via-request-config.cut-after-pending": 20,
              "real.recovered-via-request-config": 4, "real.closer-while-read-pending": 4, "real.pair-reconnect-recovered": 4})
    for t in TRANSPORTS:
        # second use of one transport object after an exchange that met the loss
        r.update({f"again:{t}:drain": 50, f"again:{t}:write": 20, f"again.read-after-loss.no-timeout:{t}": 20, f"again.write-after-loss:{t}": 10,
                  f"again.read-after-failed-operation:{t}": 10, f"again.write-after-failed-operation:{t}": 5, f"again.late-pickup:{t}": 2, f"again.read-after-late-pickup:{t}": 2})
        if t != "doip":
            # (a DoIP connection that saw the end of the stream reports the loss instead of the queued frames: counted, not required)
            r[f"again.read-after-late-pickup.no-timeout:{t}"] = 5
    for t in ("tcp-lines", "unix-lines"):
        # real sockets: the caller used the transport again after the loss (the kernel reported the loss to a write) and then closed it
        r.update({f"real.after-loss:{t}": 30, f"real.close-after-failed-write:{t}": 16, f"real.close-after-failed-use:{t}": 30, f"real.use-after-loss.uds:{t}": 10})
        for m in AFTER_LOSS_MODES:
            r[f"real.after-loss.{m}:{t}"] = 10
    r.update({"client.cut-after-pending": 20, "client.second-connection-silent": 10, "client.two-requests.first-failed": 20, "reconnect-api.peer-back-in-time": 40, "reconnect-api.peer-too-late": 20, "cut.mid-header": 10, "cut.mid-payload": 10, "cut.frame-boundary": 6, "close-twice": 100, "real.cases": 10, "real.recovered": 2})
    return r


def uri(t: str) -> str:
    if t == "doip":
        return f"doip://192.0.2.7:13400?src_addr={SRC:#x}&target_addr={TGT:#x}"
    if t == "hsfz":
        return f"hsfz://192.0.2.7:6801?src_addr={HS:#x}&dst_addr={HD:#x}&ack_timeout=1000"
    if t == "tcp-lines":
        return "tcp-lines://192.0.2.7:20162"
    return "unix-lines:///nonexistent/vf.sock"


PENDING = bytes([0x7F, 0x22, 0x78])


def peer_stream(t: str, pending: bool = False) -> list[tuple[str, bytes]]:
    """frames the peer sends for connect + one exchange (optionally a responsePending before the final reply)"""
    if t == "doip":
        fr = [("rar", c06.f_rar(3, SRC, TGT, 0x10)), ("ack", c06.f_ack(3, TGT, SRC, REQ))]
        fr += [("pending", c06.f_diag(3, TGT, SRC, PENDING))] if pending else []
        return fr + [("reply", c06.f_diag(3, TGT, SRC, REPLY))]
    if t == "hsfz":
        fr = [("ack", c07.fr(0x02, bytes([HS, HD]) + REQ[:5]))]
        fr += [("pending", c07.fr(0x01, bytes([HD, HS]) + PENDING))] if pending else []
        return fr + [("reply", c07.fr(0x01, bytes([HD, HS]) + REPLY))]
    return ([("pending", hexlify(PENDING) + b"\n")] if pending else []) + [("reply", hexlify(REPLY) + b"\n")]


def transport_class(t: str) -> Any:
    from gallia.transports.doip import DoIPTransport
    from gallia.transports.hsfz import HSFZTransport
    from gallia.transports.tcp import TCPLinesTransport
    from gallia.transports.unix import UnixLinesTransport

    return {"doip": DoIPTransport, "hsfz": HSFZTransport, "tcp-lines": TCPLinesTransport, "unix-lines": UnixLinesTransport}[t]


def split_for(t: str) -> Any:
    if t == "doip":
        return c06.split_client
    if t == "hsfz":
        return c07.split_client

    def lines(buf: bytearray) -> list[bytes]:
        out = []
        while b"\n" in buf:
            i = buf.index(b"\n")
            out.append(bytes(buf[: i + 1]))
            del buf[: i + 1]
        return out

    return lines


def link_close(g: gateway.Gateway) -> None:
    """asyncio's connection_lost() after a local close: StreamReaderProtocol feeds EOF to the reader in a later loop iteration, which
    ends a readline() that another task is suspended in. The in-memory writer has no protocol, so the link is modelled here (pair
    level only, where a task closes the transport while another one reads from it)."""
    loop = asyncio.get_running_loop()
    orig = g.writer.close

    def close() -> None:
        orig()
        if g.reader.exception() is None:
            loop.call_soon(g.reader.feed_eof)

    g.writer.close = close  # type: ignore[method-assign]


def make_factory(sc: dict[str, Any], gws: list[gateway.Gateway], t0: list[float]) -> Any:
    t = sc["transport"]
    frames = peer_stream(t, sc.get("pending", False))
    byl = dict(frames)

    def factory(n: int) -> Any:
        loop = asyncio.get_running_loop()
        if n > 1 and loop.time() < t0[0] + sc.get("restart_at", 0.0):
            return ConnectionRefusedError("peer not accepting yet")
        g = gateway.Gateway(split_for(t))
        if sc.get("level") == "pair":
            link_close(g)
        if n == 2 and sc.get("second_silent"):
            # the restarting gateway accepts the TCP connection but does not talk yet
            gws.append(g)
            return g
        healthy = n > 1 or sc["cut_at"] is None
        if not healthy:
            g.limit_bytes = sc["cut_at"]
            g.limit_kind = sc["kind"]
            if sc["cut_at"] == 0:
                # cut before the first byte: for EOF/reset the peer ends the connection right after accepting it
                loop.call_soon(g.cut, sc["kind"])

        def on_frame(now: float, f: bytes) -> None:
            if t == "doip":
                pt = struct.unpack("!H", f[2:4])[0]
                if pt == 0x0005:
                    g.send(0.01, byl["rar"], "rar")
                elif pt == 0x8001:
                    g.send(0.01, byl["ack"], "ack")
                    if "pending" in byl:
                        g.send(0.015, byl["pending"], "pending")
                    g.send(0.02, byl["reply"], "reply")
            elif t == "hsfz":
                if f[4:6] == b"\x00\x01":
                    g.send(0.01, byl["ack"], "ack", header_len=6)
                    if "pending" in byl:
                        g.send(0.015, byl["pending"], "pending", header_len=6)
                    g.send(0.02, byl["reply"], "reply", header_len=6)
            else:
                if "pending" in byl:
                    g.send(0.015, byl["pending"], "pending", header_len=0)
                g.send(0.02, byl["reply"], "reply", header_len=0)

        g.on_client_frame = on_frame
        gws.append(g)
        return g

    return factory


async def run_transport_level(sc: dict[str, Any]) -> dict[str, Any]:
    loop = asyncio.get_running_loop()
    gws: list[gateway.Gateway] = []
    t0 = [loop.time()]
    ops: list[dict[str, Any]] = []
    cls = transport_class(sc["transport"])

    async def op(name: str, coro: Any) -> Any:
        rec: dict[str, Any] = {"op": name, "ts": loop.time()}
        try:
            r = await coro
            rec["res"] = ("ok", r if isinstance(r, (bytes, int)) else None)
        except BaseException as e:
            rec["res"] = ("exc", type(e).__name__, isinstance(e, ConnectionError), isinstance(e, TimeoutError), repr(e)[:120])
            r = None
        rec["te"] = loop.time()
        ops.append(rec)
        return rec

    with gateway.GatewayHub(make_factory(sc, gws, t0)) as hub:
        tr = None
        rec = {"op": "connect", "ts": loop.time()}
        try:
            tr = await cls.connect(uri(sc["transport"]), timeout=5.0)
            rec["res"] = ("ok", None)
        except BaseException as e:
            rec["res"] = ("exc", type(e).__name__, isinstance(e, ConnectionError), isinstance(e, TimeoutError), repr(e)[:120])
        rec["te"] = loop.time()
        ops.append(rec)
        if tr is not None:
            w = await op("write", tr.write(REQ, timeout=sc["timeout"]))
            if w["res"][0] == "ok":
                if sc.get("pickup"):
                    # the caller does something else before it picks up the reply: frames and the end of the stream may all have
                    # arrived by the time read() is called
                    await asyncio.sleep(sc["pickup"])
                r = await op("read", tr.read(timeout=sc["timeout"]))
                if sc.get("again"):
                    # second use of the same transport object after the exchange ended (in a reply, an error, a timeout)
                    go = True
                    if sc["again"] == "write":
                        go = (await op("write2", tr.write(REQ, timeout=sc["timeout"])))["res"][0] == "ok"
                    n = 2
                    while go and n <= MAX_READS:
                        # a consumer loop: keep reading until the transport reports the end (error / EOF / timeout)
                        r = await op(f"read{n}", tr.read(timeout=sc["timeout"]))
                        go = r["res"][0] == "ok" and bool(r["res"][1])
                        n += 1
            await op("close", tr.close())
            await op("close2", tr.close())
        return {"ops": ops, "accepted": len(hub.connections), "attempts": hub.attempts, "cut_time": gws[0].cut_time if gws else None, "fed_bytes": gws[0].fed_bytes if gws else 0}


# ---- two operations suspended on one transport ----------------------------------------------------------
WATCH = 60.0  # virtual seconds after which an operation that has not ended is reported as blocked (far beyond timeout + ack time)
PAIR_COMBOS = ("write+read", "read+write", "read+read", "read+close", "read+reconnect", "write+close")


async def run_pair_level(sc: dict[str, Any]) -> dict[str, Any]:
    """Two operations on ONE transport object, issued by two tasks, both (possibly) suspended when the peer cuts the connection:
      write+read      a write() waiting for its ack, then a read() from a second task
      read+write      a read() waiting for data, then a write() from a second task (the cut comes `cut_after` seconds later)
      read+read       (after an acknowledged write) two read() calls from two tasks
      read+close      (after an acknowledged write) a read(); after the loss another task calls close()
      read+reconnect  the same with reconnect(); the peer accepts again and the new transport must complete an exchange
      write+close     a write() waiting for its ack; after the loss another task calls close()
    Every operation is recorded with start time, end time (None = still suspended WATCH virtual seconds later) and result."""
    loop = asyncio.get_running_loop()
    gws: list[gateway.Gateway] = []
    t0 = [loop.time()]
    ops: list[dict[str, Any]] = []
    cls = transport_class(sc["transport"])
    combo = sc["combo"]
    kept: dict[str, Any] = {}

    async def op(name: str, coro: Any, timeout: Any = "n/a") -> dict[str, Any]:
        rec: dict[str, Any] = {"op": name, "ts": loop.time(), "te": None, "timeout": timeout, "hung": False, "res": ("exc", "STILL-SUSPENDED", False, False, "")}
        ops.append(rec)
        try:
            r = await coro
            rec["res"] = ("ok", r if isinstance(r, (bytes, int)) else None)
            kept[name] = r
        except BaseException as e:
            if isinstance(e, asyncio.CancelledError) and rec["hung"]:
                return rec  # ended by the harness' watchdog, not by the code under test
            rec["res"] = ("exc", type(e).__name__, isinstance(e, ConnectionError), isinstance(e, TimeoutError), repr(e)[:120])
        rec["te"] = loop.time()
        return rec

    out: dict[str, Any] = {"ops": ops}
    with gateway.GatewayHub(make_factory(sc, gws, t0)) as hub:
        await op("connect", cls.connect(uri(sc["transport"]), timeout=5.0))
        tr = kept.get("connect")
        if tr is None:
            return out
        tasks: list[asyncio.Task[Any]] = []

        def start(name: str, coro: Any, to: Any) -> None:
            tasks.append(loop.create_task(op(name, coro, to)))

        async def closer() -> None:
            # acts `close_delay` after the loss (what a watchdog / teardown handler of the application does)
            limit = loop.time() + 1.0
            while gws[0].cut_time is None and loop.time() < limit:
                await asyncio.sleep(0.005)
            await asyncio.sleep(sc["close_delay"])
            if combo == "read+reconnect":
                r = await op("reconnect", tr.reconnect(timeout=5.0))
                tr2 = kept.get("reconnect")
                if r["res"][0] == "ok" and tr2 is not None:
                    out["new_object"] = tr2 is not tr
                    await op("request2", tr2.request(REQ, timeout=2.0), 2.0)
                    await op("close-new", tr2.close())
                    await op("close-new2", tr2.close())
            else:
                await op("close-other-task", tr.close())

        t1, t2 = sc["t1"], sc["t2"]
        go = True
        if combo in ("read+read", "read+close", "read+reconnect"):
            w = await op("write0", tr.write(REQ, timeout=2.0), 2.0)
            go = w["res"][0] == "ok"
        if go:
            if combo == "write+read":
                start("write", tr.write(REQ, timeout=t1), t1)
                await asyncio.sleep(0.001)
                start("read", tr.read(timeout=t2), t2)
            elif combo == "read+write":
                start("read", tr.read(timeout=t1), t1)
                await asyncio.sleep(0.001)
                start("write", tr.write(REQ, timeout=t2), t2)
                gws[0].cut_at(sc["cut_after"], sc["kind"])
            elif combo == "read+read":
                start("read1", tr.read(timeout=t1), t1)
                await asyncio.sleep(0.001)
                start("read2", tr.read(timeout=t2), t2)
            elif combo == "write+close":
                start("write", tr.write(REQ, timeout=t1), t1)
                tasks.append(loop.create_task(closer()))
            else:
                start("read", tr.read(timeout=t1), t1)
                tasks.append(loop.create_task(closer()))
            _, pending = await asyncio.wait(tasks, timeout=WATCH)
            for rec in ops:
                if rec["te"] is None:
                    rec["hung"] = True
            for tk in pending:
                tk.cancel()
            if pending:
                await asyncio.wait(pending, timeout=5.0)
        # closing after the loss, twice, from the main task
        await op("close", asyncio.wait_for(tr.close(), WATCH))
        await op("close2", asyncio.wait_for(tr.close(), WATCH))
        out.update({"accepted": len(hub.connections), "attempts": hub.attempts, "cut_time": gws[0].cut_time, "fed_bytes": gws[0].fed_bytes})
    return out


def check_pair(ctx: Any, sc: dict[str, Any], out: dict[str, Any]) -> None:
    t, combo, kind = sc["transport"], sc["combo"], sc["kind"]
    ack = ACK_TIME[t]
    ops = out["ops"]
    w = {"scenario": sc, "ops": ops, "cut_time": out.get("cut_time"), "fed_bytes": out.get("fed_bytes")}
    ctx.reach(f"pair:{t}:{combo}")
    if "cut_time" not in out:
        c = ops[0]["res"]
        if not (c[2] or c[3]):
            ctx.violation(f"{t}/pair/connect/{c[1]}", "connect() failed with something other than a timeout / connection error", w)
        return
    # what the peer sent completely before the cut (the oracle's only knowledge about data)
    complete = set()
    off = 0
    for lab, f in peer_stream(t):
        off += len(f)
        if out["fed_bytes"] >= off:
            complete.add(lab)
    ct = out["cut_time"]
    main_ops = [o for o in ops if o["op"] in ("read", "write", "read1", "read2")]
    closers = [o for o in ops if o["op"] in ("close-other-task", "reconnect")]
    if ct is not None:
        susp = [o for o in main_ops if o["ts"] <= ct and (o["te"] is None or o["te"] >= ct - 1e-9)]
        if len(susp) >= 2:
            ctx.reach(f"pair.two-suspended-at-cut:{t}")
            if any(o["timeout"] is None for o in susp):
                ctx.reach(f"pair.two-suspended-at-cut.no-timeout:{t}")
    for c in closers:
        for o in main_ops:
            if o["te"] is None or o["te"] >= c["ts"] - 1e-9:
                ctx.reach(f"pair.closer-while-{o['op']}-pending:{t}")
                if o["timeout"] is None:
                    ctx.reach(f"pair.closer-while-{o['op']}-pending.no-timeout:{t}")
    others_t = max([o["timeout"] for o in main_ops if isinstance(o["timeout"], float)] + [0.0])
    closer_ts = max([c["ts"] for c in closers] + [0.0])
    replies = 0
    for o in ops:
        name, res = o["op"], o["res"]
        base = name.rstrip("012")
        to = o["timeout"]
        tkey = "timeout" if isinstance(to, float) else "no-timeout"
        if name == "connect":
            if res[0] != "ok":
                ctx.violation(f"{t}/pair/connect/{res[1]}", "connect() failed although the peer completed the handshake", w)
            continue
        if o["hung"]:
            if base == "read" and to is None and ct is None:
                ctx.reach("pair.cut-not-reached")  # the scripted loss never happened: an unbounded read is allowed to wait
                continue
            ctx.violation(f"{t}/pair/{combo}/blocks-forever/{base}/{kind}/{tkey}",
                          f"{name}() was still suspended {WATCH:.0f} virtual seconds after the peer cut the connection while two operations were in flight on the transport", w)
            continue
        dur = o["te"] - o["ts"]
        if name in ("close", "close2", "close-other-task", "close-new", "close-new2"):
            ctx.reach("close-twice")
            if res[0] != "ok":
                ctx.violation(f"{t}/pair/{combo}/{name}/{res[1]}", "closing the transport after connection loss (from another task / twice) raises or does not return", w)
            continue
        if name == "reconnect":
            if res[0] != "ok":
                ctx.violation(f"{t}/pair/{combo}/reconnect-fails/{kind}/{res[1]}", "the peer accepts connections again but reconnect() of the lost transport (another task is suspended in read()) fails", w)
            continue
        if name == "request2":
            if res != ("ok", REPLY):
                ctx.violation(f"{t}/pair/{combo}/new-connection-unusable/{res[1] if res[0] == 'exc' else 'other-data'}", "the transport returned by reconnect() cannot complete an exchange", w)
            else:
                ctx.reach(f"pair.reconnect-recovered:{t}")
            continue
        # read / write: result class
        if res[0] == "ok":
            if base == "write":
                if not ("ack" in complete or t in ("tcp-lines", "unix-lines")):
                    ctx.violation(f"{t}/pair/{combo}/write-completes-without-ack/{kind}", "write() completed although the ack never arrived completely", w)
            elif res[1] == b"":
                ctx.reach("read.eof-result")
            elif res[1] == REPLY and "reply" in complete:
                replies += 1
                if replies > 1:
                    ctx.violation(f"{t}/pair/{combo}/reply-delivered-twice/{kind}", "two read() calls returned the one reply the peer sent", w)
            else:
                ctx.violation(f"{t}/pair/{combo}/fabricated-or-truncated-data/{kind}", "read() returned data although the peer never sent that message completely", w)
        elif not (res[2] or res[3]):
            ctx.violation(f"{t}/pair/{combo}/{base}/{kind}/{res[1]}", "connection loss with two operations in flight surfaces as something other than a timeout / connection error / EOF", w)
        # bounded end: caller timeout + ack time; without a caller timeout the clock starts at the loss (or, for a silent peer, at the
        # local close / at the end of the other operation's caller timeout)
        if isinstance(to, float):
            late = dur > to + ack + 0.05 + TOL
        else:
            ref = max(o["ts"], ct or 0.0, closer_ts)
            late = o["te"] > ref + others_t + ack + 0.05 + TOL
        if late:
            ctx.violation(f"{t}/pair/{combo}/unbounded/{base}/{kind}/{tkey}", "the operation ended later than caller timeout + ack time after the connection was cut", w)


async def run_client_level(sc: dict[str, Any]) -> dict[str, Any]:
    from gallia.services.uds.core import service
    from gallia.services.uds.core.client import UDSClient

    loop = asyncio.get_running_loop()
    gws: list[gateway.Gateway] = []
    t0 = [loop.time()]
    cls = transport_class(sc["transport"])
    out: dict[str, Any] = {}
    with gateway.GatewayHub(make_factory(sc, gws, t0)) as hub:
        try:
            tr = await cls.connect(uri(sc["transport"]), timeout=5.0)
        except BaseException as e:
            out["connect_exc"] = type(e).__name__
            out["accepted"] = len(hub.connections)
            return out
        from gallia.services.uds.core.client import UDSRequestConfig

        # "configured with at least one retry": either client-wide (constructor) or for the one request (UDSRequestConfig, the
        # documented per-request override, on a client built with the default max_retry=0)
        via_config = sc.get("retry_via") == "request-config"
        cl = UDSClient(tr, timeout=sc["timeout"], max_retry=0 if via_config else sc["max_retry"])
        cfg = UDSRequestConfig(max_retry=sc["max_retry"]) if via_config else None
        if sc.get("two_requests"):
            # a first request without retries meets the loss (and may leave the connection closed locally, e.g. after an ack timeout);
            # the request that is judged is the next one on the same client, which has its retries
            try:
                r1 = await cl.request(service.ReadDataByIdentifierRequest(0xF190), UDSRequestConfig(max_retry=0))
                out["first"] = ("ok", r1.pdu)
            except BaseException as e:
                out["first"] = ("exc", type(e).__name__, isinstance(e, ConnectionError), isinstance(e, TimeoutError), repr(e)[:160], type(e.__cause__).__name__ if e.__cause__ else None)
        ts = loop.time()
        try:
            resp = await cl.request(service.ReadDataByIdentifierRequest(0xF190), cfg)
            out["res"] = ("ok", resp.pdu)
        except BaseException as e:
            out["res"] = ("exc", type(e).__name__, isinstance(e, ConnectionError), isinstance(e, TimeoutError), repr(e)[:160], type(e.__cause__).__name__ if e.__cause__ else None)
        out["ts"], out["te"] = ts, loop.time()
        try:
            await cl.transport.close()
            await cl.transport.close()
            out["close"] = "ok"
        except BaseException as e:
            out["close"] = type(e).__name__
        out["accepted"] = len(hub.connections)
        out["attempts"] = hub.attempts
        out["cut_time"] = gws[0].cut_time
        out["t0"] = t0[0]
        return out


async def run_reconnect_api(sc: dict[str, Any]) -> dict[str, Any]:
    """BaseTransport.reconnect(timeout): 'attempts to reconnect every 100 ms until at max timeout'. The peer refuses connections until
    `restart_at` (virtual seconds after the reconnect started)."""
    loop = asyncio.get_running_loop()
    gws: list[gateway.Gateway] = []
    t0 = [loop.time()]
    cls = transport_class(sc["transport"])
    out: dict[str, Any] = {}
    with gateway.GatewayHub(make_factory({**sc, "cut_at": None}, gws, t0)) as hub:
        tr = await cls.connect(uri(sc["transport"]), timeout=5.0)
        t0[0] = loop.time()
        try:
            tr2 = await tr.reconnect(timeout=sc["reconnect_timeout"])
            out["res"] = ("ok", None)
        except BaseException as e:
            out["res"] = ("exc", type(e).__name__, isinstance(e, ConnectionError), isinstance(e, TimeoutError), repr(e)[:120])
            tr2 = None
        out["dur"] = loop.time() - t0[0]
        if tr2 is not None:
            out["new_object"] = tr2 is not tr
            try:
                await tr2.write(REQ, timeout=2.0)
                out["reply"] = await tr2.read(timeout=2.0)
            except BaseException as e:
                out["exchange_exc"] = type(e).__name__
            await tr2.close()
        out["attempts"] = hub.attempts
    return out


def check_reconnect_api(ctx: Any, sc: dict[str, Any], out: dict[str, Any]) -> None:
    t, d, T = sc["transport"], sc["restart_at"], sc["reconnect_timeout"]
    w = {"scenario": sc, "out": out}
    res = out["res"]
    if d <= T - 0.5:
        ctx.reach("reconnect-api.peer-back-in-time")
        if res[0] != "ok":
            ctx.violation(f"{t}/reconnect-api/fails-although-peer-back-in-time/{res[1]}", f"the peer accepted connections again {d} s after reconnect(timeout={T}) started, but reconnect failed", w)
        elif out.get("reply") != REPLY:
            ctx.violation(f"{t}/reconnect-api/new-connection-unusable/{out.get('exchange_exc')}", "the transport returned by reconnect() cannot complete an exchange", w)
        elif out["dur"] > d + 0.45:
            ctx.violation(f"{t}/reconnect-api/late", f"reconnect() returned {out['dur']:.2f} s after it started although the peer was back after {d} s (documented: an attempt every 100 ms)", w)
    elif d >= T + 0.3:
        ctx.reach("reconnect-api.peer-too-late")
        if res[0] == "ok":
            ctx.violation(f"{t}/reconnect-api/succeeds-after-timeout", "reconnect() returned a connection although the peer only came back after the timeout", w)
        elif not (res[2] or res[3]):
            ctx.violation(f"{t}/reconnect-api/{res[1]}", "reconnect() fails with something other than a timeout / connection error", w)
        elif out["dur"] > T + 0.5:
            ctx.violation(f"{t}/reconnect-api/unbounded", f"reconnect(timeout={T}) took {out['dur']:.2f} s", w)


def frame_position(t: str, k: int, pending: bool = False) -> tuple[str, str]:
    """(frame label the cut falls into / 'end', where: boundary|mid-header|mid-payload)"""
    off = 0
    hl = {"doip": 8, "hsfz": 6}.get(t, 0)
    for lab, f in peer_stream(t, pending):
        if k == off:
            return lab, "boundary"
        if k < off + len(f):
            return lab, "mid-header" if k - off < hl else "mid-payload"
        off += len(f)
    return "end", "boundary"


def check_transport(ctx: Any, sc: dict[str, Any], out: dict[str, Any]) -> None:
    t = sc["transport"]
    frames = peer_stream(t)
    total = sum(len(f) for _, f in frames)
    k = sc["cut_at"] if sc["cut_at"] is not None else total + 1
    complete = set()
    off = 0
    for lab, f in frames:
        off += len(f)
        if k >= off:
            complete.add(lab)
    lab, where = frame_position(t, min(k, total))
    ctx.reach(f"cut.{where if where != 'boundary' else 'frame-boundary'}")
    ctx.reach(f"cell:{t}:{sc['kind']}:{'timeout' if sc['timeout'] is not None else 'no-timeout'}")
    w = {"scenario": sc, "ops": out["ops"], "cut_in": lab, "where": where}
    ack = ACK_TIME[t]
    for o in out["ops"]:
        res = o["res"]
        dur = o["te"] - o["ts"]
        name = o["op"]
        if name in ("close", "close2"):
            ctx.reach("close-twice")
            if res[0] != "ok":
                ctx.violation(f"{t}/close/{'second' if name == 'close2' else 'after-loss'}/{res[1]}", "closing the transport after connection loss (or twice) raises", w)
            continue
        cut_happened = sc["cut_at"] is not None
        if name == "connect":
            need = "rar" in complete or t != "doip"
            if need and res[0] != "ok" and not (cut_happened and t == "doip" and (res[2] or res[3])):
                ctx.violation(f"{t}/connect/fails-although-handshake-complete/{res[1]}", "connect() failed although the peer completed the handshake", w)
            if not need:
                if res[0] == "ok":
                    ctx.violation(f"{t}/connect/succeeds-without-handshake", "connect() succeeded although the routing activation response never arrived completely", w)
                elif not (res[2] or res[3]):
                    ctx.violation(f"{t}/connect/{res[1]}", "connection loss during the handshake surfaces as something other than a timeout / connection error", w)
                if dur > 2.0 + TOL:
                    ctx.violation(f"{t}/connect/unbounded", "connect() did not end within the routing activation time", w)
            continue
        limit = (sc["timeout"] or 0.0) + ack
        if name == "write":
            acked = "ack" in complete or t in ("tcp-lines", "unix-lines")
            if acked:
                # the statement allows a connection error / timeout whenever the peer cut the connection during the exchange
                if res[0] != "ok" and not (cut_happened and (res[2] or res[3])):
                    ctx.violation(f"{t}/write/fails-although-acked/{res[1]}", "write() failed although the peer acknowledged the message completely", w)
            else:
                if res[0] == "ok":
                    ctx.violation(f"{t}/write/completes-without-ack/{sc['kind']}", "write() completed although the ack never arrived completely", w)
                elif not (res[2] or res[3]):
                    ctx.violation(f"{t}/write/{sc['kind']}/{res[1]}", "connection loss while waiting for the ack surfaces as something other than a timeout / connection error", w)
            if res[0] == "exc" and dur > max(limit, ack) + TOL:
                ctx.violation(f"{t}/write/unbounded/{sc['kind']}", "write() ended later than caller timeout + ack time", w)
            continue
        if name == "read":
            if "reply" in complete:
                if res != ("ok", REPLY) and not (cut_happened and res[0] == "exc" and (res[2] or res[3])) and not (cut_happened and res == ("ok", b"")):
                    ctx.violation(f"{t}/read/complete-reply-not-delivered/{sc['kind']}/{res[1] if res[0] == 'exc' else 'other-data'}", "the peer sent the complete reply before the cut but read() did not return it", w)
                continue
            if res[0] == "ok":
                if res[1] == b"":
                    ctx.reach("read.eof-result")
                else:
                    ctx.violation(f"{t}/read/fabricated-or-truncated-data/{sc['kind']}/{where}", "read() returned data although the peer never sent a complete message", w)
            elif not (res[2] or res[3]):
                ctx.violation(f"{t}/read/{sc['kind']}/{res[1]}", "connection loss while waiting for the reply surfaces as something other than a timeout / connection error / EOF", w)
            bound = limit if sc["timeout"] is not None else ack
            if dur > bound + 0.05 + TOL:
                ctx.violation(f"{t}/read/unbounded/{sc['kind']}", "read() ended later than caller timeout + ack time after the connection was cut", w)


def check_followup(ctx: Any, sc: dict[str, Any], out: dict[str, Any]) -> None:
    """second use of one transport object: write(), [pause], read(), then either a consumer loop (read until the transport reports the
    end) or another write() (+ reads). Everything after the cut is judged by the statement alone: each operation ends in bounded time
    with a timeout / connection error / EOF, and the data returned by the successive reads is an in-order selection of the complete
    data frames the peer sent (nothing twice, nothing the peer did not send)."""
    t, kind, to, again = sc["transport"], sc["kind"], sc["timeout"], sc["again"]
    pending = sc.get("pending", False)
    frames = peer_stream(t, pending)
    total = sum(len(f) for _, f in frames)
    k = sc["cut_at"]
    complete = set()
    off = 0
    for lab, f in frames:
        off += len(f)
        if min(k, out.get("fed_bytes", k)) >= off:
            complete.add(lab)
    expected = [d for lab, d in (("pending", PENDING), ("reply", REPLY)) if lab in complete]
    lab, where = frame_position(t, min(k, total), pending)
    ack = ACK_TIME[t]
    tkey = "timeout" if to is not None else "no-timeout"
    ct = out.get("cut_time")
    w = {"scenario": sc, "ops": out["ops"], "cut_in": lab, "where": where, "cut_time": ct}
    ctx.reach(f"again:{t}:{again}")
    ctx.reach(f"cut.{where if where != 'boundary' else 'frame-boundary'}")
    ptr = 0
    late_data = False  # a read() that was only called after the loss returned data: frames and end of stream had arrived together
    prev_failed = False
    for o in out["ops"]:
        name, res = o["op"], o["res"]
        dur = o["te"] - o["ts"]
        base = name.rstrip("0123456789")
        second = name not in ("connect", "write", "read")
        after_loss = ct is not None and o["ts"] >= ct
        if name in ("close", "close2"):
            ctx.reach("close-twice")
            if res[0] != "ok":
                ctx.violation(f"{t}/second-use/close/{'second' if name == 'close2' else 'after-loss'}/{res[1]}", "closing the transport after connection loss and a second use (or twice) raises", w)
            continue
        if name == "connect":
            if res[0] != "ok":
                ctx.violation(f"{t}/connect/fails-although-handshake-complete/{res[1]}", "connect() failed although the peer completed the handshake", w)
            continue
        if second and after_loss:
            ctx.reach(f"again.{base}-after-loss:{t}")
            if to is None:
                ctx.reach(f"again.{base}-after-loss.no-timeout:{t}")
            if prev_failed:
                ctx.reach(f"again.{base}-after-failed-operation:{t}")
            if base == "read" and late_data:
                ctx.reach(f"again.read-after-late-pickup:{t}")
                if to is None:
                    ctx.reach(f"again.read-after-late-pickup.no-timeout:{t}")
        if res[0] == "exc" and not (res[2] or res[3]):
            ctx.violation(f"{t}/second-use/{base}/{kind}/{res[1]}", "connection loss surfaces (on the first or a later operation on the transport) as something other than a timeout / connection error / EOF", w)
        if base == "write":
            acked = t in ("tcp-lines", "unix-lines") or (name == "write" and "ack" in complete)
            if res[0] == "ok" and not acked:
                ctx.violation(f"{t}/second-use/write-completes-without-ack/{kind}", "write() completed although the peer never acknowledged it (the connection was cut before)", w)
            if res[0] != "ok" and acked and ct is None:
                ctx.violation(f"{t}/second-use/write/fails-although-acked/{res[1]}", "write() failed although the peer acknowledged the message completely", w)
        elif res[0] == "ok" and res[1]:
            if res[1] in expected[ptr:]:
                ptr += expected[ptr:].index(res[1]) + 1
                if after_loss:
                    late_data = True
                    ctx.reach(f"again.late-pickup:{t}")
            else:
                ctx.violation(f"{t}/second-use/fabricated-duplicated-or-truncated-data/{kind}", "successive read() calls returned something other than an in-order selection of the complete data frames the peer sent", w)
        elif res[0] == "ok":
            ctx.reach("read.eof-result")
        prev_failed = res[0] != "ok"
        # bounded end: caller timeout + ack time; without a caller timeout (only generated for EOF / reset; a write is bounded by the ack
        # time anyway) the clock starts at the loss
        if isinstance(to, float):
            late = dur > to + ack + 0.05 + TOL
        elif ct is None:
            ctx.reach("again.cut-not-reached")
            late = False
        else:
            late = o["te"] > max(o["ts"], ct) + ack + 0.05 + TOL
        if late:
            ctx.violation(f"{t}/second-use/unbounded/{base}/{kind}/{tkey}", "the operation ended later than caller timeout + ack time after the connection was cut", w)


def reconnect_in_time(sc: dict[str, Any], out: dict[str, Any]) -> bool:
    """True if the peer accepts again before the client's (single) reconnect attempt; DoIP keeps trying for 10 s"""
    d = sc["restart_at"]
    if sc["transport"] == "doip":
        return d < 9.0
    # single attempt 0.2 s after the failure was noticed; the failure is noticed no earlier than the cut
    cut = (out.get("cut_time") or out.get("t0", 0.0)) - out.get("t0", 0.0)
    return d <= cut + 0.2 - 1e-6


def check_client(ctx: Any, sc: dict[str, Any], out: dict[str, Any]) -> None:
    t = sc["transport"]
    frames = peer_stream(t, sc.get("pending", False))
    total = sum(len(f) for _, f in frames)
    k = sc["cut_at"] if sc["cut_at"] is not None else total + 1
    w = {"scenario": sc, "out": {a: b for a, b in out.items()}}
    lab, where = frame_position(t, min(k, total), sc.get("pending", False))
    if sc.get("pending"):
        ctx.reach("client.pending-variant")
        if lab in ("reply", "end") and k <= total:
            ctx.reach("client.cut-after-pending")
    if sc.get("second_silent"):
        ctx.reach("client.second-connection-silent")
    via_config = sc.get("retry_via") == "request-config"
    if via_config and "connect_exc" not in out and k <= total:
        ctx.reach("client.retry-via-request-config")
        ctx.reach(f"client.retry-via-request-config:{sc['kind']}")
        if sc.get("pending") and lab in ("reply", "end"):
            ctx.reach("client.retry-via-request-config.cut-after-pending")
    if sc.get("two_requests") and "first" in out:
        ctx.reach("client.two-requests")
        f = out["first"]
        if f[0] == "exc":
            ctx.reach("client.two-requests.first-failed")
            if not (f[2] or f[3]) and k <= total:
                ctx.violation(f"{t}/client/{sc['kind']}/first-request/{f[1]}", "connection loss surfaces from request() as something other than a missing response / connection error", w)
            if k > total:
                ctx.violation(f"{t}/client/fails-without-cut/{f[1]}", "request() failed although the peer answered completely", w)
        elif f[1] != REPLY:
            ctx.violation(f"{t}/client/wrong-reply-after-reconnect", "request() returned something other than the genuine reply", w)
    ctx.reach(f"cut.{where if where != 'boundary' else 'frame-boundary'}")
    if "connect_exc" in out:
        return  # handshake cut: covered at transport level
    res = out["res"]
    dur = out["te"] - out["ts"]
    r = sc["max_retry"]
    per_attempt = sc["timeout"] + ACK_TIME[t] + 121 * 0.5 + 21 + 0.2 * 2 ** (r + 1) + 10.5
    if dur > (r + 1) * per_attempt:
        ctx.violation(f"{t}/client/unbounded/{sc['kind']}", "request() took longer than the retry/timeout bounds allow", w)
    if out.get("close") != "ok":
        ctx.violation(f"{t}/client/close-after-recovery/{out.get('close')}", "closing the transport after the exchange raises", w)
    if res[0] == "ok":
        if res[1] != REPLY:
            ctx.violation(f"{t}/client/wrong-reply-after-reconnect", "request() returned something other than the genuine reply", w)
            return
        if k <= total and out["accepted"] >= 2:
            ctx.reach(f"recovered:{t}")
            if via_config:
                ctx.reach(f"recovered-via-request-config:{t}")
            if out["accepted"] != (3 if sc.get("second_silent") else 2) and False:
                ctx.violation(f"{t}/client/connections-per-reconnect", f"the peer saw {out['accepted']} connections for one reconnect", w)
        return
    # failure: allowed when the statement does not promise recovery
    if k > total:
        ctx.violation(f"{t}/client/fails-without-cut/{res[1]}", "request() failed although the peer answered completely", w)
        return
    if not (res[2] or res[3]):
        ctx.violation(f"{t}/client/{sc['kind']}/{res[1]}", "connection loss surfaces from request() as something other than a missing response / connection error", w)
        return
    # a silent peer keeps the connection open: the caller sees timeouts, which do not trigger a reconnect
    silent_open = sc["kind"] == "silence"
    if silent_open:
        ctx.reach("client.silent-peer-no-recovery")
        return
    if not reconnect_in_time(sc, out):
        ctx.reach("client.peer-back-too-late")
        return
    ctx.violation(f"{t}/client/no-recovery/{sc['kind']}/{where}/{res[1]}{'/retry-via-request-config' if via_config else ''}",
                  "the peer accepted connections again in time but the client (max_retry >= 1" + (" given by the per-request config" if via_config else "") + ") did not obtain the reply", w)


def one(ctx: Any, sc: dict[str, Any]) -> None:
    total = sum(len(f) for _, f in peer_stream(sc["transport"], sc.get("pending", False)))
    ctx.case(repr(sc), nontrivial=(sc["cut_at"] is not None and sc["cut_at"] < total) or sc.get("cut_after") is not None or bool(sc.get("again")))
    coro = run_client_level(sc) if sc["level"] == "client" else run_reconnect_api(sc) if sc["level"] == "reconnect-api" else run_pair_level(sc) if sc["level"] == "pair" else run_transport_level(sc)
    try:
        out = vtime.run(coro, horizon=HORIZON, cpu_limit=45.0)
    except vtime.Spinning:
        ctx.violation(f"{sc['transport']}/{sc['level']}/spins-without-yielding/{sc['kind']}", "the operation burns CPU without ever reaching a suspension point after the connection was cut (no timeout of the caller can end it)", {"scenario": sc})
        return
    except vtime.Unbounded:
        ctx.violation(f"{sc['transport']}/{sc['level']}/unbounded/{sc['kind']}/{'peer-gone-for-good' if sc.get('restart_at', 0) > HORIZON else 'peer-back'}",
                      f"the operation was still running after {HORIZON:.0f} virtual seconds", {"scenario": sc})
        return
    except vtime.Deadlock:
        lab, where = frame_position(sc["transport"], sc["cut_at"] or 0, sc.get("pending", False))
        ctx.violation(f"{sc['transport']}/{sc['level']}{'/' + sc['combo'] if 'combo' in sc else ''}{'/second-use' if sc.get('again') else ''}/blocks-forever/{sc['kind']}/{'timeout' if sc['timeout'] is not None else 'no-timeout'}/cut-in-{lab}",
                      "the pending operation can never complete after the connection was cut (nothing scheduled, nothing readable)", {"scenario": sc})
        return
    ctx.trace((sc["transport"], sc["level"], sc["kind"], tuple((o["op"], o["res"][0] if o["res"][0] == "ok" else o["res"][1]) for o in out.get("ops", [])), out.get("res", (None, None))[:2]))
    if sc["level"] == "client":
        check_client(ctx, sc, out)
    elif sc["level"] == "reconnect-api":
        check_reconnect_api(ctx, sc, out)
    elif sc["level"] == "pair":
        check_pair(ctx, sc, out)
    elif sc.get("again"):
        check_followup(ctx, sc, out)
    else:
        check_transport(ctx, sc, out)


# ---- real sockets ---------------------------------------------------------------------------------------
async def real_case(ctx: Any, sc: dict[str, Any], sockdir: str) -> None:
    """tcp-lines / unix-lines on real loopback sockets: the peer answers, closes (FIN), resets (SO_LINGER 0) or stalls after k bytes;
    a second connection is answered completely."""
    from gallia.services.uds.core import service
    from gallia.services.uds.core.client import UDSClient

    t = sc["transport"]
    reply_line = hexlify(REPLY) + b"\n"
    accepted: list[Any] = []

    async def handle(reader: asyncio.StreamReader, writer: asyncio.StreamWriter) -> None:
        n = len(accepted)
        accepted.append(writer)
        try:
            line = await reader.readline()
            if not line:
                return
            if n == 0 and sc["cut_at"] < len(reply_line):
                writer.write(reply_line[: sc["cut_at"]])
                await writer.drain()
                if sc["kind"] == "eof":
                    writer.close()
                elif sc["kind"] == "reset":
                    s = writer.get_extra_info("socket")
                    s.setsockopt(socket.SOL_SOCKET, socket.SO_LINGER, struct.pack("ii", 1, 0))
                    writer.close()
                else:
                    await asyncio.sleep(3600)
                return
            writer.write(reply_line)
            await writer.drain()
            await reader.read()
        except (ConnectionError, asyncio.CancelledError):
            pass
        finally:
            writer.close()

    if t == "tcp-lines":
        server = await asyncio.start_server(handle, "127.0.0.1", 0)
        port = server.sockets[0].getsockname()[1]
        target = f"tcp-lines://127.0.0.1:{port}"
    else:
        path = os.path.join(sockdir, f"s{os.getpid()}-{sc['idx']}.sock")
        server = await asyncio.start_unix_server(handle, path)
        target = f"unix-lines://{path}"
    cls = transport_class(t)
    loop = asyncio.get_running_loop()
    w = {"scenario": sc}
    try:
        from gallia.services.uds.core.client import UDSRequestConfig

        tr = await cls.connect(target, timeout=2.0)
        via_config = sc.get("retry_via") == "request-config"
        cl = UDSClient(tr, timeout=sc["timeout"], max_retry=0 if via_config else sc["max_retry"])
        cfg = UDSRequestConfig(max_retry=sc["max_retry"]) if via_config else None
        if sc.get("two_requests"):
            # a first request without retries meets the loss (and may leave the connection closed locally, e.g. after an ack timeout);
            # the request that is judged is the next one on the same client, which has its retries
            try:
                r1 = await cl.request(service.ReadDataByIdentifierRequest(0xF190), UDSRequestConfig(max_retry=0))
                out["first"] = ("ok", r1.pdu)
            except BaseException as e:
                out["first"] = ("exc", type(e).__name__, isinstance(e, ConnectionError), isinstance(e, TimeoutError), repr(e)[:160], type(e.__cause__).__name__ if e.__cause__ else None)
        ts = loop.time()
        try:
            resp = await asyncio.wait_for(cl.request(service.ReadDataByIdentifierRequest(0xF190), cfg), 30)
            res: tuple[Any, ...] = ("ok", resp.pdu)
        except TimeoutError as e:
            res = ("exc", type(e).__name__, False, True)
        except BaseException as e:
            res = ("exc", type(e).__name__, isinstance(e, ConnectionError), isinstance(e, TimeoutError))
        dur = loop.time() - ts
        ctx.reach("real.cases")
        cut = sc["cut_at"] < len(reply_line)
        if res[0] == "ok":
            if res[1] != REPLY:
                ctx.violation(f"real/{t}/wrong-reply", "request() over a real socket returned something other than the genuine reply", {**w, "res": res})
            elif cut:
                ctx.reach("real.recovered")
                if via_config:
                    ctx.reach("real.recovered-via-request-config")
        else:
            if not cut:
                ctx.violation(f"real/{t}/fails-without-cut/{res[1]}", "request() failed although the peer answered completely", {**w, "res": res})
            elif not (res[2] or res[3]):
                ctx.violation(f"real/{t}/{sc['kind']}/{res[1]}", "connection loss surfaces as something other than a missing response / connection error", {**w, "res": res})
            elif sc["kind"] in ("eof", "reset") and sc["max_retry"] >= 1 and cut:
                ctx.violation(f"real/{t}/no-recovery/{sc['kind']}/{res[1]}{'/retry-via-request-config' if via_config else ''}", "peer closed/reset the first connection and accepts again, but the client with max_retry>=1 did not obtain the reply", {**w, "res": res})
        if dur > (sc["max_retry"] + 1) * (sc["timeout"] + 1.5) + 2:
            ctx.violation(f"real/{t}/unbounded/{sc['kind']}", "request() over a real socket took longer than the retry/timeout bounds allow", {**w, "dur": dur})
        try:
            await cl.transport.close()
            await cl.transport.close()
        except BaseException as e:
            ctx.violation(f"real/{t}/close/{type(e).__name__}", "closing the transport (twice) raises", w)
    finally:
        for wr in accepted:
            wr.close()
        server.close()  # never awaited: Server.wait_closed() can hang on 3.12.1 with open connections


async def real_pair_case(ctx: Any, sc: dict[str, Any], sockdir: str) -> None:
    """tcp-lines / unix-lines on real loopback sockets: a task is suspended in read() without caller timeout after the peer took the
    request and closed / reset / stalled; another task then calls close() or reconnect(). Real-socket counterpart of the virtual
    read+close / read+reconnect combinations (there the effect of a local close on a suspended reader is a model, here it is asyncio's)."""
    t, kind, combo = sc["transport"], sc["kind"], sc["combo"]
    reply_line = hexlify(REPLY) + b"\n"
    accepted: list[Any] = []

    async def handle(reader: asyncio.StreamReader, writer: asyncio.StreamWriter) -> None:
        n = len(accepted)
        accepted.append(writer)
        try:
            line = await reader.readline()
            if not line:
                return
            if n == 0:
                writer.write(reply_line[: sc["cut_at"]])
                await writer.drain()
                if kind == "reset":
                    writer.get_extra_info("socket").setsockopt(socket.SOL_SOCKET, socket.SO_LINGER, struct.pack("ii", 1, 0))
                if kind == "silence":
                    await asyncio.sleep(3600)
                return
            writer.write(reply_line)
            await writer.drain()
            await reader.read()
        except (ConnectionError, asyncio.CancelledError):
            pass
        finally:
            writer.close()

    if t == "tcp-lines":
        server = await asyncio.start_server(handle, "127.0.0.1", 0)
        target = f"tcp-lines://127.0.0.1:{server.sockets[0].getsockname()[1]}"
    else:
        path = os.path.join(sockdir, f"p{os.getpid()}-{sc['idx']}.sock")
        server = await asyncio.start_unix_server(handle, path)
        target = f"unix-lines://{path}"
    w = {"scenario": sc}
    BOUND = 8.0  # real seconds; the operations themselves need milliseconds

    async def outcome(coro: Any) -> tuple[Any, ...]:
        try:
            r = await coro
            return ("ok", r if isinstance(r, bytes) else None, r)
        except BaseException as e:
            return ("exc", type(e).__name__, isinstance(e, ConnectionError), isinstance(e, TimeoutError))

    try:
        tr = await transport_class(t).connect(target, timeout=2.0)
        await tr.write(REQ, timeout=2.0)
        rt = asyncio.ensure_future(outcome(tr.read(timeout=None)))
        await asyncio.sleep(0.15)
        ctx.reach("real.pair-cases")
        if not rt.done():
            ctx.reach("real.closer-while-read-pending")
        cres = await outcome(asyncio.wait_for(tr.reconnect(timeout=3.0) if combo == "read+reconnect" else tr.close(), BOUND))
        if cres[0] != "ok":
            ctx.violation(f"real/{t}/pair/{combo}/{'blocks' if cres[3] else 'raises'}/{kind}/{cres[1]}", "close()/reconnect() from another task after the loss, with a read() suspended on the transport, raises or does not return", {**w, "res": cres[:2]})
        done, _ = await asyncio.wait({rt}, timeout=BOUND)
        if not done:
            ctx.violation(f"real/{t}/pair/{combo}/blocks-forever/read/{kind}", "the suspended read() did not end after the loss and the local close", w)
            rt.cancel()
        else:
            rres = rt.result()
            if rres[0] == "ok" and rres[1] not in (b"", REPLY):
                ctx.violation(f"real/{t}/pair/{combo}/fabricated-or-truncated-data/{kind}", "read() returned data the peer never sent completely", {**w, "res": rres[:2]})
            elif rres[0] == "ok" and rres[1] == REPLY and sc["cut_at"] < len(reply_line):
                ctx.violation(f"real/{t}/pair/{combo}/fabricated-or-truncated-data/{kind}", "read() returned a reply the peer never sent completely", {**w, "res": rres[:2]})
            elif rres[0] == "exc" and not (rres[2] or rres[3]):
                ctx.violation(f"real/{t}/pair/{combo}/read/{kind}/{rres[1]}", "the suspended read() ends with something other than a timeout / connection error / EOF", {**w, "res": rres[:2]})
        if combo == "read+reconnect" and cres[0] == "ok":
            tr2 = cres[2]
            r2 = await outcome(tr2.request(REQ, timeout=2.0))
            if r2[:2] != ("ok", REPLY):
                ctx.violation(f"real/{t}/pair/{combo}/new-connection-unusable/{r2[1] if r2[0] == 'exc' else 'other-data'}", "the transport returned by reconnect() cannot complete an exchange", {**w, "res": r2[:2]})
            else:
                ctx.reach("real.pair-reconnect-recovered")
            c2 = await outcome(asyncio.wait_for(tr2.close(), BOUND))
            if c2[0] != "ok":
                ctx.violation(f"real/{t}/close/{c2[1]}", "closing the transport raises", w)
        for _ in range(2):
            c = await outcome(asyncio.wait_for(tr.close(), BOUND))
            if c[0] != "ok":
                ctx.violation(f"real/{t}/close/{c[1]}", "closing the transport (twice) raises", w)
    finally:
        for wr in accepted:
            wr.close()
        server.close()  # never awaited: Server.wait_closed() can hang on 3.12.1 with open connections


# ---- real sockets: the transport is used again after the loss, then closed ---------------------------------
AFTER_LOSS_MODES = ("on-accept", "unread-request", "after-request")
AFTER_LOSS_USES = (("write",), ("read", "write"), ("uds",), ("uds", "uds"), ("write", "read", "write"), ("request",), ("burst",), ("burst", "uds"))  # burst = two write() calls with no pause in between


def after_loss_cases(part: int, nparts: int, rng: Any) -> list[dict[str, Any]]:
    """line transport x where the peer ends the first connection x how (close / SO_LINGER reset) x what the caller still does with the
    transport object before it closes it; every combination is run by exactly one of the real-socket shards"""
    out = []
    i = 0
    for t in ("tcp-lines", "unix-lines"):
        for mode in AFTER_LOSS_MODES:
            for kind in ("eof", "reset"):
                for uses in AFTER_LOSS_USES:
                    if i % nparts == part:
                        out.append({"transport": t, "idx": 100 + i, "after_loss": True, "mode": mode, "kind": kind, "uses": list(uses), "cut_at": rng.choice([0, 1, 12, 24])})
                    i += 1
    return out


async def real_after_loss_case(ctx: Any, sc: dict[str, Any], sockdir: str) -> None:
    """tcp-lines / unix-lines on real loopback sockets, SECOND USE of the transport object after the loss and then close() twice (what a
    scanner's teardown does after its requests failed). The peer ends the first connection
      on-accept       right after accepting it (before any request),
      unread-request  after the client wrote its request, without ever reading it,
      after-request   after reading the request and sending `cut_at` bytes of the reply,
    by close() or by an SO_LINGER-0 close. The caller then goes on using the object - write(), read(), request() of the transport, or
    requests of a UDSClient without retries on top of it - and finally closes it twice. What the kernel reports for a write on the dead
    connection differs per socket family (a unix stream socket fails the first write with EPIPE, TCP accepts one write and fails the
    next one after the RST, a reset is reported to whoever touches the socket next); the statement does not: every operation ends in
    bounded time with a timeout / connection error / EOF / missing response, nothing is fabricated, and both close() calls return."""
    from gallia.services.uds.core import service
    from gallia.services.uds.core.client import UDSClient, UDSRequestConfig

    t, kind, mode = sc["transport"], sc["kind"], sc["mode"]
    reply_line = hexlify(REPLY) + b"\n"
    accepted: list[Any] = []
    may_cut = asyncio.Event()
    cut_done = asyncio.Event()

    async def handle(reader: asyncio.StreamReader, writer: asyncio.StreamWriter) -> None:
        accepted.append(writer)
        try:
            if mode == "unread-request":
                await may_cut.wait()
            elif mode == "after-request":
                await reader.readline()
                writer.write(reply_line[: sc["cut_at"]])
                await writer.drain()
            if kind == "reset":
                writer.get_extra_info("socket").setsockopt(socket.SOL_SOCKET, socket.SO_LINGER, struct.pack("ii", 1, 0))
        except (ConnectionError, asyncio.CancelledError):
            pass
        finally:
            writer.close()
            cut_done.set()

    if t == "tcp-lines":
        server = await asyncio.start_server(handle, "127.0.0.1", 0)
        target = f"tcp-lines://127.0.0.1:{server.sockets[0].getsockname()[1]}"
    else:
        path = os.path.join(sockdir, f"a{os.getpid()}-{sc['idx']}.sock")
        server = await asyncio.start_unix_server(handle, path)
        target = f"unix-lines://{path}"
    loop = asyncio.get_running_loop()
    BOUND = 8.0  # real seconds; the operations have caller timeouts of 0.5 s and need milliseconds
    ops: list[dict[str, Any]] = []
    w = {"scenario": sc, "ops": ops}

    async def op(name: str, coro: Any, after: bool) -> dict[str, Any]:
        rec: dict[str, Any] = {"op": name, "after_loss": after}
        ts = loop.time()
        try:
            r = await asyncio.wait_for(coro, BOUND)
            rec["res"] = ("ok", r if isinstance(r, (bytes, int)) else getattr(r, "pdu", None))
        except BaseException as e:
            rec["res"] = ("exc", type(e).__name__, isinstance(e, ConnectionError), isinstance(e, TimeoutError), repr(e)[:120], type(e.__cause__).__name__ if e.__cause__ else None,
                          isinstance(e.__cause__, ConnectionError))
        rec["dur"] = loop.time() - ts
        ops.append(rec)
        return rec

    try:
        tr = await transport_class(t).connect(target, timeout=2.0)
        cl = None
        # the exchange that meets the loss
        if mode != "on-accept":
            await op("write", tr.write(REQ, timeout=0.5), False)
            may_cut.set()
        await asyncio.wait_for(cut_done.wait(), BOUND)
        await asyncio.sleep(0.05)  # the peer's FIN / RST has arrived
        if mode != "on-accept":
            await op("read", tr.read(timeout=0.5), False)
        # the caller goes on using the object
        for u in sc["uses"]:
            if u == "write":
                await op("write", tr.write(REQ, timeout=0.5), True)
            elif u == "burst":
                r = await op("write", tr.write(REQ, timeout=0.5), True)
                if r["res"][0] == "ok":
                    # back to back: the event loop has not looked at the socket since the first write (whose answer from the peer's
                    # kernel is there already)
                    await op("write", tr.write(REQ, timeout=0.5), True)
            elif u == "read":
                await op("read", tr.read(timeout=0.5), True)
            elif u == "request":
                await op("request", tr.request(REQ, timeout=0.5), True)
            else:
                if cl is None:
                    cl = UDSClient(tr, timeout=0.3, max_retry=0)
                await op("uds", cl.request(service.ReadDataByIdentifierRequest(0xF190), UDSRequestConfig(max_retry=0)), True)
            await asyncio.sleep(0.02)
        closee = cl.transport if cl is not None else tr
        await op("close", closee.close(), True)
        await op("close2", closee.close(), True)
    finally:
        for wr in accepted:
            wr.close()
        server.close()  # never awaited: Server.wait_closed() can hang on 3.12.1 with open connections
    # ---- judgement ----
    ctx.reach(f"real.after-loss:{t}")
    ctx.reach(f"real.after-loss.{mode}:{t}")
    failed_use = failed_write = False
    for o in ops:
        name, res = o["op"], o["res"]
        if o["dur"] >= BOUND - 0.2:
            ctx.violation(f"real/{t}/after-loss/blocks/{name}/{kind}", "an operation on a transport that lost its peer (second use / close) did not end within the watchdog", w)
            continue
        if name in ("close", "close2"):
            ctx.reach("close-twice")
            if failed_write:
                ctx.reach(f"real.close-after-failed-write:{t}")
            if failed_use:
                ctx.reach(f"real.close-after-failed-use:{t}")
            if res[0] != "ok":
                ctx.violation(f"real/{t}/after-loss/close/{'second' if name == 'close2' else 'first'}/{res[1]}",
                              "closing a transport that lost its peer and was used again by the caller before the close raises", w)
            continue
        if o["after_loss"]:
            ctx.reach(f"real.use-after-loss.{name}:{t}")
        if res[0] == "ok":
            if name == "write" or res[1] == b"":
                continue
            # the peer never sent a complete reply (cut_at is smaller than the reply line)
            ctx.violation(f"real/{t}/after-loss/fabricated-or-truncated-data/{name}/{kind}", "an operation on a transport that lost its peer returned data the peer never sent completely", w)
            continue
        if not (res[2] or res[3]):
            ctx.violation(f"real/{t}/after-loss/{name}/{kind}/{res[1]}", "connection loss surfaces on a later operation as something other than a timeout / connection error / EOF / missing response", w)
            continue
        failed_use = True
        if name == "write" and res[2]:
            failed_write = True


def run_pairs(ctx: Any, params: dict[str, Any]) -> None:
    """two operations from two tasks on one transport x every cut offset after the handshake x cut kind x caller timeouts"""
    t = params["transport"]
    framed = t in ("doip", "hsfz")
    frames = peer_stream(t)
    total = sum(len(f) for _, f in frames)
    hs = sum(len(f) for l, f in frames if l == "rar")
    ack_end = hs + sum(len(f) for l, f in frames if l == "ack")
    thorough = ctx.tier == "thorough"
    # (first operation's timeout, second operation's timeout); a read without caller timeout is only required to end after EOF / reset
    # (or after the local close in the closer combinations), a write without caller timeout is bounded by the ack time
    lossy = [(None, None), (2.0, None), (None, 0.3), (0.3, 2.0)]
    base = {"transport": t, "level": "pair", "cut_at": None, "timeout": None}
    for k in range(hs, total + 1):
        for kind in ("eof", "reset", "silence"):
            sil = kind == "silence"
            for t1, t2 in ([(None, 2.0), (0.3, 2.0), (2.0, 0.3)] if sil else lossy):
                one(ctx, {**base, "combo": "write+read", "cut_at": k, "kind": kind, "t1": t1, "t2": t2, "timeout": None if None in (t1, t2) else t1})
            if k >= ack_end:
                if framed:
                    for t1, t2 in ([(0.3, 2.0), (2.0, 0.3)] if sil else lossy):
                        one(ctx, {**base, "combo": "read+read", "cut_at": k, "kind": kind, "t1": t1, "t2": t2, "timeout": None if None in (t1, t2) else t1})
                for combo in ("read+close", "read+reconnect"):
                    for t1 in (None, 2.0):
                        for delay in ((0.3, 1.2) if thorough else (0.3,)):
                            one(ctx, {**base, "combo": combo, "cut_at": k, "kind": kind, "t1": t1, "t2": None, "timeout": t1, "close_delay": delay})
            elif framed:
                for t1 in (None, 2.0, 0.3):
                    one(ctx, {**base, "combo": "write+close", "cut_at": k, "kind": kind, "t1": t1, "t2": None, "timeout": t1, "close_delay": 0.3})
        if ctx.out_of_time():
            break
    # a listener is suspended in read() when another task starts a write(); the peer cuts the connection `cut_after` seconds later
    # (before the ack, between ack and reply, in the reply's neighbourhood, after the complete exchange)
    for ca in (0.004, 0.0125, 0.0201, 0.05, 0.7):
        for kind in ("eof", "reset", "silence"):
            for t1, t2 in ([(2.0, None), (0.3, 2.0), (2.0, 0.3)] if kind == "silence" else lossy):
                one(ctx, {**base, "combo": "read+write", "cut_after": ca, "kind": kind, "t1": t1, "t2": t2, "timeout": None if None in (t1, t2) else t1})
    ctx.sample({"transport": t, "pair-combos": list(PAIR_COMBOS), "offsets": [hs, total]})


def run_second_use(ctx: Any, params: dict[str, Any]) -> None:
    """second use of the same transport object after an exchange that met the loss: the cut at every offset after the ack (plain stream
    and stream with a responsePending before the reply) x pause between write() and read() (none / between the two data frames / long
    enough for everything incl. the end of stream to be there before read() is called) x what follows {consumer loop reading until the
    transport reports the end, another write() + reads}. Without caller timeout at every offset (EOF, reset), with a caller timeout and
    for a silent peer around the frame boundaries."""
    t = params["transport"]
    for pending in (False, True):
        frames = peer_stream(t, pending)
        total = sum(len(f) for _, f in frames)
        start = sum(len(f) for l, f in frames if l in ("rar", "ack"))
        near = set()
        off = 0
        for _, f in frames:
            near |= {off, off + 1, off + len(f) - 1, off + len(f)}
            off += len(f)
        offsets = list(range(start, total + 1, params["step"]))
        if "half" in params:
            offsets = [o for i, o in enumerate(offsets) if i % 2 == params["half"] or o == total]
        base = {"transport": t, "level": "transport", "pending": pending}
        for k in offsets:
            for pickup in ((PICKUP_MID, PICKUP_LATE) if pending else (0.0, PICKUP_LATE)):
                for kind in ("eof", "reset"):
                    one(ctx, {**base, "cut_at": k, "kind": kind, "timeout": None, "pickup": pickup, "again": "drain"})
                if k in near:
                    for kind in ("eof", "reset", "silence"):
                        for again in ("drain", "write"):
                            one(ctx, {**base, "cut_at": k, "kind": kind, "timeout": 2.0, "pickup": pickup, "again": again})
                        if kind != "silence":
                            one(ctx, {**base, "cut_at": k, "kind": kind, "timeout": None, "pickup": pickup, "again": "write"})
            if ctx.out_of_time():
                break


def run(ctx: Any, params: dict[str, Any]) -> None:
    import gallia.command  # noqa: F401

    vtime.quiet_logging()
    rng = ctx.rng
    if params["mode"] == "virtual" and params.get("pair"):
        run_pairs(ctx, params)
        return
    if params["mode"] == "virtual":
        t = params["transport"]
        frames = peer_stream(t)
        total = sum(len(f) for _, f in frames)
        bounds = {0, total}
        off = 0
        for _, f in frames:
            off += len(f)
            bounds.add(off)
            bounds.add(off - 1)
            bounds.add(off - len(f) + 1)
        offsets = sorted(set(range(0, total + 1, params["step"])) | bounds)
        if "half" in params:
            offsets = [o for i, o in enumerate(offsets) if i % 2 == params["half"]]
        one(ctx, {"transport": t, "level": "client" if params["client"] else "transport", "cut_at": None, "kind": "none", "timeout": 2.0, "restart_at": 0.0, "max_retry": 1})
        for k in offsets:
            for kind in ("eof", "reset", "silence"):
                if not params["client"]:
                    for to in (0.3, 2.0, None):
                        if kind == "silence" and to is None:
                            # only the write is bounded (ack time); run with a read timeout so the run ends
                            continue
                        one(ctx, {"transport": t, "level": "transport", "cut_at": k, "kind": kind, "timeout": to})
                else:
                    # the retry count comes from the constructor or (client built with the default max_retry=0) from the per-request config
                    for via in VIAS:
                        for d in (0.0, 0.05, 1.5):
                            for mr in (1, 2):
                                if mr == 2 and (k % 2 or d == 0.05):
                                    continue
                                one(ctx, {"transport": t, "level": "client", "cut_at": k, "kind": kind, "timeout": rng.choice([0.3, 2.0]), "restart_at": d, "max_retry": mr, "retry_via": via})
                        # the loss hits a request without retries; the next request on the same client (one retry) must still get through
                        one(ctx, {"transport": t, "level": "client", "cut_at": k, "kind": kind, "timeout": rng.choice([0.3, 2.0]), "restart_at": 0.0, "max_retry": 1, "two_requests": True, "retry_via": via})
                        if t == "doip" and kind != "silence":
                            # the restarting gateway accepts the first reconnect but stays silent on routing activation; later connections work
                            one(ctx, {"transport": t, "level": "client", "cut_at": k, "kind": kind, "timeout": 2.0, "restart_at": 0.0, "max_retry": 1, "second_silent": True, "retry_via": via})
                    # the peer never accepts a connection again: the request still has to end (with an error) in bounded time
                    one(ctx, {"transport": t, "level": "client", "cut_at": k, "kind": kind, "timeout": rng.choice([0.3, 2.0]), "restart_at": 1e9, "max_retry": rng.choice([1, 2]), "retry_via": rng.choice(VIAS)})
            if ctx.out_of_time():
                break
        if not params["client"]:
            run_second_use(ctx, params)
        if params["client"]:
            # BaseTransport.reconnect(timeout) against a peer that is away for a while
            for T in (1.0, 3.0, 10.0):
                for d in (0.0, 0.05, 0.35, 0.95, 1.7, 2.45, 4.9, 6.4, 9.3, 12.0):
                    if abs(d - T) < 0.3 or (T - 0.5 < d < T + 0.3):
                        continue
                    one(ctx, {"transport": t, "level": "reconnect-api", "cut_at": None, "kind": "none", "timeout": 2.0, "restart_at": d, "reconnect_timeout": T, "max_retry": 0})
            if t == "doip":
                # the client's automatic reconnect of a DoIP transport keeps trying for 10 s
                for d in (3.1, 6.5, 8.8):
                    for kind in ("eof", "reset"):
                        one(ctx, {"transport": t, "level": "client", "cut_at": rng.choice(offsets), "kind": kind, "timeout": 2.0, "restart_at": d, "max_retry": 1, "retry_via": rng.choice(VIAS)})
            # responsePending first, then the connection is lost at every offset of pending + final reply
            pframes = peer_stream(t, True)
            ptotal = sum(len(f) for _, f in pframes)
            start = sum(len(f) for l, f in pframes if l in ("rar", "ack"))
            for k in range(start, ptotal + 1, params["step"]):
                for kind in ("eof", "reset"):
                    for mr in (1, 2):
                        for via in VIAS:
                            one(ctx, {"transport": t, "level": "client", "cut_at": k, "kind": kind, "timeout": rng.choice([0.3, 2.0]), "restart_at": 0.0, "max_retry": mr, "pending": True, "retry_via": via})
        ctx.sample({"transport": t, "peer_stream": [(l, f) for l, f in frames], "offsets": offsets[:12]})
        return
    # real sockets
    sockdir = str(ctx.mkscratch())
    if len(sockdir) > 80:
        sockdir = "/verif/.scratch"

    async def go() -> None:
        for i in range(params["n"]):
            t = ("tcp-lines", "unix-lines")[i % 2]
            sc = {"transport": t, "idx": i, "cut_at": rng.choice([0, 1, 5, 12, 24, 25, 99]), "kind": rng.choice(["eof", "reset", "reset", "silence"]), "timeout": 0.3, "max_retry": rng.choice([0, 1, 2])}  # max_retry 0: the transport that lost its peer is the one that gets closed
            ctx.case(("real", repr(sc)))
            try:
                await asyncio.wait_for(real_case(ctx, sc, sockdir), 60)
            except TimeoutError:
                ctx.violation(f"real/{t}/hangs/{sc['kind']}", "the exchange over a real socket did not end within the watchdog", {"scenario": sc})
            if i == 0:
                ctx.sample({"real": sc})
        n = params["n"]
        for j in range(2 if ctx.tier == "quick" else 8):
            # the retry count of the request comes from the per-request config; the loss is one the statement promises recovery from
            sc = {"transport": ("tcp-lines", "unix-lines")[j % 2], "idx": n + j, "cut_at": rng.choice([0, 1, 5, 12, 24]), "kind": rng.choice(["eof", "reset"]), "timeout": 0.3, "max_retry": rng.choice([1, 2]), "retry_via": "request-config"}
            ctx.case(("real", repr(sc)))
            try:
                await asyncio.wait_for(real_case(ctx, sc, sockdir), 60)
            except TimeoutError:
                ctx.violation(f"real/{sc['transport']}/hangs/{sc['kind']}", "the exchange over a real socket did not end within the watchdog", {"scenario": sc})
        for j in range(4 if ctx.tier == "quick" else 12):
            # a read() without caller timeout is suspended when another task closes / reconnects the transport after the loss
            sc = {"transport": ("tcp-lines", "unix-lines")[j % 2], "idx": n + 20 + j, "pair": True, "combo": ("read+close", "read+reconnect")[(j // 2 + params["part"]) % 2],
                  "cut_at": rng.choice([0, 1, 12, 24]), "kind": ("silence", "silence", "eof", "reset")[(j + params["part"]) % 4]}
            ctx.case(("real-pair", repr(sc)))
            try:
                await asyncio.wait_for(real_pair_case(ctx, sc, sockdir), 60)
            except TimeoutError:
                ctx.violation(f"real/{sc['transport']}/pair/hangs/{sc['kind']}", "the exchange over a real socket did not end within the watchdog", {"scenario": sc})

        for sc in after_loss_cases(params["part"], 4 if ctx.tier == "quick" else 8, rng):
            # the peer is gone; the caller uses the transport object again and then closes it twice
            ctx.case(("real-after-loss", repr(sc)))
            try:
                await asyncio.wait_for(real_after_loss_case(ctx, sc, sockdir), 90)
            except TimeoutError:
                ctx.violation(f"real/{sc['transport']}/after-loss/hangs/{sc['kind']}", "the second use of a transport over a real socket did not end within the watchdog", {"scenario": sc})

    asyncio.run(go())


def replay(ctx: Any, witness: dict[str, Any]) -> None:
    import gallia.command  # noqa: F401

    vtime.quiet_logging()
    sc = witness["scenario"]
    if "level" in sc:
        one(ctx, sc)
    elif sc.get("after_loss"):
        asyncio.run(real_after_loss_case(ctx, sc, str(ctx.mkscratch())))
    elif sc.get("pair"):
        asyncio.run(real_pair_case(ctx, sc, str(ctx.mkscratch())))
    else:
        asyncio.run(real_case(ctx, sc, str(ctx.mkscratch())))
