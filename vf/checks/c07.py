"""C07 HSFZ: frames are demultiplexed correctly under any segmentation and interleaving (DESIGN.md section 3, appendix C)."""

from __future__ import annotations

import asyncio
import itertools
import random
import struct
from typing import Any

from vf import gateway, vtime

PROPERTY = "C07"
LEVEL = "exploration"
ENGINE = "vtime-memstream"
TECHNIQUE = (
    "recorded histories + offline reference demultiplexer: the production HSFZTransport/HSFZConnection runs on in-memory streams "
    "against a scripted gateway under a virtual clock; gateway frames with arrival times, client frames with send times and every "
    "write/read result are logged and replayed through a queue model written from the statement (ack = control word 0x02 + tester "
    "address pair + first five request bytes within ack_timeout; reads = payloads of ECU->tester data frames in order; alive check "
    "answered at once; error words = connection error + close), under enumerated split points and interleavings. Usage variations: every "
    "scenario family also runs next to a SECOND live HSFZ connection (own gateway, own traffic, own or the same address pair, start offset) "
    "in the same event loop, each connection's history judged separately; and 2-3 tasks write on ONE connection at the same time while the "
    "gateway puts data / foreign frames / alive checks / short frames / foreign or wrong acks between the acks, every frame in a segment of its own; "
    "and in every family a share of the cases are size-range cases: data frames for this and for other address pairs and requests carry payloads from "
    "the upper part of the legal range (half of them 4093/4094/4095 bytes, 4095 = largest UDS message; the rest 255 .. 4092), delivered in one piece, "
    "in segments of a fixed maximum size (536 .. 4096), cut at random places or bytewise, followed by further frames"
)
LEVEL_TEXT = (
    "Exploration with exhaustive sub-spaces: gateway frame scripts (exhaustive to length 3 quick / 4 thorough over a 9-letter "
    "alphabet incl. short frames, status and error words; random to length 8) injected before the ack, after it, during a blocked "
    "read and while idle, x ack timeouts {100, 1000, 5000} ms, with the byte stream cut at every single split point of base scripts "
    "(incl. inside the 6-byte header and between header and address bytes), seeded multi-splits, byte-wise and coalesced. About a third of "
    "the scripted and random cases are repeated/run as a pair of connections in one event loop (partner drawn from the scripted, random or "
    "concurrent-writer family); a quarter of the random shard's cases are concurrent-writer scripts (2-3 writers, <=3 frames before and <=2 after "
    "each ack, segment boundary forced between all frames / some coalesced / cut inside frames / bytewise, at most one request without ack). "
    "Payload sizes: 2 .. 48 bytes in the ordinary cases; a fifth of the random and concurrent-writer cases and every fourth scripted case with a data frame are "
    "repeated/drawn as size-range cases (30/50/60/100 % of their data frames and 35 % of their requests with 255 .. 4095 bytes, weighted to 4090 .. 4095); "
    "payloads above 4095 bytes are not generated. "
    "A read blocked on the same connection WHILE another task writes is not part of the workload (see ASSUMPTIONS). Held = held on the recorded histories."
)
LEVEL_NOTE = "Trusted: frame builders and queue model in vf/checks/c07.py, vf/gateway.py, virtual clock. Status words (0x10/0x11/0x13) may be ignored or end the connection (the statement only fixes error words)."
RULE = (
    "cases = (URI parameters incl. ack_timeout, client op program, gateway frame script with delays and payload sizes, segmentation plan); non-trivial = "
    "the script contains a frame other than the awaited one or a split inside a frame; distinct = distinct case tuples; distinct_traces = "
    "distinct (frame label / op result) sequences; a pair of connections in one event loop counts as one case and two histories"
)
ASSUMPTIONS = [
    "gateway frames are well-formed; an ack matches iff control word 0x02, the tester's address pair and exactly the first five request bytes",
    "stray acks that would match a later request are not generated",
    "status control words (0x10, 0x11, 0x13) may either be ignored or terminate the connection with a connection error",
    "after the connection was closed (missing ack, error word) later operations are only required to fail (OSError/ConnectionError), not to hang or succeed",
    "concurrent writers: the ack timeout of a request counts from the moment its data frame is on the stream; every request starts with a unique prefix (an ack echoes only five bytes)",
    "payload lengths are quantified up to the largest UDS message (4095 bytes, HSFZ length field 4097); longer payloads are not generated",
    "on one connection only writes run concurrently; a read() pending while another task calls write() on the same connection is not driven (reader and ack waiter share one queue)",
]
EXHAUSTIVE = {"quick": False, "thorough": False}
EXHAUSTIVE_NOTE = "exhaustive: pre-ack scripts to length 3/4, every single split point of the base scripts"

TOL = 1e-3
LETTERS = ["D", "F", "A", "S", "K", "X", "T", "E"]  # data for us, foreign data, alive check, short frame, foreign-address ack, wrong-echo ack, status word, error word


UDS_MAX = 4095  # largest UDS message (ISO 14229-1 / 12-bit length of ISO-TP): the far end of the payload size range of a data frame
FAR_END = [4095, 4094, 4093, 4092, 4091, 4090]
_FILL = bytes(range(256)) * 18


def fr(cword: int, body: bytes) -> bytes:
    return struct.pack("!IH", len(body), cword) + body


def padded(prefix: bytes, total: int | None) -> bytes:
    """`prefix` filled up to `total` bytes with a position dependent pattern (a lost, doubled or shifted byte changes the payload)"""
    if total is None or total <= len(prefix):
        return prefix
    o = sum(prefix) & 0xFF
    return prefix + _FILL[o : o + total - len(prefix)]


def size_draw(rng: random.Random) -> int:
    """payload length of a frame from the upper part of the legal range; half of the draws sit on the last three values"""
    r = rng.random()
    if r < 0.5:
        return rng.choice(FAR_END[:3])
    if r < 0.65:
        return rng.choice(FAR_END[3:])
    return rng.choice([255, 256, 1000, 1024, 2048, 4000, rng.randrange(41, 4090)])


def wdata(op: dict[str, Any]) -> bytes:
    """the request of a write op / of a concurrent writer"""
    return padded(bytes.fromhex(op["data"]), op.get("size"))


def size_bucket(n: int) -> str | None:
    return str(n) if n >= 4094 else ("4090-4093" if n >= 4090 else ("256-4089" if n >= 256 else None))


def split_client(buf: bytearray) -> list[bytes]:
    out = []
    while len(buf) >= 6:
        ln = struct.unpack("!I", buf[:4])[0]
        if len(buf) < 6 + ln:
            break
        out.append(bytes(buf[: 6 + ln]))
        del buf[: 6 + ln]
    return out


def shards(tier: str, seed: int) -> list[dict[str, Any]]:
    if tier == "quick":
        return [{"mode": "exh", "maxlen": 3, "part": i, "parts": 8, "splits": 30} for i in range(8)] + [{"mode": "rand", "n": 1500, "part": i} for i in range(8)]
    return [{"mode": "exh", "maxlen": 4, "part": i, "parts": 16, "splits": 200} for i in range(16)] + [{"mode": "rand", "n": 12000, "part": i} for i in range(12)]


def required_reach(tier: str) -> dict[str, int]:
    return {"alive.phase.before-ack": 20, "alive.phase.blocked-in-read": 20, "alive.phase.idle": 20, "data-before-ack": 20, "split.in-header": 50, "split.header-address": 10,
            "split.in-payload": 50, "bytewise": 10, "coalesced-frames": 20, "write.acked": 500, "write.ack-timeout": 20, "read.delivered": 500, "read.timeout": 50,
            "error-word.surfaced": 20, "short-frame": 20, "status-word": 10, "ack_timeout.100": 20, "ack_timeout.1000": 20, "ack_timeout.5000": 20, "histories": 1000, "concurrent-writers": 20,
            "burst.over-16-unread-frames-then-alive-check": 50,
            # several writers on one connection with other frames between the acks
            "cw.histories": 500, "cw.write-issued-during-ack-wait": 200, "cw.queued-frame-before-ack-with-two-writers": 200,
            "cw.queued-frame-before-ack-with-two-writers.separate-segments": 100, "cw.segment-boundary-between-all-frames": 200, "cw.some-frames-coalesced": 20,
            "cw.split-inside-frame": 20, "cw.between-acks.D": 100, "cw.between-acks.F": 50, "cw.between-acks.A": 50, "cw.between-acks.K": 20, "cw.between-acks.X": 20,
            "cw.write.acked": 500, "cw.write.no-ack": 20, "cw.read.delivered": 200, "alive.phase.concurrent-writers": 50,
            # a second live connection in the same event loop
            "dual.histories": 1000, "dual.operations-overlap": 500, "dual.op-ends-during-skip-hold": 200, "dual.op-ends-during-skip-hold.W": 100,
            "dual.op-ends-during-skip-hold.R": 100, "dual.same-address-pair": 100, "dual.other-address-pair": 100, "dual.family.scripted": 100,
            "dual.family.random": 100, "dual.family.cw": 100,
            # payload sizes over the legal range up to the largest UDS message (4095 bytes), for data frames of this and of other address pairs and for requests
            "size.D.4095": 200, "size.D.4094": 200, "size.D.4090-4093": 300, "size.D.256-4089": 300, "size.F.4095": 100, "size.F.4094": 100,
            "read.delivered.size.4095": 100, "read.delivered.size.4094": 100, "read.delivered.size.4090-4093": 200, "read.delivered.size.256-4089": 200,
            "read.delivered.after-far-end-frame": 300, "size.ACK-after-far-end-frame": 300, "size.A-after-far-end-frame": 300,
            "write.acked.size.4095": 50, "write.acked.size.4094": 50, "cw.read.delivered.size.4095": 20, "cw.read.delivered.size.4094": 20,
            "size.far-end-frame.in-one-segment": 500, "size.far-end-frame.over-several-segments": 500, "size.far-end-frame.bytewise": 50,
            "size.far-end-frame.split-in-header-or-address": 50}


def spec_frame(sc: dict[str, Any], spec: list[Any], req: bytes | None) -> tuple[bytes, str]:
    src, dst = sc["src"], sc["dst"]
    k = spec[0]
    if k == "D":
        return fr(0x01, bytes([dst, src]) + padded(bytes.fromhex(spec[1]), spec[2] if len(spec) > 2 else None)), "D"
    if k == "F":
        return fr(0x01, bytes([spec[2], spec[3]]) + padded(bytes.fromhex(spec[1]), spec[4] if len(spec) > 4 else None)), "F"
    if k == "A":
        return fr(0x12, bytes.fromhex(spec[1])), "A"
    if k == "S":
        return fr(spec[1], bytes.fromhex(spec[2])), "S"
    if k == "K":
        return fr(0x02, bytes([spec[1], spec[2]]) + (req or b"")[:5]), "K"
    if k == "X":
        return fr(0x02, bytes([src, dst]) + bytes.fromhex(spec[1])), "X"
    if k == "XR":  # our address pair, echo derived from the request but not equal to its first five bytes
        r = req or b""
        echo = {"flip5": r[:4] + bytes([(r[4] if len(r) > 4 else 0) ^ 0x01]), "first4": r[:4], "first6": r[:6] + b"\x00"[: max(0, 6 - len(r[:6]))], "flip1": bytes([(r[0] if r else 0) ^ 0x80]) + r[1:5]}[spec[1]]
        if echo == r[:5]:
            echo += b"\xff"
        return fr(0x02, bytes([src, dst]) + echo), "X"
    if k == "T":
        return fr(spec[1], bytes.fromhex(spec[2])), "T"
    if k == "E":
        return fr(spec[1], bytes.fromhex(spec[2])), "E"
    if k == "ACK":
        return fr(0x02, bytes([src, dst]) + (req or b"")[:5]), "ACK"
    raise AssertionError(spec)


def letter_spec(rng: random.Random, sc: dict[str, Any], letter: str, uid: list[int]) -> list[Any]:
    uid[0] += 1
    tag = uid[0].to_bytes(2, "big").hex()
    big = sc.get("sizes", 0.0)  # size-range scenarios: share of the data frames (ours and foreign ones) that come from the upper part of the size range
    if letter == "D":
        if big and rng.random() < big:
            return ["D", "62f190" + tag, size_draw(rng)]
        return ["D", "62f190" + tag + rng.randbytes(rng.choice([0, 1, 7, 40])).hex()]
    if letter == "F":
        o = rng.choice([(sc["dst"] ^ 1, sc["src"]), (sc["dst"], sc["src"] ^ 1), (sc["src"], sc["dst"])])
        if big and rng.random() < big:
            return ["F", "62f190" + tag, o[0] & 0xFF, o[1] & 0xFF, size_draw(rng)]
        return ["F", "62f190" + tag, o[0] & 0xFF, o[1] & 0xFF]
    if letter == "A":
        return ["A", rng.choice(["", "ffff", "ffffcaffee", "00"])]
    if letter == "S":
        return ["S", rng.choice([0x01, 0x02]), rng.choice(["", "aa"])]
    if letter == "K":
        o = rng.choice([(sc["dst"], sc["src"]), (sc["src"] ^ 1, sc["dst"]), (sc["src"], sc["dst"] ^ 1)])
        return ["K", o[0] & 0xFF, o[1] & 0xFF]
    if letter == "X":
        if rng.random() < 0.6:
            return ["XR", rng.choice(["flip5", "first4", "first6", "flip1"])]
        return ["X", rng.choice(["ff" + tag, "", "22f1"])]
    if letter == "T":
        return ["T", rng.choice([0x10, 0x11, 0x13]), rng.choice(["", "00", "f410aabb"])]
    if letter == "E":
        return ["E", rng.choice([0x40, 0x41, 0x42, 0x43, 0x44, 0x45, 0xFF]), rng.choice(["", "00", "f410"])]
    raise AssertionError(letter)


def base_scenario(rng: random.Random, pair: tuple[int, int] | None = None) -> dict[str, Any]:
    src = rng.choice([0xF4, 0xF1, 0x01, rng.randrange(1, 256)])
    dst = rng.choice([0x10, 0x40, 0xDF, rng.randrange(1, 256)])
    if dst == src:
        dst ^= 0x10
    if pair is not None:
        src, dst = pair
    return {"src": src, "dst": dst, "ack_timeout": rng.choice([100, 1000, 5000]), "ops": [], "cuts": [], "bytewise": False}


def uri(sc: dict[str, Any]) -> str:
    return f"hsfz://192.0.2.9:6801?src_addr={sc['src']:#x}&dst_addr={sc['dst']:#x}&ack_timeout={sc['ack_timeout']}"


def _exc(e: BaseException) -> tuple[Any, ...]:
    return ("exc", type(e).__name__, isinstance(e, ConnectionError), isinstance(e, TimeoutError), isinstance(e, OSError))


async def _drive_seq(sc: dict[str, Any], tr: Any, g: gateway.Gateway, reactions: list[Any], oplog: list[dict[str, Any]]) -> None:
    """one task runs the op program of `sc` on its own transport, one operation after the other"""
    loop = asyncio.get_running_loop()
    if sc.get("start"):
        await asyncio.sleep(sc["start"])
    for op in sc["ops"]:
        ts = loop.time()
        rec: dict[str, Any] = {"op": op["op"], "ts": ts}
        prev_d = None
        for d, spec in op.get("arrive", []):
            b, lab = spec_frame(sc, spec, None)
            g.send(d, b, lab, header_len=6, glue=(prev_d is not None and d == prev_d))
            prev_d = d
        try:
            if op["op"] == "W":
                reactions.append(op["react"])
                n = await tr.write(wdata(op), timeout=op.get("timeout"))
                rec["res"] = ("ok", n)
            elif op["op"] == "R":
                r = await tr.read(timeout=op["timeout"])
                rec["res"] = ("ok", r)
            else:
                await asyncio.sleep(op["dt"])
                rec["res"] = ("ok", None)
        except BaseException as e:
            rec["res"] = _exc(e)
        rec["te"] = loop.time()
        oplog.append(rec)


async def _drive_cw(sc: dict[str, Any], tr: Any, g: gateway.Gateway, reactions: list[Any], oplog: list[dict[str, Any]]) -> None:
    """several tasks write on ONE transport at (nearly) the same time; the gateway answers the n-th request it receives with the n-th
    reaction script; afterwards one task reads what is left"""
    loop = asyncio.get_running_loop()
    if sc.get("start"):
        await asyncio.sleep(sc["start"])
    reactions.extend(sc["reacts"])

    async def w(i: int, wr: dict[str, Any]) -> dict[str, Any]:
        if wr["start"]:
            await asyncio.sleep(wr["start"])
        rec: dict[str, Any] = {"op": "W", "i": i, "ts": loop.time()}
        try:
            rec["res"] = ("ok", await tr.write(wdata(wr), timeout=None))
        except BaseException as e:
            rec["res"] = _exc(e)
        rec["te"] = loop.time()
        return rec

    oplog.extend(await asyncio.gather(*(w(i, wr) for i, wr in enumerate(sc["writers"]))))
    for _ in range(sc["reads"]):
        rec = {"op": "R", "ts": loop.time()}
        try:
            rec["res"] = ("ok", await tr.read(timeout=sc["read_timeout"]))
        except BaseException as e:
            rec["res"] = _exc(e)
        rec["te"] = loop.time()
        oplog.append(rec)


async def run_group(scs: list[dict[str, Any]]) -> list[dict[str, Any]]:
    """every scenario gets its own HSFZTransport, its own gateway and its own traffic; all of them live in the same event loop and
    their operations interleave in virtual time. Each connection's history is recorded (and judged) separately."""
    from gallia.transports.hsfz import HSFZTransport

    loop = asyncio.get_running_loop()
    gws: list[gateway.Gateway] = []
    reactions: list[list[Any]] = [[] for _ in scs]

    def factory(n: int) -> gateway.Gateway:
        sc = scs[n - 1]  # the connections are opened one after the other: the n-th belongs to the n-th scenario
        react_q = reactions[n - 1]
        g = gateway.Gateway(split_client, cuts=set(sc["cuts"]), bytewise=sc["bytewise"])

        def on_frame(now: float, f: bytes) -> None:
            cword = struct.unpack("!H", f[4:6])[0]
            if cword == 0x01 and react_q:
                react = react_q.pop(0)
                req = f[8:]
                prev_d = None
                for d, spec in react:
                    b, lab = spec_frame(sc, spec, req)
                    g.send(d, b, lab, header_len=6, glue=(prev_d is not None and d == prev_d))
                    prev_d = d

        g.on_client_frame = on_frame
        gws.append(g)
        return g

    outs: list[dict[str, Any]] = [{"ops": []} for _ in scs]
    with gateway.GatewayHub(factory):
        t0 = loop.time()
        trs = [await HSFZTransport.connect(uri(sc), timeout=2.0) for sc in scs]
        await asyncio.gather(*((_drive_cw if sc.get("kind") == "cw" else _drive_seq)(sc, tr, g, rq, out["ops"])
                               for sc, tr, g, rq, out in zip(scs, trs, gws, reactions, outs)))
        for tr, out in zip(trs, outs):
            try:
                await tr.close()
                await tr.close()
                out["close"] = "ok"
            except BaseException as e:
                out["close"] = type(e).__name__
    for g0, out in zip(gws, outs):
        out.update({"g_frames": g0.frames_out, "c_frames": g0.client_frames, "t0": t0, "split_in_header": g0.split_in_header, "split_in_payload": g0.split_in_payload,
                    "fed": g0.fed, "writer_closed": g0.writer.closed})
    return outs


async def run_scenario(sc: dict[str, Any]) -> dict[str, Any]:
    return (await run_group([sc]))[0]


def size_reach(ctx: Any, sc: dict[str, Any], out: dict[str, Any]) -> None:
    """what the history contained along the payload size dimension (what was sent, not what the client made of it)"""
    seg_ends: set[int] = set()
    off = 0
    for _, d in out["fed"]:
        off += len(d)
        seg_ends.add(off)
    off = 0
    after_max = False
    for _, f, l in out["g_frames"]:
        n = len(f) - 8
        b = size_bucket(n) if l in ("D", "F") else None
        if b is not None:
            ctx.reach(f"size.{l}.{b}")
            inner = sum(1 for e in seg_ends if off < e < off + len(f))
            if n >= 4090:
                ctx.reach("size.far-end-frame." + ("bytewise" if sc["bytewise"] else ("in-one-segment" if not inner else "over-several-segments")))
                if any(off < e < off + 8 for e in seg_ends):
                    ctx.reach("size.far-end-frame.split-in-header-or-address")
        elif after_max and l in ("D", "ACK", "A"):
            ctx.reach(f"size.{l}-after-far-end-frame")
        if b is not None and n >= 4094:
            after_max = True
        off += len(f)


def check(ctx: Any, sc: dict[str, Any], out: dict[str, Any], wit: dict[str, Any] | None = None) -> None:
    src, dst = sc["src"], sc["dst"]
    ack_time = sc["ack_timeout"] / 1000
    w = dict(wit) if wit else {"scenario": sc}
    ctx.reach("histories")
    ctx.reach(f"ack_timeout.{sc['ack_timeout']}")
    size_reach(ctx, sc, out)
    gfr = out["g_frames"]
    cfr = out["c_frames"]
    ctx.trace(tuple(l for _, _, l in gfr) + tuple((o["op"], o["res"][0] if o["res"][0] == "ok" else o["res"][1]) for o in out["ops"]))
    if out["split_in_header"]:
        ctx.reach("split.in-header")
    if out["split_in_payload"]:
        ctx.reach("split.in-payload")
    if sc["bytewise"]:
        ctx.reach("bytewise")
        ctx.reach("split.header-address")
    # a cut exactly between the 6 byte header and the address bytes
    off = 0
    for _, f, _ in gfr:
        if off + 6 in sc["cuts"] and len(f) > 6:
            ctx.reach("split.header-address")
        off += len(f)
    if any(len(split_client(bytearray(d))) > 1 for _, d in out["fed"]):
        ctx.reach("coalesced-frames")
    if any(l == "S" for _, _, l in gfr):
        ctx.reach("short-frame")
    if any(l == "T" for _, _, l in gfr):
        ctx.reach("status-word")
    # queue model: items in arrival order
    items = [{"t": t, "l": l, "f": f, "used": False} for t, f, l in gfr]
    data_out = [(t, f) for t, f in cfr if f[4:6] == b"\x00\x01"]
    wi = 0
    closed_at: float | None = None
    unspecified_from: float | None = None  # a status word was (or may have been) seen by the client: outcomes are not fixed by the statement
    data_before_ack = False

    def seen_status(upto: float) -> bool:
        return any(it["l"] == "T" and it["t"] <= upto for it in items)

    for idx, o in enumerate(out["ops"]):
        ts, te, res = o["ts"], o["te"], o["res"]
        spec_op = sc["ops"][idx]
        if o["op"] == "idle":
            continue
        if closed_at is not None:
            if res[0] == "ok":
                ctx.violation(f"after-close/{o['op']}-succeeds", "operation succeeds on a connection that was closed (missing ack / error word)", {**w, "op": o})
            elif not (res[4] or res[3]):
                ctx.violation(f"after-close/{o['op']}/{res[1]}", "operation on the closed connection fails with something other than an OS/connection error", {**w, "op": o})
            continue
        if unspecified_from is not None:
            # after a status word: either everything continues to work or the connection ended with a connection error
            if res[0] == "exc" and res[2]:
                closed_at = te
                ctx.reach("status-word.ends-connection")
            elif res[0] == "exc" and not res[3]:
                ctx.violation(f"status-word/{res[1]}", "after a status control word an operation fails with a foreign exception", {**w, "op": o})
            if o["op"] == "W" and res[0] == "ok":
                wi += 1
            elif o["op"] == "W":
                wi += 1
            continue
        if o["op"] == "W":
            data = wdata(spec_op)
            want = fr(0x01, bytes([src, dst]) + data)
            if wi >= len(data_out) or data_out[wi][1] != want or abs(data_out[wi][0] - ts) > TOL:
                ctx.violation("write/request-frame", "write() did not put exactly the data frame tester->ECU on the stream", {**w, "op": o, "want": want})
                return
            wi += 1
            # scan everything that is queued or arrives until the matching ack / the ack timeout
            limit = ts + ack_time
            t_ack = None
            t_err = None
            boundary = False
            for it in items:
                if it["used"] or it["t"] > limit + TOL:
                    continue
                if it["t"] > limit - TOL and it["l"] in ("ACK", "E", "T"):
                    boundary = True  # arrives within the tolerance of the ack deadline: either outcome is acceptable
                    break
                if it["l"] in ("ACK",) and it["t"] > ts and it["f"][6:8] == bytes([src, dst]) and it["f"][8:] == data[:5]:
                    t_ack = it["t"]
                    it["used"] = True
                    break
                if it["l"] == "E":
                    t_err = max(ts, it["t"])
                    it["used"] = True
                    break
                if it["l"] == "T":
                    unspecified_from = it["t"]
                    break
            if boundary:
                ctx.reach("write.ack-at-deadline")
                if res[0] == "exc":
                    closed_at = te
                else:
                    for it in items:
                        if not it["used"] and it["l"] == "ACK" and limit - TOL < it["t"] <= limit + TOL:
                            it["used"] = True
                            break
                continue
            if unspecified_from is not None:
                if res[0] == "exc" and res[2]:
                    closed_at = te
                elif res[0] == "exc":
                    ctx.violation(f"status-word/{res[1]}", "a status control word makes write() fail with a foreign exception", {**w, "op": o})
                continue
            if t_ack is not None and any(it["l"] == "D" and not it["used"] and ts < it["t"] <= t_ack for it in items):
                data_before_ack = True
                ctx.reach("data-before-ack")
            if t_err is not None:
                ctx.reach("error-word.surfaced")
                if res[0] == "ok" or not res[2]:
                    ctx.violation(f"error-word/during-write/{'ignored' if res[0] == 'ok' else res[1]}", "an error control word did not surface as a connection error", {**w, "op": o})
                elif abs(te - t_err) > TOL:
                    ctx.violation("error-word/during-write/late", "the error control word surfaced later than it arrived", {**w, "op": o, "arrived": t_err})
                elif not out["writer_closed"]:
                    ctx.violation("error-word/connection-not-closed", "after an error control word the connection was not closed", {**w, "op": o})
                closed_at = te
                continue
            if t_ack is None:
                ctx.reach("write.ack-timeout")
                if res[0] == "ok":
                    ctx.violation("write/completes-without-ack", "write() completed although no matching ack arrived within the ack timeout", {**w, "op": o})
                elif not res[2]:
                    ctx.violation(f"write/no-ack/{res[1]}", "a missing ack does not surface as a connection error", {**w, "op": o})
                elif te > limit + TOL:
                    ctx.violation("write/no-ack/too-late", "write() did not fail within the ack timeout", {**w, "op": o, "limit": limit})
                closed_at = te
                continue
            ctx.reach("write.acked")
            if size_bucket(len(data)):
                ctx.reach(f"write.acked.size.{size_bucket(len(data))}")
            if res[0] != "ok":
                phase = "alive-before-ack" if any(ts < it["t"] < t_ack and it["l"] == "A" for it in items) else "plain"
                ctx.violation(f"write/acked-but-fails/{phase}/{res[1]}", "the gateway acked the message in time but write() failed", {**w, "op": o, "ack_at": t_ack})
                closed_at = te
                continue
            if abs(te - t_ack) > TOL:
                ctx.violation("write/completion-time", "write() did not complete when the ack arrived", {**w, "op": o, "ack_at": t_ack})
        else:  # R
            to = spec_op["timeout"]
            limit = ts + to
            nxt = None
            for it in items:
                if it["used"] or it["t"] >= limit - TOL:
                    continue
                if it["l"] in ("D", "E", "T"):
                    nxt = it
                    break
            if nxt is not None and nxt["l"] == "T":
                unspecified_from = nxt["t"]
                if res[0] == "exc" and res[2]:
                    closed_at = te
                elif res[0] == "ok":
                    # it delivered some data frame: consume it in the model as well
                    for it in items:
                        if it["l"] == "D" and not it["used"] and it["f"][8:] == res[1]:
                            it["used"] = True
                            break
                continue
            if nxt is None and res[0] == "exc" and res[2] and any(not it["used"] and it["l"] in ("E", "T") and abs(it["t"] - limit) <= TOL for it in items):
                closed_at = te  # a control word arrived within the tolerance of the read deadline: it may or may not have been seen
                continue
            if nxt is None:
                # nothing deliverable in time (frames arriving within TOL of the deadline may go either way)
                near = [it for it in items if not it["used"] and it["l"] == "D" and abs(it["t"] - limit) <= TOL]
                if res[0] == "ok" and near and res[1] == near[0]["f"][8:]:
                    near[0]["used"] = True
                    continue
                if res[0] == "ok":
                    known = [it for it in items if it["l"] == "D" and it["f"][8:] == res[1]]
                    kind = "duplicated" if known and known[0]["used"] else ("fabricated" if not known else "early")
                    ctx.violation(f"read/{kind}", "a read returned data although no undelivered ECU->tester data frame had arrived", {**w, "op": o})
                    return
                if not res[3]:
                    ctx.violation(f"read/{res[1]}", "read() on an open connection fails with something other than a timeout", {**w, "op": o})
                    closed_at = te
                    continue
                ctx.reach("read.timeout")
                if abs(te - limit) > TOL:
                    ctx.violation("read/timeout-time", "read() did not time out at the caller's timeout", {**w, "op": o})
                continue
            want_t = max(ts, nxt["t"])
            if nxt["l"] == "E":
                nxt["used"] = True
                ctx.reach("error-word.surfaced")
                if res[0] == "ok" or not res[2]:
                    ctx.violation(f"error-word/during-read/{'ignored' if res[0] == 'ok' else res[1]}", "an error control word did not surface as a connection error", {**w, "op": o})
                elif abs(te - want_t) > TOL:
                    ctx.violation("error-word/during-read/late", "the error control word surfaced later than it arrived", {**w, "op": o})
                elif not out["writer_closed"]:
                    ctx.violation("error-word/connection-not-closed", "after an error control word the connection was not closed", {**w, "op": o})
                closed_at = te
                continue
            # a data frame for us
            if res[0] != "ok":
                blocked_alive = any(ts < it["t"] < te and it["l"] == "A" for it in items)
                far_end = any(it["l"] in ("D", "F") and it["t"] <= nxt["t"] and len(it["f"]) - 8 >= 4090 for it in items)
                ctx.violation(f"read/lost-or-stalled/{'alive-while-blocked' if blocked_alive else ('data-before-ack' if data_before_ack else ('far-end-of-size-range' if far_end else 'other'))}/{res[1]}",
                              "a read failed although an ECU->tester data frame for it had arrived in time", {**w, "op": o, "arrived": nxt["t"]})
                return
            if res[1] != nxt["f"][8:]:
                others = [it for it in items if it["l"] == "D" and not it["used"] and it["f"][8:] == res[1]]
                if others:
                    ctx.violation(f"read/out-of-order/{'requeue-during-ack-wait' if data_before_ack or any(x['op'] == 'W' for x in out['ops'][:idx]) else 'other'}",
                                  "reads deliver the data frames in another order than they arrived", {**w, "op": o, "expected": nxt["f"][8:]})
                else:
                    ctx.violation("read/foreign-or-fabricated-data", "a read returned data that is not the payload of an undelivered ECU->tester data frame", {**w, "op": o, "expected": nxt["f"][8:]})
                return
            nxt["used"] = True
            ctx.reach("read.delivered")
            if size_bucket(len(res[1])):
                ctx.reach(f"read.delivered.size.{size_bucket(len(res[1]))}")
            if any(it["l"] in ("D", "F") and it["t"] < nxt["t"] and len(it["f"]) - 8 >= 4094 for it in items):
                ctx.reach("read.delivered.after-far-end-frame")
            if abs(te - want_t) > TOL:
                ctx.violation("read/late-delivery", "a data frame that had arrived was not delivered to the waiting read at once", {**w, "op": o, "arrived": nxt["t"]})
    # alive checks: answered at the same virtual instant with 00000002 0012 00 <src>
    want = fr(0x12, bytes([0x00, src]))
    resp = [(t, f) for t, f in cfr if f[4:6] == b"\x00\x12"]
    stop = min(x for x in (closed_at, unspecified_from, 1e18) if x is not None)
    end_of_run = out["ops"][-1]["te"] if out["ops"] else 0.0  # afterwards the harness closes the transport: later alive checks cannot be answered
    reqs = [it["t"] for it in items if it["l"] == "A" and it["t"] < stop - TOL and it["t"] < end_of_run - TOL]
    for i, t in enumerate(reqs):
        phase = "idle"
        for o in out["ops"]:
            if o["ts"] <= t <= o["te"]:
                phase = {"W": "before-ack", "R": "blocked-in-read", "idle": "idle"}[o["op"]]
        ctx.reach(f"alive.phase.{phase}")
        if i >= len(resp):
            ctx.violation(f"alive-check/unanswered/{phase}", "an alive check was not answered", {**w, "request_at": t})
            return
        if resp[i][1] != want:
            ctx.violation("alive-check/response-bytes", "alive check reply is not 00000002 0012 00 <tester address>", {**w, "got": resp[i][1], "want": want})
            return
        if abs(resp[i][0] - t) > TOL:
            ctx.violation(f"alive-check/late/{phase}", "alive check not answered immediately", {**w, "request_at": t, "answered_at": resp[i][0]})
            return
    if out.get("close") != "ok":
        ctx.violation(f"close/{out.get('close')}", "closing the transport (twice) raises", w)


def check_cw(ctx: Any, sc: dict[str, Any], out: dict[str, Any], wit: dict[str, Any] | None = None) -> None:
    """oracle for several writers on one connection. Per writer, from the statement alone: its request frame appears on the stream
    exactly once and intact (time s); if the ack echoing its (unique) first five bytes with the tester's pair arrives within ack_timeout
    of s - and before the connection was ended by another request's missing ack - the write completes, at that instant; if no such
    ack arrives it fails with a connection error no later than s + ack_timeout.  What the gateway sent between the acks (data
    frames, foreign frames, alive checks, short frames, foreign/wrong acks) changes nothing; the data frames stay available to the reads
    that follow, in order of arrival."""
    src, dst = sc["src"], sc["dst"]
    ack_time = sc["ack_timeout"] / 1000
    w = dict(wit) if wit else {"scenario": sc}
    ctx.reach("cw.histories")
    ctx.reach(f"ack_timeout.{sc['ack_timeout']}")
    size_reach(ctx, sc, out)
    gfr, cfr = out["g_frames"], out["c_frames"]
    ctx.trace(("cw",) + tuple(l for _, _, l in gfr) + tuple((o["op"], o["res"][0] if o["res"][0] == "ok" else o["res"][1]) for o in out["ops"]))
    items = [{"t": t, "l": l, "f": f} for t, f, l in gfr]
    wrecs = [o for o in out["ops"] if o["op"] == "W"]
    rrecs = [o for o in out["ops"] if o["op"] == "R"]
    datas = [wdata(x) for x in sc["writers"]]
    expected = {fr(0x01, bytes([src, dst]) + d): i for i, d in enumerate(datas)}
    sent: dict[int, float] = {}
    for t, f in cfr:
        if f[4:6] != b"\x00\x01":
            continue
        i = expected.get(f)
        if i is None or i in sent:
            ctx.violation("write/concurrent/request-frame", "concurrent writes put something other than each request's data frame exactly once on the stream", {**w, "frame": f})
            return
        sent[i] = t
    acked: dict[int, float] = {}
    for i, s_t in sent.items():
        for it in items:
            if it["l"] == "ACK" and it["t"] >= s_t and it["f"][6:8] == bytes([src, dst]) and it["f"][8:] == datas[i][:5]:
                acked[i] = it["t"]
                break
    in_time = {i: a for i, a in acked.items() if a <= sent[i] + ack_time - TOL}
    dead = [sent[i] + ack_time for i in sent if i not in acked or acked[i] > sent[i] + ack_time + TOL]
    closed_at = min(dead) if dead else None
    # reach: what the schedule contained
    seg_ends: set[int] = set()
    off = 0
    for _, d in out["fed"]:
        off += len(d)
        seg_ends.add(off)
    fr_ends: list[int] = []
    off = 0
    for _, f, _ in gfr:
        off += len(f)
        fr_ends.append(off)
    if len(gfr) >= 3 and all(e in seg_ends for e in fr_ends):
        ctx.reach("cw.segment-boundary-between-all-frames")
    elif any(e not in seg_ends for e in fr_ends):
        ctx.reach("cw.some-frames-coalesced")
    if out["split_in_header"] or out["split_in_payload"] or sc["bytewise"]:
        ctx.reach("cw.split-inside-frame")
    for o in wrecs:
        if any(j != o["i"] and j in sent and sent[j] <= o["ts"] and (j not in acked or o["ts"] < acked[j]) for j in sent):
            ctx.reach("cw.write-issued-during-ack-wait")
            break
    between = set()
    for it in items:
        if it["l"] in ("ACK",):
            continue
        waiting = [i for i in sent if sent[i] < it["t"] and (i not in acked or it["t"] < acked[i])]
        pending = [o for o in wrecs if o["ts"] <= it["t"] < o["te"]]
        if waiting and len(pending) >= 2:
            between.add(it["l"])
    for l in between:
        ctx.reach(f"cw.between-acks.{l}")
    if between & {"D", "F", "K", "X"}:
        ctx.reach("cw.queued-frame-before-ack-with-two-writers")
        if all(e in seg_ends for e in fr_ends):
            ctx.reach("cw.queued-frame-before-ack-with-two-writers.separate-segments")
    # writers
    for o in wrecs:
        i, res, te = o["i"], o["res"], o["te"]
        if i in in_time and (closed_at is None or in_time[i] < closed_at - TOL):
            ctx.reach("cw.write.acked")
            if size_bucket(len(datas[i])):
                ctx.reach(f"cw.write.acked.size.{size_bucket(len(datas[i]))}")
            if res[0] != "ok":
                ctx.violation(f"write/concurrent/acked-but-fails/{res[1]}", "with several writers on one connection a write failed although the gateway acked its request within the ack timeout",
                              {**w, "op": o, "sent_at": sent[i], "ack_at": in_time[i]})
                return
            if abs(te - in_time[i]) > TOL:
                ctx.violation("write/concurrent/completion-time", "with several writers on one connection a write did not complete when its ack arrived", {**w, "op": o, "ack_at": in_time[i]})
                return
            continue
        if i in sent and i not in acked:
            ctx.reach("cw.write.no-ack")
            if res[0] == "ok":
                ctx.violation("write/concurrent/completes-without-ack", "a write completed although no ack for its request arrived", {**w, "op": o})
                return
            if not (res[2] or (closed_at is not None and closed_at < sent[i] + ack_time - TOL and res[4])):
                ctx.violation(f"write/concurrent/no-ack/{res[1]}", "a missing ack does not surface as a connection error", {**w, "op": o})
                return
            if te > sent[i] + ack_time + TOL:
                ctx.violation("write/concurrent/no-ack/too-late", "a write whose ack never arrived did not fail within the ack timeout", {**w, "op": o})
                return
            continue
        if i not in sent and closed_at is None:
            ctx.violation("write/concurrent/never-sent", "a write on an open connection ended without its request ever being put on the stream", {**w, "op": o})
            return
        # sent late / acked after the connection had ended / never sent on a closed connection: the statement fixes no outcome except
        # that a write cannot complete without its ack and must not fail with a foreign exception
        ctx.reach("cw.write.after-connection-ended")
        if res[0] == "ok" and i not in acked:
            ctx.violation("write/concurrent/completes-without-ack", "a write completed although no ack for its request arrived", {**w, "op": o})
            return
        if res[0] == "exc" and not (res[4] or res[3]):
            ctx.violation(f"after-close/W/{res[1]}", "operation on the closed connection fails with something other than an OS/connection error", {**w, "op": o})
            return
    # reads after the writers
    ds = [it for it in items if it["l"] == "D"]
    di = 0
    for o in rrecs:
        ts, te, res = o["ts"], o["te"], o["res"]
        if closed_at is not None:
            if res[0] == "ok":
                ctx.violation("after-close/R-succeeds", "operation succeeds on a connection that was closed (missing ack / error word)", {**w, "op": o})
                return
            if not (res[4] or res[3]):
                ctx.violation(f"after-close/R/{res[1]}", "operation on the closed connection fails with something other than an OS/connection error", {**w, "op": o})
                return
            continue
        limit = ts + sc["read_timeout"]
        nxt = ds[di] if di < len(ds) and ds[di]["t"] < limit - TOL else None
        if nxt is None:
            if di < len(ds) and abs(ds[di]["t"] - limit) <= TOL:
                di += 1 if res[0] == "ok" else 0
                continue
            if res[0] == "ok":
                known = [it for it in ds if it["f"][8:] == res[1]]
                ctx.violation(f"read/{'duplicated' if known else 'fabricated'}", "a read returned data although no undelivered ECU->tester data frame had arrived", {**w, "op": o})
                return
            if not res[3]:
                ctx.violation(f"read/{res[1]}", "read() on an open connection fails with something other than a timeout", {**w, "op": o})
                return
            ctx.reach("read.timeout")
            if abs(te - limit) > TOL:
                ctx.violation("read/timeout-time", "read() did not time out at the caller's timeout", {**w, "op": o})
                return
            continue
        if res[0] != "ok":
            ctx.violation(f"read/lost-or-stalled/concurrent-writers/{res[1]}", "a read failed although an ECU->tester data frame for it had arrived in time (skipped while several writers waited for their acks)",
                          {**w, "op": o, "arrived": nxt["t"]})
            return
        if res[1] != nxt["f"][8:]:
            if any(it["f"][8:] == res[1] for it in ds[di + 1:]):
                ctx.violation("read/out-of-order/concurrent-writers", "reads deliver the data frames in another order than they arrived", {**w, "op": o, "expected": nxt["f"][8:]})
            else:
                ctx.violation("read/foreign-or-fabricated-data", "a read returned data that is not the payload of an undelivered ECU->tester data frame", {**w, "op": o, "expected": nxt["f"][8:]})
            return
        di += 1
        ctx.reach("cw.read.delivered")
        if size_bucket(len(res[1])):
            ctx.reach(f"cw.read.delivered.size.{size_bucket(len(res[1]))}")
        if abs(te - max(ts, nxt["t"])) > TOL:
            ctx.violation("read/late-delivery", "a data frame that had arrived was not delivered to the waiting read at once", {**w, "op": o, "arrived": nxt["t"]})
            return
    # alive checks between the acks: answered at the same virtual instant
    want = fr(0x12, bytes([0x00, src]))
    resp = [(t, f) for t, f in cfr if f[4:6] == b"\x00\x12"]
    end_of_run = out["ops"][-1]["te"] if out["ops"] else 0.0
    stop = closed_at if closed_at is not None else 1e18
    for k, t in enumerate(it["t"] for it in items if it["l"] == "A" and it["t"] < stop - TOL and it["t"] < end_of_run - TOL):
        ctx.reach("alive.phase.concurrent-writers")
        if k >= len(resp):
            ctx.violation("alive-check/unanswered/concurrent-writers", "an alive check was not answered", {**w, "request_at": t})
            return
        if resp[k][1] != want:
            ctx.violation("alive-check/response-bytes", "alive check reply is not 00000002 0012 00 <tester address>", {**w, "got": resp[k][1], "want": want})
            return
        if abs(resp[k][0] - t) > TOL:
            ctx.violation("alive-check/late/concurrent-writers", "alive check not answered immediately", {**w, "request_at": t, "answered_at": resp[k][0]})
            return
    if out.get("close") != "ok":
        ctx.violation(f"close/{out.get('close')}", "closing the transport (twice) raises", w)


HOLD = {"W": ("D", "F", "K", "X"), "R": ("F", "K", "X", "ACK")}  # frames an operation of that kind has to take from the queue and hand back


def pair_reach(ctx: Any, outs: list[dict[str, Any]]) -> None:
    """two live connections: did an operation of one connection end while the other connection was in the middle of an operation that
    had already skipped a frame (the situation in which per-connection state must not leak between the objects)?"""
    ctx.reach("dual.groups")
    hit = False
    for a, b in ((0, 1), (1, 0)):
        items = outs[a]["g_frames"]
        ends = [o["te"] for o in outs[b]["ops"] if o["op"] in ("W", "R")]
        for o in outs[a]["ops"]:
            if o["op"] not in HOLD:
                continue
            ts_skip = [t for t, _, l in items if l in HOLD[o["op"]] and o["ts"] <= t < o["te"]]
            if not ts_skip:
                continue
            t_skip = min(ts_skip)
            if any(t_skip < e < o["te"] for e in ends):
                ctx.reach(f"dual.op-ends-during-skip-hold.{o['op']}")
                hit = True
        if any(o1["ts"] < o2["te"] and o2["ts"] < o1["te"] for o1 in outs[a]["ops"] for o2 in outs[b]["ops"] if o1["op"] in HOLD and o2["op"] in HOLD):
            ctx.reach("dual.operations-overlap")
    if hit:
        ctx.reach("dual.op-ends-during-skip-hold")


def run_checked(ctx: Any, scs: list[dict[str, Any]]) -> list[dict[str, Any]] | None:
    """runs one scenario - or several scenarios on connections of their own in one event loop - and judges every connection separately"""
    ctx.case(repr(scs[0]) if len(scs) == 1 else repr(scs), nontrivial=True)
    try:
        outs = vtime.run(run_group(scs))
    except vtime.Deadlock:
        ctx.violation("blocks-forever", "an operation can never complete (nothing scheduled, nothing readable)", {"scenario": scs[0]} if len(scs) == 1 else {"scenario": scs[0], "group": scs})
        return None
    for i, (sc, out) in enumerate(zip(scs, outs)):
        wit = {"scenario": sc} if len(scs) == 1 else {"scenario": sc, "group": scs, "index": i}
        if len(scs) > 1:
            ctx.reach("dual.histories")
            ctx.reach(f"dual.family.{sc.get('family', sc.get('kind', 'seq'))}")
            ctx.reach("dual.same-address-pair" if all((x["src"], x["dst"]) == (sc["src"], sc["dst"]) for x in scs) else "dual.other-address-pair")
        (check_cw if sc.get("kind") == "cw" else check)(ctx, sc, out, wit)
    if len(scs) == 2:
        pair_reach(ctx, outs)
    return outs


def one(ctx: Any, sc: dict[str, Any], partner: dict[str, Any] | None = None) -> dict[str, Any] | None:
    outs = run_checked(ctx, [sc] if partner is None else [sc, partner])
    return None if outs is None else outs[0]


def reaction(rng: random.Random, sc: dict[str, Any], pre: list[str], ackkind: str, post: list[str], uid: list[int]) -> list[Any]:
    r: list[Any] = []
    d = 0.0
    at = sc["ack_timeout"] / 1000
    for l in pre:
        d += (rng.choice([0.0, 0.001, 0.01]) if r else rng.choice([0.001, 0.01])) * (1 if at >= 1 else 0.5)
        r.append((round(d, 5), letter_spec(rng, sc, l, uid)))
    d += (rng.choice([0.0, 0.001, 0.02]) if r else rng.choice([0.001, 0.02]))
    if ackkind == "ack":
        r.append((round(d, 5), ["ACK"]))
    elif ackkind == "late":
        r.append((round(at + rng.choice([0.05, 0.5]), 5), ["ACK"]))
    for l in post:
        d += rng.choice([0.0, 0.0, 0.001, 0.01, 0.25])
        r.append((round(d, 5), letter_spec(rng, sc, l, uid)))
    return r


def size_range(rng: random.Random, sc: dict[str, Any], share: float) -> None:
    """makes `sc` a size-range scenario: `share` of its data frames (for this and for other address pairs) and some of its requests carry
    a payload from the upper part of the legal range, up to the largest UDS message. Must be called before the frames are drawn."""
    sc["sizes"] = share


def size_range_segmentation(rng: random.Random, sc: dict[str, Any], n_frames: int) -> None:
    """how a stream with frames of several KiB reaches the client: in segments of a fixed maximum size (the normal case on TCP), cut at
    random places, frame by frame in one piece each, or (rarely, it is costly) byte by byte"""
    total = 4200 * max(1, n_frames)
    r = rng.random()
    if r < 0.45:
        step = rng.choice([536, 1021, 1448, 1460, 4096])
        sc["cuts"] = list(range(rng.randrange(1, step + 1), total, step))
    elif r < 0.7:
        sc["cuts"] = sorted(rng.sample(range(1, total), rng.randint(1, 12)))
    elif r < 0.74:
        sc["bytewise"] = True


def big_request(rng: random.Random, sc: dict[str, Any], op: dict[str, Any]) -> None:
    if sc.get("sizes") and rng.random() < 0.35:
        op["size"] = size_draw(rng)


def scripted(rng: random.Random, pre: list[str], ackkind: str, post: list[str], pair: tuple[int, int] | None = None, uid0: int = 0, sizes: float = 0.0) -> dict[str, Any]:
    sc = base_scenario(rng, pair)
    sc["family"] = "scripted"
    if sizes:
        size_range(rng, sc, sizes)
    uid = [uid0]
    nD = sum(1 for l in pre + post if l == "D")
    sc["ops"] = [{"op": "W", "data": rng.choice(["22f190", "3e00", "2e1234aabbccdd", "3101020304", "2e1234aabbccddee"]), "react": reaction(rng, sc, pre, ackkind, post, uid)}]
    if sizes:
        big_request(rng, sc, sc["ops"][0])
        size_range_segmentation(rng, sc, len(pre) + len(post) + 1)
    for _ in range(nD + 1):
        sc["ops"].append({"op": "R", "timeout": 1.0})
    return sc


def random_scenario(rng: random.Random, pair: tuple[int, int] | None = None, uid0: int = 0) -> dict[str, Any]:
    sc = base_scenario(rng, pair)
    sc["family"] = "random"
    if rng.random() < 0.2:
        size_range(rng, sc, rng.choice([0.3, 0.6, 1.0]))
    uid = [uid0]
    ops: list[dict[str, Any]] = []
    pending_d = 0
    for _ in range(rng.randint(1, 4)):
        pre = rng.choices(LETTERS, weights=[5, 2, 3, 1, 1, 1, 0.3, 0.4], k=rng.choice([0, 0, 1, 2, 3]))
        post = rng.choices(["D", "F", "A", "S", "T", "E"], weights=[6, 2, 2, 1, 0.3, 0.4], k=rng.choice([0, 1, 2, 3]))
        ackkind = rng.choices(["ack", "none", "late"], weights=[12, 1, 1])[0]
        uid[0] += 1  # every request starts with a unique prefix so that a stray ack echo can never match a later request
        ops.append({"op": "W", "data": rng.choice(["22", "2e", "31"]) + uid[0].to_bytes(2, "big").hex() + rng.randbytes(rng.choice([0, 1, 2, 3, 30])).hex(), "react": reaction(rng, sc, pre, ackkind, post, uid)})
        big_request(rng, sc, ops[-1])
        pending_d += sum(1 for l in pre + post if l == "D")
        for _ in range(rng.randint(0, 2)):
            if rng.random() < 0.6:
                arr = []
                if rng.random() < 0.5:
                    arr.append((rng.choice([0.05, 0.3]), letter_spec(rng, sc, "A", uid)))
                if rng.random() < 0.4:
                    arr.append((0.4, letter_spec(rng, sc, "D", uid)))
                    pending_d += 1
                ops.append({"op": "R", "timeout": rng.choice([0.5, 1.0]), "arrive": arr})
            else:
                l = rng.choice(["A", "A", "D", "F", "S"])
                pending_d += 1 if l == "D" else 0
                ops.append({"op": "idle", "dt": rng.choice([0.3, 0.6]), "arrive": [(rng.choice([0.01, 0.2]), letter_spec(rng, sc, l, uid))]})
    if rng.random() < 0.06:
        # a gateway far ahead of a tester that is not reading at the moment: a burst of queueable frames, then an alive check
        n = rng.randint(17, 40)
        arr, t = [], 0.01
        for _ in range(n):
            l = rng.choice(["D", "D", "F", "K"])
            pending_d += 1 if l == "D" else 0
            arr.append((round(t, 5), letter_spec(rng, sc, l, uid)))
            t += rng.choice([0.0, 0.001])
        arr.append((round(t + 0.01, 5), letter_spec(rng, sc, "A", uid)))
        ops.append({"op": "idle", "dt": 0.3, "arrive": arr})
        sc["burst"] = n
    for _ in range(pending_d + 1):
        ops.append({"op": "R", "timeout": 0.6})
    sc["ops"] = ops
    r = rng.random()
    if sc.get("sizes") and not sc.get("burst"):
        size_range_segmentation(rng, sc, sum(len(o.get("react", [])) + len(o.get("arrive", [])) for o in ops))
    elif r < 0.3:
        sc["cuts"] = sorted(rng.sample(range(1, 300), rng.randint(1, 30)))
    elif r < 0.4:
        sc["bytewise"] = True
    return sc


CW_LETTERS = ["D", "F", "A", "S", "K", "X"]  # what a gateway may put between the acks of concurrent requests (no status/error words: the run stays decidable)


def cw_scenario(rng: random.Random, pair: tuple[int, int] | None = None, uid0: int = 0) -> dict[str, Any]:
    """2-3 tasks write on one connection at (nearly) the same time. The n-th request the gateway receives is answered with a script
    pre-frames, ack, post-frames; by default every gateway frame travels in a segment of its own (strictly increasing arrival times),
    sometimes frames are coalesced, the stream is cut inside frames or delivered bytewise. At most one request stays without ack."""
    sc = base_scenario(rng, pair)
    sc.update({"kind": "cw", "family": "cw", "read_timeout": 1.0})
    if rng.random() < 0.2:
        size_range(rng, sc, rng.choice([0.3, 0.6, 1.0]))
    at = sc["ack_timeout"] / 1000
    scale = 1.0 if at >= 1 else 0.5
    uid = [uid0]
    n = rng.choice([2, 2, 3])
    noack = rng.randrange(n) if rng.random() < 0.12 else None
    coalesce = rng.random() < 0.15
    slow = rng.random() < 0.2  # acks late in the ack window: time queued behind the other writer must not count
    steps = [0.0, 0.001, 0.004] if coalesce else [0.001, 0.004, 0.01]
    writers, reacts = [], []
    n_d = 0
    for i in range(n):
        uid[0] += 1  # unique request prefix: an HSFZ ack echoes only the first five request bytes
        data = rng.choice(["22", "2e", "31"]) + uid[0].to_bytes(2, "big").hex() + rng.randbytes(rng.choice([0, 1, 2, 3, 30])).hex()
        writers.append({"data": data, "start": 0.0 if i == 0 else rng.choice([0.0, 0.0, 0.0002, 0.002])})
        big_request(rng, sc, writers[-1])
        pre = rng.choices(CW_LETTERS, weights=[5, 2, 3, 1, 1, 1], k=rng.choice([0, 1, 1, 2, 3]))
        post = rng.choices(["D", "F", "A", "S"], weights=[5, 2, 2, 1], k=rng.choice([0, 0, 1, 2]))
        r: list[Any] = []
        d = 0.0
        for l in pre:
            d += rng.choice(steps) * scale
            r.append((round(d, 5), letter_spec(rng, sc, l, uid)))
        d += at * rng.choice([0.3, 0.6]) if slow else rng.choice(steps) * scale
        if i != noack:
            r.append((round(d, 5), ["ACK"]))
        for l in post:
            d += rng.choice(steps) * scale
            r.append((round(d, 5), letter_spec(rng, sc, l, uid)))
        n_d += sum(1 for l in pre + post if l == "D")
        reacts.append(r)
    sc.update({"writers": writers, "reacts": reacts, "reads": n_d + 1})
    r2 = rng.random()
    if sc.get("sizes") and rng.random() < 0.6:
        size_range_segmentation(rng, sc, sum(len(x) for x in reacts))
    elif r2 < 0.15:
        sc["cuts"] = sorted(rng.sample(range(1, 200), rng.randint(1, 20)))
    elif r2 < 0.22:
        sc["bytewise"] = True
    return sc


def partner_scenario(rng: random.Random, sc: dict[str, Any]) -> dict[str, Any]:
    """the second live connection of a run: a scenario of any family with its own gateway, its own traffic (payload and request tags
    disjoint from the first connection's), usually its own address pair (sometimes the same pair as the first connection - two gateways
    may well serve the same tester/ECU addresses) and a start offset"""
    pair = (sc["src"], sc["dst"]) if rng.random() < 0.3 else None
    fam = rng.choices(["random", "scripted", "cw"], weights=[5, 3, 2])[0]
    if fam == "random":
        p = random_scenario(rng, pair, 0x8000)
    elif fam == "cw":
        p = cw_scenario(rng, pair, 0x8000)
    else:
        p = scripted(rng, rng.choices(LETTERS[:6], k=rng.choice([0, 1, 2])), "ack", rng.choices(["D", "F", "A"], k=rng.choice([0, 1, 2])), pair, 0x8000)
    p["start"] = rng.choice([0.0, 0.0, 0.0005, 0.002, 0.005, 0.015])
    return p


def run(ctx: Any, params: dict[str, Any]) -> None:
    import gallia.command  # noqa: F401

    vtime.quiet_logging()
    rng = ctx.rng
    if params["mode"] == "exh":
        k = 0
        for ln in range(0, params["maxlen"] + 1):
            for tup in itertools.product(LETTERS, repeat=ln):
                k += 1
                if k % params["parts"] != params["part"]:
                    continue
                for place in ("pre", "post", "both"):
                    pre = list(tup) if place in ("pre", "both") else []
                    post = list(tup) if place in ("post", "both") else []
                    if place == "both" and ln > 2:
                        continue
                    for ackkind in ("ack", "none"):
                        if ackkind != "ack" and (place != "pre" or k % 3):
                            continue
                        sc = scripted(rng, pre, ackkind, post)
                        out = one(ctx, sc)
                        if k % 4 == 2 and ("D" in tup or "F" in tup):
                            # the same script with data frames (and sometimes the request) from the upper part of the payload size range
                            one(ctx, scripted(rng, pre, ackkind, post, sizes=rng.choice([0.5, 1.0])))
                        if k % 3 == 1:
                            # the same script next to a second live connection (own gateway, own traffic) in the same event loop
                            one(ctx, sc, partner_scenario(rng, sc))
                        if out is None or ackkind != "ack" or k % 11:
                            continue
                        total = sum(len(f) for _, f, _ in out["g_frames"])
                        pts = list(range(1, total))
                        if len(pts) > params["splits"]:
                            pts = rng.sample(pts, params["splits"])
                        ref = [o["res"] for o in out["ops"]]
                        for c in pts:
                            sc2 = dict(sc)
                            sc2["cuts"] = [c]
                            out2 = one(ctx, sc2)
                            if out2 is not None and [o["res"] for o in out2["ops"]] != ref and "T" not in tup:
                                ctx.violation("segmentation/outcome-depends-on-split", "the same gateway frame sequence gives other results when the byte stream is split differently", {"scenario": sc2, "cut": c})
                        # header|address boundary of every frame
                        off = 0
                        for _, f, _ in out["g_frames"]:
                            if len(f) > 6:
                                sc4 = dict(sc)
                                sc4["cuts"] = [off + 6]
                                one(ctx, sc4)
                            off += len(f)
                        sc3 = dict(sc)
                        sc3["bytewise"] = True
                        one(ctx, sc3)
                if ctx.out_of_time():
                    return
        return
    for i in range(params["n"]):
        if i % 25 == 0:
            concurrent_writers(ctx, rng)
        if i % 4 == 2:
            # several writers on one connection, frames between the acks; every other time next to a second live connection
            sc = cw_scenario(rng)
            one(ctx, sc, partner_scenario(rng, sc) if i % 8 == 2 else None)
        sc = random_scenario(rng)
        if sc.get("burst"):
            ctx.reach("burst.over-16-unread-frames-then-alive-check")
        # every third case runs next to a second live connection in the same event loop
        one(ctx, sc, partner_scenario(rng, sc) if i % 3 == 1 else None)
        if i % 100 == 0:
            ctx.sample({"uri": uri(sc), "ops": [(o["op"], [s[1][0] for s in o.get("react", [])] or None) for o in sc["ops"]][:8], "cuts": sc["cuts"][:6]})
        if ctx.out_of_time():
            break


async def _concurrent_writers(sc: dict[str, Any], latency: float) -> list[Any]:
    from gallia.transports.hsfz import HSFZTransport

    loop = asyncio.get_running_loop()

    def factory(n: int) -> gateway.Gateway:
        g = gateway.Gateway(split_client)

        def on_frame(now: float, f: bytes) -> None:
            if f[4:6] == b"\x00\x01":
                g.send(latency, fr(0x02, bytes([sc["src"], sc["dst"]]) + f[8:][:5]), "ACK", header_len=6)

        g.on_client_frame = on_frame
        return g

    with gateway.GatewayHub(factory):
        tr = await HSFZTransport.connect(uri(sc), timeout=2.0)

        async def w(data: bytes) -> Any:
            t0 = loop.time()
            try:
                await tr.write(data, timeout=None)
                return ("ok", loop.time() - t0)
            except BaseException as e:
                return ("exc", type(e).__name__, loop.time() - t0)

        res = list(await asyncio.gather(w(bytes.fromhex("22f190aa")), w(bytes.fromhex("22f191bb")), w(bytes.fromhex("22f192cc"))))
        await tr.close()
    return res


def concurrent_writers(ctx: Any, rng: random.Random) -> None:
    """three tasks write on one connection at once; the gateway acks each message `latency` after receiving it, i.e. within the ack timeout
    of that message: every write must complete (time spent queued behind another writer does not count against the ack timeout)"""
    sc = base_scenario(rng)
    latency = round(sc["ack_timeout"] / 1000 * rng.choice([0.45, 0.7, 0.95]), 4)
    ctx.case(("concurrent-writers", repr(sc), latency))
    ctx.reach("concurrent-writers")
    try:
        res = vtime.run(_concurrent_writers(sc, latency))
    except vtime.Deadlock:
        ctx.violation("write/concurrent-writers/blocks-forever", "concurrent writes on one connection never complete", {"scenario": sc, "latency": latency})
        return
    if any(r[0] != "ok" for r in res):
        ctx.violation("write/concurrent-writers/acked-but-fails", "a write that was acked within the ack timeout of its own transmission failed because it had queued behind another writer",
                      {"scenario": sc, "latency": latency, "results": res})


def replay(ctx: Any, witness: dict[str, Any]) -> None:
    import gallia.command  # noqa: F401

    vtime.quiet_logging()
    sc = witness["scenario"]
    if "latency" in witness:
        concurrent_writers(ctx, random.Random(0))
        return
    run_checked(ctx, witness["group"] if "group" in witness else [sc])
