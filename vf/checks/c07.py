"""C07 HSFZ: frames are demultiplexed correctly under any segmentation and interleaving (DESIGN.md section 3, appendix C)."""

from __future__ import annotations

import asyncio
import itertools
import random
import struct
from typing import Any

from vf import gateway, vtime

PROPERTY = "C07"
LEVEL = "exploration"
ENGINE = "vtime-memstream"
TECHNIQUE = (
    "recorded histories + offline reference demultiplexer: the production HSFZTransport/HSFZConnection runs on in-memory streams "
    "against a scripted gateway under a virtual clock; gateway frames with arrival times, client frames with send times and every "
    "write/read result are logged and replayed through a queue model written from the statement (ack = control word 0x02 + tester "
    "address pair + first five request bytes within ack_timeout; reads = payloads of ECU->tester data frames in order; alive check "
    "answered at once; error words = connection error + close), under enumerated split points and interleavings"
)
LEVEL_TEXT = (
    "Exploration with exhaustive sub-spaces: gateway frame scripts (exhaustive to length 3 quick / 4 thorough over a 9-letter "
    "alphabet incl. short frames, status and error words; random to length 8) injected before the ack, after it, during a blocked "
    "read and while idle, x ack timeouts {100, 1000, 5000} ms, with the byte stream cut at every single split point of base scripts "
    "(incl. inside the 6-byte header and between header and address bytes), seeded multi-splits, byte-wise and coalesced. Held = "
    "held on the recorded histories."
)
LEVEL_NOTE = "Trusted: frame builders and queue model in vf/checks/c07.py, vf/gateway.py, virtual clock. Status words (0x10/0x11/0x13) may be ignored or end the connection (the statement only fixes error words)."
RULE = (
    "cases = (URI parameters incl. ack_timeout, client op program, gateway frame script with delays, segmentation plan); non-trivial = "
    "the script contains a frame other than the awaited one or a split inside a frame; distinct = distinct case tuples; distinct_traces = "
    "distinct (frame label / op result) sequences"
)
ASSUMPTIONS = [
    "gateway frames are well-formed; an ack matches iff control word 0x02, the tester's address pair and exactly the first five request bytes",
    "stray acks that would match a later request are not generated",
    "status control words (0x10, 0x11, 0x13) may either be ignored or terminate the connection with a connection error",
    "after the connection was closed (missing ack, error word) later operations are only required to fail (OSError/ConnectionError), not to hang or succeed",
]
EXHAUSTIVE = {"quick": False, "thorough": False}
EXHAUSTIVE_NOTE = "exhaustive: pre-ack scripts to length 3/4, every single split point of the base scripts"

TOL = 1e-3
LETTERS = ["D", "F", "A", "S", "K", "X", "T", "E"]  # data for us, foreign data, alive check, short frame, foreign-address ack, wrong-echo ack, status word, error word


def fr(cword: int, body: bytes) -> bytes:
    return struct.pack("!IH", len(body), cword) + body


def split_client(buf: bytearray) -> list[bytes]:
    out = []
    while len(buf) >= 6:
        ln = struct.unpack("!I", buf[:4])[0]
        if len(buf) < 6 + ln:
            break
        out.append(bytes(buf[: 6 + ln]))
        del buf[: 6 + ln]
    return out


def shards(tier: str, seed: int) -> list[dict[str, Any]]:
    if tier == "quick":
        return [{"mode": "exh", "maxlen": 3, "part": i, "parts": 8, "splits": 30} for i in range(8)] + [{"mode": "rand", "n": 1500, "part": i} for i in range(8)]
    return [{"mode": "exh", "maxlen": 4, "part": i, "parts": 16, "splits": 200} for i in range(16)] + [{"mode": "rand", "n": 12000, "part": i} for i in range(12)]


def required_reach(tier: str) -> dict[str, int]:
    return {"alive.phase.before-ack": 20, "alive.phase.blocked-in-read": 20, "alive.phase.idle": 20, "data-before-ack": 20, "split.in-header": 50, "split.header-address": 10,
            "split.in-payload": 50, "bytewise": 10, "coalesced-frames": 20, "write.acked": 500, "write.ack-timeout": 20, "read.delivered": 500, "read.timeout": 50,
            "error-word.surfaced": 20, "short-frame": 20, "status-word": 10, "ack_timeout.100": 20, "ack_timeout.1000": 20, "ack_timeout.5000": 20, "histories": 1000, "concurrent-writers": 20}


def spec_frame(sc: dict[str, Any], spec: list[Any], req: bytes | None) -> tuple[bytes, str]:
    src, dst = sc["src"], sc["dst"]
    k = spec[0]
    if k == "D":
        return fr(0x01, bytes([dst, src]) + bytes.fromhex(spec[1])), "D"
    if k == "F":
        return fr(0x01, bytes([spec[2], spec[3]]) + bytes.fromhex(spec[1])), "F"
    if k == "A":
        return fr(0x12, bytes.fromhex(spec[1])), "A"
    if k == "S":
        return fr(spec[1], bytes.fromhex(spec[2])), "S"
    if k == "K":
        return fr(0x02, bytes([spec[1], spec[2]]) + (req or b"")[:5]), "K"
    if k == "X":
        return fr(0x02, bytes([src, dst]) + bytes.fromhex(spec[1])), "X"
    if k == "XR":  # our address pair, echo derived from the request but not equal to its first five bytes
        r = req or b""
        echo = {"flip5": r[:4] + bytes([(r[4] if len(r) > 4 else 0) ^ 0x01]), "first4": r[:4], "first6": r[:6] + b"\x00"[: max(0, 6 - len(r[:6]))], "flip1": bytes([(r[0] if r else 0) ^ 0x80]) + r[1:5]}[spec[1]]
        if echo == r[:5]:
            echo += b"\xff"
        return fr(0x02, bytes([src, dst]) + echo), "X"
    if k == "T":
        return fr(spec[1], bytes.fromhex(spec[2])), "T"
    if k == "E":
        return fr(spec[1], bytes.fromhex(spec[2])), "E"
    if k == "ACK":
        return fr(0x02, bytes([src, dst]) + (req or b"")[:5]), "ACK"
    raise AssertionError(spec)


def letter_spec(rng: random.Random, sc: dict[str, Any], letter: str, uid: list[int]) -> list[Any]:
    uid[0] += 1
    tag = uid[0].to_bytes(2, "big").hex()
    if letter == "D":
        return ["D", "62f190" + tag + rng.randbytes(rng.choice([0, 1, 7, 40])).hex()]
    if letter == "F":
        o = rng.choice([(sc["dst"] ^ 1, sc["src"]), (sc["dst"], sc["src"] ^ 1), (sc["src"], sc["dst"])])
        return ["F", "62f190" + tag, o[0] & 0xFF, o[1] & 0xFF]
    if letter == "A":
        return ["A", rng.choice(["", "ffff", "ffffcaffee", "00"])]
    if letter == "S":
        return ["S", rng.choice([0x01, 0x02]), rng.choice(["", "aa"])]
    if letter == "K":
        o = rng.choice([(sc["dst"], sc["src"]), (sc["src"] ^ 1, sc["dst"]), (sc["src"], sc["dst"] ^ 1)])
        return ["K", o[0] & 0xFF, o[1] & 0xFF]
    if letter == "X":
        if rng.random() < 0.6:
            return ["XR", rng.choice(["flip5", "first4", "first6", "flip1"])]
        return ["X", rng.choice(["ff" + tag, "", "22f1"])]
    if letter == "T":
        return ["T", rng.choice([0x10, 0x11, 0x13]), rng.choice(["", "00", "f410aabb"])]
    if letter == "E":
        return ["E", rng.choice([0x40, 0x41, 0x42, 0x43, 0x44, 0x45, 0xFF]), rng.choice(["", "00", "f410"])]
    raise AssertionError(letter)


def base_scenario(rng: random.Random) -> dict[str, Any]:
    src = rng.choice([0xF4, 0xF1, 0x01, rng.randrange(1, 256)])
    dst = rng.choice([0x10, 0x40, 0xDF, rng.randrange(1, 256)])
    if dst == src:
        dst ^= 0x10
    return {"src": src, "dst": dst, "ack_timeout": rng.choice([100, 1000, 5000]), "ops": [], "cuts": [], "bytewise": False}


def uri(sc: dict[str, Any]) -> str:
    return f"hsfz://192.0.2.9:6801?src_addr={sc['src']:#x}&dst_addr={sc['dst']:#x}&ack_timeout={sc['ack_timeout']}"


async def run_scenario(sc: dict[str, Any]) -> dict[str, Any]:
    from gallia.transports.hsfz import HSFZTransport

    loop = asyncio.get_running_loop()
    gws: list[gateway.Gateway] = []
    reactions: list[Any] = []
    oplog: list[dict[str, Any]] = []

    def factory(n: int) -> gateway.Gateway:
        g = gateway.Gateway(split_client, cuts=set(sc["cuts"]), bytewise=sc["bytewise"])

        def on_frame(now: float, f: bytes) -> None:
            cword = struct.unpack("!H", f[4:6])[0]
            if cword == 0x01 and reactions:
                react = reactions.pop(0)
                req = f[8:]
                prev_d = None
                for d, spec in react:
                    b, lab = spec_frame(sc, spec, req)
                    g.send(d, b, lab, header_len=6, glue=(prev_d is not None and d == prev_d))
                    prev_d = d

        g.on_client_frame = on_frame
        gws.append(g)
        return g

    out: dict[str, Any] = {"ops": oplog}
    with gateway.GatewayHub(factory):
        t0 = loop.time()
        tr = await HSFZTransport.connect(uri(sc), timeout=2.0)
        g = gws[0]
        for op in sc["ops"]:
            ts = loop.time()
            rec: dict[str, Any] = {"op": op["op"], "ts": ts}
            prev_d = None
            for d, spec in op.get("arrive", []):
                b, lab = spec_frame(sc, spec, None)
                g.send(d, b, lab, header_len=6, glue=(prev_d is not None and d == prev_d))
                prev_d = d
            try:
                if op["op"] == "W":
                    reactions.append(op["react"])
                    n = await tr.write(bytes.fromhex(op["data"]), timeout=op.get("timeout"))
                    rec["res"] = ("ok", n)
                elif op["op"] == "R":
                    r = await tr.read(timeout=op["timeout"])
                    rec["res"] = ("ok", r)
                else:
                    await asyncio.sleep(op["dt"])
                    rec["res"] = ("ok", None)
            except BaseException as e:
                rec["res"] = ("exc", type(e).__name__, isinstance(e, ConnectionError), isinstance(e, TimeoutError), isinstance(e, OSError))
            rec["te"] = loop.time()
            oplog.append(rec)
        try:
            await tr.close()
            await tr.close()
            out["close"] = "ok"
        except BaseException as e:
            out["close"] = type(e).__name__
    g0 = gws[0]
    out.update({"g_frames": g0.frames_out, "c_frames": g0.client_frames, "t0": t0, "split_in_header": g0.split_in_header, "split_in_payload": g0.split_in_payload,
                "fed": g0.fed, "writer_closed": g0.writer.closed})
    return out


def check(ctx: Any, sc: dict[str, Any], out: dict[str, Any]) -> None:
    src, dst = sc["src"], sc["dst"]
    ack_time = sc["ack_timeout"] / 1000
    w = {"scenario": sc}
    ctx.reach("histories")
    ctx.reach(f"ack_timeout.{sc['ack_timeout']}")
    gfr = out["g_frames"]
    cfr = out["c_frames"]
    ctx.trace(tuple(l for _, _, l in gfr) + tuple((o["op"], o["res"][0] if o["res"][0] == "ok" else o["res"][1]) for o in out["ops"]))
    if out["split_in_header"]:
        ctx.reach("split.in-header")
    if out["split_in_payload"]:
        ctx.reach("split.in-payload")
    if sc["bytewise"]:
        ctx.reach("bytewise")
        ctx.reach("split.header-address")
    # a cut exactly between the 6 byte header and the address bytes
    off = 0
    for _, f, _ in gfr:
        if off + 6 in sc["cuts"] and len(f) > 6:
            ctx.reach("split.header-address")
        off += len(f)
    if any(len(split_client(bytearray(d))) > 1 for _, d in out["fed"]):
        ctx.reach("coalesced-frames")
    if any(l == "S" for _, _, l in gfr):
        ctx.reach("short-frame")
    if any(l == "T" for _, _, l in gfr):
        ctx.reach("status-word")
    # queue model: items in arrival order
    items = [{"t": t, "l": l, "f": f, "used": False} for t, f, l in gfr]
    data_out = [(t, f) for t, f in cfr if f[4:6] == b"\x00\x01"]
    wi = 0
    closed_at: float | None = None
    unspecified_from: float | None = None  # a status word was (or may have been) seen by the client: outcomes are not fixed by the statement
    data_before_ack = False

    def seen_status(upto: float) -> bool:
        return any(it["l"] == "T" and it["t"] <= upto for it in items)

    for idx, o in enumerate(out["ops"]):
        ts, te, res = o["ts"], o["te"], o["res"]
        spec_op = sc["ops"][idx]
        if o["op"] == "idle":
            continue
        if closed_at is not None:
            if res[0] == "ok":
                ctx.violation(f"after-close/{o['op']}-succeeds", "operation succeeds on a connection that was closed (missing ack / error word)", {**w, "op": o})
            elif not (res[4] or res[3]):
                ctx.violation(f"after-close/{o['op']}/{res[1]}", "operation on the closed connection fails with something other than an OS/connection error", {**w, "op": o})
            continue
        if unspecified_from is not None:
            # after a status word: either everything continues to work or the connection ended with a connection error
            if res[0] == "exc" and res[2]:
                closed_at = te
                ctx.reach("status-word.ends-connection")
            elif res[0] == "exc" and not res[3]:
                ctx.violation(f"status-word/{res[1]}", "after a status control word an operation fails with a foreign exception", {**w, "op": o})
            if o["op"] == "W" and res[0] == "ok":
                wi += 1
            elif o["op"] == "W":
                wi += 1
            continue
        if o["op"] == "W":
            data = bytes.fromhex(spec_op["data"])
            want = fr(0x01, bytes([src, dst]) + data)
            if wi >= len(data_out) or data_out[wi][1] != want or abs(data_out[wi][0] - ts) > TOL:
                ctx.violation("write/request-frame", "write() did not put exactly the data frame tester->ECU on the stream", {**w, "op": o, "want": want})
                return
            wi += 1
            # scan everything that is queued or arrives until the matching ack / the ack timeout
            limit = ts + ack_time
            t_ack = None
            t_err = None
            boundary = False
            for it in items:
                if it["used"] or it["t"] > limit + TOL:
                    continue
                if it["t"] > limit - TOL and it["l"] in ("ACK", "E", "T"):
                    boundary = True  # arrives within the tolerance of the ack deadline: either outcome is acceptable
                    break
                if it["l"] in ("ACK",) and it["t"] > ts and it["f"][6:8] == bytes([src, dst]) and it["f"][8:] == data[:5]:
                    t_ack = it["t"]
                    it["used"] = True
                    break
                if it["l"] == "E":
                    t_err = max(ts, it["t"])
                    it["used"] = True
                    break
                if it["l"] == "T":
                    unspecified_from = it["t"]
                    break
            if boundary:
                ctx.reach("write.ack-at-deadline")
                if res[0] == "exc":
                    closed_at = te
                else:
                    for it in items:
                        if not it["used"] and it["l"] == "ACK" and limit - TOL < it["t"] <= limit + TOL:
                            it["used"] = True
                            break
                continue
            if unspecified_from is not None:
                if res[0] == "exc" and res[2]:
                    closed_at = te
                elif res[0] == "exc":
                    ctx.violation(f"status-word/{res[1]}", "a status control word makes write() fail with a foreign exception", {**w, "op": o})
                continue
            if t_ack is not None and any(it["l"] == "D" and not it["used"] and ts < it["t"] <= t_ack for it in items):
                data_before_ack = True
                ctx.reach("data-before-ack")
            if t_err is not None:
                ctx.reach("error-word.surfaced")
                if res[0] == "ok" or not res[2]:
                    ctx.violation(f"error-word/during-write/{'ignored' if res[0] == 'ok' else res[1]}", "an error control word did not surface as a connection error", {**w, "op": o})
                elif abs(te - t_err) > TOL:
                    ctx.violation("error-word/during-write/late", "the error control word surfaced later than it arrived", {**w, "op": o, "arrived": t_err})
                elif not out["writer_closed"]:
                    ctx.violation("error-word/connection-not-closed", "after an error control word the connection was not closed", {**w, "op": o})
                closed_at = te
                continue
            if t_ack is None:
                ctx.reach("write.ack-timeout")
                if res[0] == "ok":
                    ctx.violation("write/completes-without-ack", "write() completed although no matching ack arrived within the ack timeout", {**w, "op": o})
                elif not res[2]:
                    ctx.violation(f"write/no-ack/{res[1]}", "a missing ack does not surface as a connection error", {**w, "op": o})
                elif te > limit + TOL:
                    ctx.violation("write/no-ack/too-late", "write() did not fail within the ack timeout", {**w, "op": o, "limit": limit})
                closed_at = te
                continue
            ctx.reach("write.acked")
            if res[0] != "ok":
                phase = "alive-before-ack" if any(ts < it["t"] < t_ack and it["l"] == "A" for it in items) else "plain"
                ctx.violation(f"write/acked-but-fails/{phase}/{res[1]}", "the gateway acked the message in time but write() failed", {**w, "op": o, "ack_at": t_ack})
                closed_at = te
                continue
            if abs(te - t_ack) > TOL:
                ctx.violation("write/completion-time", "write() did not complete when the ack arrived", {**w, "op": o, "ack_at": t_ack})
        else:  # R
            to = spec_op["timeout"]
            limit = ts + to
            nxt = None
            for it in items:
                if it["used"] or it["t"] >= limit - TOL:
                    continue
                if it["l"] in ("D", "E", "T"):
                    nxt = it
                    break
            if nxt is not None and nxt["l"] == "T":
                unspecified_from = nxt["t"]
                if res[0] == "exc" and res[2]:
                    closed_at = te
                elif res[0] == "ok":
                    # it delivered some data frame: consume it in the model as well
                    for it in items:
                        if it["l"] == "D" and not it["used"] and it["f"][8:] == res[1]:
                            it["used"] = True
                            break
                continue
            if nxt is None and res[0] == "exc" and res[2] and any(not it["used"] and it["l"] in ("E", "T") and abs(it["t"] - limit) <= TOL for it in items):
                closed_at = te  # a control word arrived within the tolerance of the read deadline: it may or may not have been seen
                continue
            if nxt is None:
                # nothing deliverable in time (frames arriving within TOL of the deadline may go either way)
                near = [it for it in items if not it["used"] and it["l"] == "D" and abs(it["t"] - limit) <= TOL]
                if res[0] == "ok" and near and res[1] == near[0]["f"][8:]:
                    near[0]["used"] = True
                    continue
                if res[0] == "ok":
                    known = [it for it in items if it["l"] == "D" and it["f"][8:] == res[1]]
                    kind = "duplicated" if known and known[0]["used"] else ("fabricated" if not known else "early")
                    ctx.violation(f"read/{kind}", "a read returned data although no undelivered ECU->tester data frame had arrived", {**w, "op": o})
                    return
                if not res[3]:
                    ctx.violation(f"read/{res[1]}", "read() on an open connection fails with something other than a timeout", {**w, "op": o})
                    closed_at = te
                    continue
                ctx.reach("read.timeout")
                if abs(te - limit) > TOL:
                    ctx.violation("read/timeout-time", "read() did not time out at the caller's timeout", {**w, "op": o})
                continue
            want_t = max(ts, nxt["t"])
            if nxt["l"] == "E":
                nxt["used"] = True
                ctx.reach("error-word.surfaced")
                if res[0] == "ok" or not res[2]:
                    ctx.violation(f"error-word/during-read/{'ignored' if res[0] == 'ok' else res[1]}", "an error control word did not surface as a connection error", {**w, "op": o})
                elif abs(te - want_t) > TOL:
                    ctx.violation("error-word/during-read/late", "the error control word surfaced later than it arrived", {**w, "op": o})
                elif not out["writer_closed"]:
                    ctx.violation("error-word/connection-not-closed", "after an error control word the connection was not closed", {**w, "op": o})
                closed_at = te
                continue
            # a data frame for us
            if res[0] != "ok":
                blocked_alive = any(ts < it["t"] < te and it["l"] == "A" for it in items)
                ctx.violation(f"read/lost-or-stalled/{'alive-while-blocked' if blocked_alive else ('data-before-ack' if data_before_ack else 'other')}/{res[1]}",
                              "a read failed although an ECU->tester data frame for it had arrived in time", {**w, "op": o, "arrived": nxt["t"]})
                return
            if res[1] != nxt["f"][8:]:
                others = [it for it in items if it["l"] == "D" and not it["used"] and it["f"][8:] == res[1]]
                if others:
                    ctx.violation(f"read/out-of-order/{'requeue-during-ack-wait' if data_before_ack or any(x['op'] == 'W' for x in out['ops'][:idx]) else 'other'}",
                                  "reads deliver the data frames in another order than they arrived", {**w, "op": o, "expected": nxt["f"][8:]})
                else:
                    ctx.violation("read/foreign-or-fabricated-data", "a read returned data that is not the payload of an undelivered ECU->tester data frame", {**w, "op": o, "expected": nxt["f"][8:]})
                return
            nxt["used"] = True
            ctx.reach("read.delivered")
            if abs(te - want_t) > TOL:
                ctx.violation("read/late-delivery", "a data frame that had arrived was not delivered to the waiting read at once", {**w, "op": o, "arrived": nxt["t"]})
    # alive checks: answered at the same virtual instant with 00000002 0012 00 <src>
    want = fr(0x12, bytes([0x00, src]))
    resp = [(t, f) for t, f in cfr if f[4:6] == b"\x00\x12"]
    stop = min(x for x in (closed_at, unspecified_from, 1e18) if x is not None)
    end_of_run = out["ops"][-1]["te"] if out["ops"] else 0.0  # afterwards the harness closes the transport: later alive checks cannot be answered
    reqs = [it["t"] for it in items if it["l"] == "A" and it["t"] < stop - TOL and it["t"] < end_of_run - TOL]
    for i, t in enumerate(reqs):
        phase = "idle"
        for o in out["ops"]:
            if o["ts"] <= t <= o["te"]:
                phase = {"W": "before-ack", "R": "blocked-in-read", "idle": "idle"}[o["op"]]
        ctx.reach(f"alive.phase.{phase}")
        if i >= len(resp):
            ctx.violation(f"alive-check/unanswered/{phase}", "an alive check was not answered", {**w, "request_at": t})
            return
        if resp[i][1] != want:
            ctx.violation("alive-check/response-bytes", "alive check reply is not 00000002 0012 00 <tester address>", {**w, "got": resp[i][1], "want": want})
            return
        if abs(resp[i][0] - t) > TOL:
            ctx.violation(f"alive-check/late/{phase}", "alive check not answered immediately", {**w, "request_at": t, "answered_at": resp[i][0]})
            return
    if out.get("close") != "ok":
        ctx.violation(f"close/{out.get('close')}", "closing the transport (twice) raises", w)


def one(ctx: Any, sc: dict[str, Any]) -> dict[str, Any] | None:
    ctx.case(repr(sc), nontrivial=True)
    try:
        out = vtime.run(run_scenario(sc))
    except vtime.Deadlock:
        ctx.violation("blocks-forever", "an operation can never complete (nothing scheduled, nothing readable)", {"scenario": sc})
        return None
    check(ctx, sc, out)
    return out


def reaction(rng: random.Random, sc: dict[str, Any], pre: list[str], ackkind: str, post: list[str], uid: list[int]) -> list[Any]:
    r: list[Any] = []
    d = 0.0
    at = sc["ack_timeout"] / 1000
    for l in pre:
        d += (rng.choice([0.0, 0.001, 0.01]) if r else rng.choice([0.001, 0.01])) * (1 if at >= 1 else 0.5)
        r.append((round(d, 5), letter_spec(rng, sc, l, uid)))
    d += (rng.choice([0.0, 0.001, 0.02]) if r else rng.choice([0.001, 0.02]))
    if ackkind == "ack":
        r.append((round(d, 5), ["ACK"]))
    elif ackkind == "late":
        r.append((round(at + rng.choice([0.05, 0.5]), 5), ["ACK"]))
    for l in post:
        d += rng.choice([0.0, 0.0, 0.001, 0.01, 0.25])
        r.append((round(d, 5), letter_spec(rng, sc, l, uid)))
    return r


def scripted(rng: random.Random, pre: list[str], ackkind: str, post: list[str]) -> dict[str, Any]:
    sc = base_scenario(rng)
    uid = [0]
    nD = sum(1 for l in pre + post if l == "D")
    sc["ops"] = [{"op": "W", "data": rng.choice(["22f190", "3e00", "2e1234aabbccdd", "3101020304", "2e1234aabbccddee"]), "react": reaction(rng, sc, pre, ackkind, post, uid)}]
    for _ in range(nD + 1):
        sc["ops"].append({"op": "R", "timeout": 1.0})
    return sc


def run(ctx: Any, params: dict[str, Any]) -> None:
    import gallia.command  # noqa: F401

    vtime.quiet_logging()
    rng = ctx.rng
    if params["mode"] == "exh":
        k = 0
        for ln in range(0, params["maxlen"] + 1):
            for tup in itertools.product(LETTERS, repeat=ln):
                k += 1
                if k % params["parts"] != params["part"]:
                    continue
                for place in ("pre", "post", "both"):
                    pre = list(tup) if place in ("pre", "both") else []
                    post = list(tup) if place in ("post", "both") else []
                    if place == "both" and ln > 2:
                        continue
                    for ackkind in ("ack", "none"):
                        if ackkind != "ack" and (place != "pre" or k % 3):
                            continue
                        sc = scripted(rng, pre, ackkind, post)
                        out = one(ctx, sc)
                        if out is None or ackkind != "ack" or k % 11:
                            continue
                        total = sum(len(f) for _, f, _ in out["g_frames"])
                        pts = list(range(1, total))
                        if len(pts) > params["splits"]:
                            pts = rng.sample(pts, params["splits"])
                        ref = [o["res"] for o in out["ops"]]
                        for c in pts:
                            sc2 = dict(sc)
                            sc2["cuts"] = [c]
                            out2 = one(ctx, sc2)
                            if out2 is not None and [o["res"] for o in out2["ops"]] != ref and "T" not in tup:
                                ctx.violation("segmentation/outcome-depends-on-split", "the same gateway frame sequence gives other results when the byte stream is split differently", {"scenario": sc2, "cut": c})
                        # header|address boundary of every frame
                        off = 0
                        for _, f, _ in out["g_frames"]:
                            if len(f) > 6:
                                sc4 = dict(sc)
                                sc4["cuts"] = [off + 6]
                                one(ctx, sc4)
                            off += len(f)
                        sc3 = dict(sc)
                        sc3["bytewise"] = True
                        one(ctx, sc3)
                if ctx.out_of_time():
                    return
        return
    for i in range(params["n"]):
        if i % 25 == 0:
            concurrent_writers(ctx, rng)
        sc = base_scenario(rng)
        uid = [0]
        ops: list[dict[str, Any]] = []
        pending_d = 0
        for _ in range(rng.randint(1, 4)):
            pre = rng.choices(LETTERS, weights=[5, 2, 3, 1, 1, 1, 0.3, 0.4], k=rng.choice([0, 0, 1, 2, 3]))
            post = rng.choices(["D", "F", "A", "S", "T", "E"], weights=[6, 2, 2, 1, 0.3, 0.4], k=rng.choice([0, 1, 2, 3]))
            ackkind = rng.choices(["ack", "none", "late"], weights=[12, 1, 1])[0]
            uid[0] += 1  # every request starts with a unique prefix so that a stray ack echo can never match a later request
            ops.append({"op": "W", "data": rng.choice(["22", "2e", "31"]) + uid[0].to_bytes(2, "big").hex() + rng.randbytes(rng.choice([0, 1, 2, 3, 30])).hex(), "react": reaction(rng, sc, pre, ackkind, post, uid)})
            pending_d += sum(1 for l in pre + post if l == "D")
            for _ in range(rng.randint(0, 2)):
                if rng.random() < 0.6:
                    arr = []
                    if rng.random() < 0.5:
                        arr.append((rng.choice([0.05, 0.3]), letter_spec(rng, sc, "A", uid)))
                    if rng.random() < 0.4:
                        arr.append((0.4, letter_spec(rng, sc, "D", uid)))
                        pending_d += 1
                    ops.append({"op": "R", "timeout": rng.choice([0.5, 1.0]), "arrive": arr})
                else:
                    l = rng.choice(["A", "A", "D", "F", "S"])
                    pending_d += 1 if l == "D" else 0
                    ops.append({"op": "idle", "dt": rng.choice([0.3, 0.6]), "arrive": [(rng.choice([0.01, 0.2]), letter_spec(rng, sc, l, uid))]})
        for _ in range(pending_d + 1):
            ops.append({"op": "R", "timeout": 0.6})
        sc["ops"] = ops
        r = rng.random()
        if r < 0.3:
            sc["cuts"] = sorted(rng.sample(range(1, 300), rng.randint(1, 30)))
        elif r < 0.4:
            sc["bytewise"] = True
        one(ctx, sc)
        if i % 100 == 0:
            ctx.sample({"uri": uri(sc), "ops": [(o["op"], [s[1][0] for s in o.get("react", [])] or None) for o in ops][:8], "cuts": sc["cuts"][:6]})
        if ctx.out_of_time():
            break


async def _concurrent_writers(sc: dict[str, Any], latency: float) -> list[Any]:
    from gallia.transports.hsfz import HSFZTransport

    loop = asyncio.get_running_loop()

    def factory(n: int) -> gateway.Gateway:
        g = gateway.Gateway(split_client)

        def on_frame(now: float, f: bytes) -> None:
            if f[4:6] == b"\x00\x01":
                g.send(latency, fr(0x02, bytes([sc["src"], sc["dst"]]) + f[8:][:5]), "ACK", header_len=6)

        g.on_client_frame = on_frame
        return g

    with gateway.GatewayHub(factory):
        tr = await HSFZTransport.connect(uri(sc), timeout=2.0)

        async def w(data: bytes) -> Any:
            t0 = loop.time()
            try:
                await tr.write(data, timeout=None)
                return ("ok", loop.time() - t0)
            except BaseException as e:
                return ("exc", type(e).__name__, loop.time() - t0)

        res = list(await asyncio.gather(w(bytes.fromhex("22f190aa")), w(bytes.fromhex("22f191bb")), w(bytes.fromhex("22f192cc"))))
        await tr.close()
    return res


def concurrent_writers(ctx: Any, rng: random.Random) -> None:
    """three tasks write on one connection at once; the gateway acks each message `latency` after receiving it, i.e. within the ack timeout
    of that message: every write must complete (time spent queued behind another writer does not count against the ack timeout)"""
    sc = base_scenario(rng)
    latency = round(sc["ack_timeout"] / 1000 * rng.choice([0.45, 0.7, 0.95]), 4)
    ctx.case(("concurrent-writers", repr(sc), latency))
    ctx.reach("concurrent-writers")
    try:
        res = vtime.run(_concurrent_writers(sc, latency))
    except vtime.Deadlock:
        ctx.violation("write/concurrent-writers/blocks-forever", "concurrent writes on one connection never complete", {"scenario": sc, "latency": latency})
        return
    if any(r[0] != "ok" for r in res):
        ctx.violation("write/concurrent-writers/acked-but-fails", "a write that was acked within the ack timeout of its own transmission failed because it had queued behind another writer",
                      {"scenario": sc, "latency": latency, "results": res})


def replay(ctx: Any, witness: dict[str, Any]) -> None:
    import gallia.command  # noqa: F401

    vtime.quiet_logging()
    sc = witness["scenario"]
    if "latency" in witness:
        concurrent_writers(ctx, random.Random(0))
        return
    for o in sc["ops"]:
        for key in ("react", "arrive"):
            if key in o:
                o[key] = [(d, s) for d, s in o[key]]
    one(ctx, sc)
