"""C18 Settings resolve CLI > env > file > default; a stored config re-creates the run (DESIGN.md section 3).

The real command tree is enumerated at run time; for every command and every non-hidden option the
real `create_parser()` of gallia.cli.gallia is run under a generated gallia.toml (GALLIA_CONFIG), a
patched environment and a generated argv, and the returned config object is compared with the
reference precedence model of vf/models/settings.py.
"""

from __future__ import annotations

import contextlib
import io
import json
import os
import random
import re
from dataclasses import dataclass, field
from pathlib import Path
from typing import Any

from vf.models import settings as S

PROPERTY = "C18"
LEVEL = "exploration"
ENGINE = "grammar-generators"
TECHNIQUE = (
    "runtime oracle: every command of the plugin command tree x every declared option x every realisable combination of "
    "{CLI, GALLIA_<NAME>, gallia.toml key, built-in default} is pushed through gallia's real create_parser()/parse_typed_args() "
    "with values generated together with their denotation; the effective value is compared with a CLI>env>file>default "
    "reference model, invalid values must be rejected naming their source, every parsed config is dumped to JSON and reloaded, "
    "and the keys printed by template() are compared with the file keys that are actually honoured - with the commands of a third-party "
    "plugin installed next to the in-tree ones (module + dist-info entry point in a scratch directory, found by gallia's own load_commands()) "
    "whose options use every spelling of the config section gallia supports (top level of gallia.toml, a table of the plugin's own, a table "
    "nested below another, a per-option section); the template must be a TOML document and a value written into the very line where the "
    "template lists an option must become the effective value; the plugin's options go through the same precedence cases; the file generator also writes "
    "files that define only the leading parts of an option's key as something that does not lead to the key (scalar, array, array of "
    "tables, table without the next part): such a file holds no value for the option, which must then resolve from the next source; "
    "and every command really stores its configuration: its real entry_point() (run() replaced by a no-op) is run with an artifacts "
    "directory and a database in a child process per environment of the process (UTF-8 / locale encoding that is not UTF-8), with string "
    "and path options holding generated texts (ASCII, Latin-1, other BMP, astral, characters JSON escapes); META.json is read back the way "
    "`gallia script rerun --file` reads it in that same environment, the run_meta row is read from the database, and both are fed to the "
    "command's config type and compared with the configuration of the run"
)
LEVEL_TEXT = (
    "Exploration: all commands found at run time in load_commands() (34 in the pinned tree). Quick: four commands with all their "
    "options plus three options (rarest field types first) of every other command, one value draw; thorough: every option of "
    "every command, four value draws. Per option all subsets of the sources that apply to it are exercised (8 per option, all 16 "
    "of the statement across options with and without a built-in default), plus invalid-value, const-flag and short-flag cases, "
    "plus files without a value at the option's key (2+1 drawn forms per option and round; separate shards run every file key of "
    "the tree x every intermediate position of the key x all 17 forms on one (quick) / six (thorough) commands declaring the key). "
    "The quick plan also contains every (kind of command-line argument: flag pair / value list / literal choice / enum / single value) x "
    "(source) pair that exists in the tree, preferably on an option whose field metadata is intact at run time. "
    "Template: every listed or declared file key x up to three (quick) / all (thorough) commands declaring it, with five plugin commands "
    "(16 options: 7 top level, 5 own table, 4 nested table, 4 of them with a per-option section; table names, the in-tree table nested "
    "in and the gallia base config - script / scanner / UDS scanner - drawn per seed), each key once through a generated file and once "
    "through the filled-in template. "
    "Stored runs: every command x two environments of the process x two (quick) / twelve (thorough) configurations whose string options "
    "take texts of every character class from the command line, GALLIA_<NAME> and gallia.toml (in the non-UTF-8 environment texts outside "
    "the locale encoding come from the command line and from gallia.toml, which is UTF-8 by the TOML specification; variables stay ASCII). "
    "Held = held on those parses and runs, for the dependency versions installed in this image."
)
LEVEL_NOTE = (
    "Trusted: vf/models/settings.py (declaration reader that evaluates the Field(...) statements of the config class bodies, value "
    "spellings, precedence rule). Options declared without gallia's Field() (plain pydantic attributes of the virtual-ECU mix-ins) "
    "are command-line only by construction of gallia and are exercised for CLI/default only; dict-typed options are not spelled."
)
RULE = (
    "case = (command, option, set of sources providing a value, value draw, variant) where variant is valid / invalid-from-<source> / "
    "const-flag / short-flag / shadow-<form> (gallia.toml defines parts[:pos] of the option's key, 1 <= pos < number of parts, as "
    "false/true/0/int/float/empty string/string/date/a valid value of the option itself/empty, int, string array/array holding that "
    "value/array of tables holding the rest of the key/empty inline table/inline or ordinary table with another key; tomllib confirms "
    "that the file has no value at any key of the command; expected = CLI > env > default, usage error if required); values per field type: ints spelled dec/hex/oct/bin (AutoInt), hex strings in both cases (HexBytes), "
    "range expressions (Ranges, Ranges2D), enum members by name / decimal value / hex value, URIs of the scheme the command accepts, "
    "paths, floats, strings, booleans as --x/--no-x and true/false/1/0, lists on CLI and as TOML arrays; values differ per source so "
    "the winner is identifiable; template case = (file key, command, option) and (file key, command, option, filled-in template: the line "
    "listing the option - found by the option's name when the template lists that name once, whatever table it stands in - replaced by name = value, "
    "all other value lines commented out, table headers untouched; expected = that value is effective whenever the generated file with the value "
    "at the real key is); non-trivial = the expected winner's value differs from every other value in play; distinct = "
    "distinct (command, option, sources, draw, variant); stored-run case = (command, environment of the process, draw): the configuration "
    "is accepted in the checking process, the same command line / variables / file are parsed in the child, entry_point() runs there with "
    "--artifacts-base, --db, --no-hooks (hook scripts are stored, not executed) and a no-op run(); expected: exactly one META.json and one "
    "run_meta row, each readable in the environment that wrote it, naming the command's class, and CONFIG_TYPE(**stored) dumps equal to the "
    "configuration of the run; the effective value of every text option in the child equals the given text (a gallia.toml value holding "
    "characters outside the locale encoding included)"
)
ASSUMPTIONS = [
    "decided for the installed dependency versions (pydantic 2.13.x); uv.lock pins 2.11.1 and the verdict may differ there",
    "an option is file-configurable iff its Field() declaration or its declaring class names a config section (docs/config.md: "
    "'Only some cli options are exposed to the config file'); the expected key is <section>.<name>",
    "environment values are exercised for scalar options and the range types only; plain list[...] options from CLI and file only",
    "options declared without gallia's Field() carry no config metadata by construction and are exercised for CLI and default only "
    "(whether GALLIA_<NAME> is consulted for them is recorded as a counter, not judged)",
    "positional arguments are not options: gallia takes them from the command line only (PydanticField.arg_default), so only the "
    "CLI/default combinations are exercised for them",
    "a case whose expected effective configuration is refused by a cross-field validator of the command itself (exactly one of "
    "--data/--data-file, power-cycle needs power-supply, ...) is not a valid configuration and is skipped (counted)",
    "string options restricted by a validator (--oem: names of installed ECU plugins) take the built-in default from every source "
    "(trivial for precedence); the rejected text doubles as the invalid value",
    "dict-typed options (init_kwargs, properties of the db virtual ECU) and list[tuple] options are not spelled by the generators",
    "a command whose required options cannot be satisfied by any generated argv is reported as uncovered, not as a violation; but if the "
    "command line parses without the option under test (or only misses it), a refusal of the option's valid value is a violation even when "
    "the message does not name the option, and a parser that raises anything but SystemExit is always a violation",
    "no Literal-, enum- or list-typed option of the tree has a file key, and all Literal/enum options are Annotated-declared: their "
    "environment path is exercised but ends in the recorded finding precedence/env-ignored/field-metadata-lost under the installed pydantic, "
    "so defects confined to the literal/enum argument builders' handling of file/environment defaults cannot be observed in this image",
    "'the matching key of gallia.toml' is read as TOML reads a dotted key: section.name has a value iff every part of the section names "
    "a table and the last table holds name; a scalar, array or array of tables at an intermediate position means the file provides "
    "nothing for the option (it is neither a value nor an invalid value of that option)",
    "commands of third-party plugins belong to 'all commands of the command tree' (the tree is built from the gallia_plugins entry points); a "
    "plugin's config class may name any config section, the empty one (top level keys of gallia.toml) included - GalliaBaseModel handles it in "
    "the registry and in attributes_from_config; the plugin installed by the template shard uses plain option types only",
    "stored runs replace the command's run() by a no-op (storing the configuration is done by BaseCommand.entry_point around run()); the "
    "stored META.json is read by gallia's own Rerunner.file() in the environment that wrote it, the database row with sqlite3",
    "the non-UTF-8 environment is LC_ALL=C with PYTHONUTF8=0 and PYTHONCOERCECLOCALE=0 (locale encoding ASCII), the portable stand-in for "
    "latin-1/cp1252 hosts; there, paths and environment variables are kept ASCII (bytes of the locale by construction of the OS interface) and "
    "a gallia.toml value outside the locale encoding is a file value like any other (TOML documents are UTF-8 by definition): it must become the "
    "effective value when command line and environment do not decide; a refusal is attributed to it if the same file with ASCII values at the "
    "same keys is accepted in that environment",
]
EXHAUSTIVE = {"quick": False, "thorough": False}
EXHAUSTIVE_NOTE = "exhaustive sub-space: commands x options x source subsets (thorough tier); values are sampled"

KINDS_REQUIRED = ["AutoInt", "HexBytes", "Ranges", "Ranges2D", "EnumArg", "AutoLiteral", "TargetURI", "path", "bool", "int", "float", "str"]
FULL_QUICK = 4
OPTS_QUICK = 3
SHADOW_SHARDS_QUICK = 4
SHADOW_SHARDS_THOROUGH = 8


PARSER_KINDS = ("bool", "container", "literal", "enum", "standard")
# (parser kind, source) pairs that exist in the pinned tree.  No Literal/Enum/list-like option has a file key, and plain list[...] options
# have no environment syntax (DESIGN 3a), so those pairs cannot be demanded.
PARSER_PAIRS_EXERCISED = [(k, "cli") for k in PARSER_KINDS] + [(k, "env") for k in PARSER_KINDS] + [("bool", "file"), ("standard", "file")]
# pairs where the source's value must have been seen to become the effective value in this run.  ("literal", "env") and ("enum", "env") are
# exercised, but every Literal/Enum option of the tree is declared `x: Annotated[...] = Field(...)`: under the installed pydantic these lose
# gallia's field metadata (recorded finding precedence/env-ignored/field-metadata-lost), so their environment value never reaches the parser.
PARSER_PAIRS_EFFECTIVE = [(k, "cli") for k in PARSER_KINDS] + [("bool", "env"), ("standard", "env"), ("container", "env"), ("bool", "file"), ("standard", "file")]


def parser_kind(spec: S.Spec) -> str:
    """Which kind of command-line argument the option's declared type calls for (flag pair / value list / choice / single value)."""
    if spec.kind == "bool":
        return "bool"
    if spec.kind in ("list", "dict", "Ranges", "Ranges2D"):
        return "container"
    if spec.kind in ("Literal", "AutoLiteral"):
        return "literal"
    if spec.kind in ("Enum", "EnumArg"):
        return "enum"
    return "standard"


def option_sources(d: S.Decl) -> list[str]:
    """The sources from which the option can take a value (positional arguments: command line only, by gallia's design)."""
    out = ["cli"] if d.spec.cli_ok else []
    if d.how == "config-field" and d.spec.env_ok and not d.positional:
        out.append("env")
    if d.file_key is not None and d.spec.cli_ok and not d.positional:
        out.append("file")
    return out


# ------------------------------------------------------------------------------------------------
def _commands() -> list[tuple[tuple[str, ...], type]]:
    import gallia.command  # noqa: F401  (must precede gallia.plugins.plugin)
    from gallia.plugins.plugin import CommandTree, load_commands

    def walk(tree: Any, path: tuple[str, ...] = ()) -> Any:
        for k, v in tree.items():
            if isinstance(v, CommandTree):
                yield from walk(v.subtree, path + (k,))
            else:
                yield path + (k,), v

    return list(walk(load_commands()))


def _options(cmd: type) -> list[S.Decl]:
    return [d for d in S.declared(cmd.CONFIG_TYPE).values() if not d.hidden and d.name in cmd.CONFIG_TYPE.model_fields]


def shards(tier: str, seed: int) -> list[dict[str, Any]]:
    cmds = _commands()
    rng = random.Random(f"C18/plan/{seed}")
    out: list[dict[str, Any]] = []
    nsh, per_key = (SHADOW_SHARDS_THOROUGH, 6) if tier == "thorough" else (SHADOW_SHARDS_QUICK, 1)
    out += [{"mode": "shadow", "part": k, "parts": nsh, "per_key": per_key} for k in range(nsh)]
    if tier == "thorough":
        for i, (path, _) in enumerate(cmds):
            out.append({"mode": "command", "index": i, "path": list(path), "options": None, "rounds": 4, "full_every": 12})
    else:
        rarity: dict[str, int] = {}
        for _, c in cmds:
            for d in _options(c):
                rarity[d.spec.label] = rarity.get(d.spec.label, 0) + 1
        full = set(rng.sample(range(len(cmds)), min(FULL_QUICK, len(cmds))))
        seen_kinds: set[str] = set()
        plan: list[list[str] | None] = []
        for i, (_, c) in enumerate(cmds):
            opts = _options(c)
            if i in full:
                plan.append(None)
                seen_kinds.update(d.spec.kind for d in opts)
                continue
            ranked = sorted(opts, key=lambda d: (rarity[d.spec.label] + (0 if d.spec.cli_ok else 10_000), rng.random()))
            pick = ranked[: OPTS_QUICK - 1] + [rng.choice(ranked[OPTS_QUICK - 1 :])] if len(ranked) >= OPTS_QUICK else ranked
            plan.append([d.name for d in pick])
            seen_kinds.update(d.spec.kind for d in pick)
        # make sure every field type of the statement that exists in the tree is reached
        for kind in KINDS_REQUIRED:
            if kind in seen_kinds:
                continue
            for i, (_, c) in enumerate(cmds):
                hit = [d.name for d in _options(c) if d.spec.kind == kind]
                if hit and plan[i] is not None:
                    plan[i].append(hit[0])  # type: ignore[union-attr]
                    seen_kinds.add(kind)
                    break
        # ... and the option features: short flag on an Annotated type, positional, const flag
        features = {
            "short+annotated": lambda d: bool(d.short) and d.spec.top_annotated,
            "positional": lambda d: d.positional,
            "const": lambda d: d.const is not S.UNSET,
        }
        for pred in features.values():
            if any(plan[i] is None and any(pred(d) for d in _options(c)) for i, (_, c) in enumerate(cmds)):
                continue
            if any(plan[i] is not None and any(pred(d) and d.name in plan[i] for d in _options(c)) for i, (_, c) in enumerate(cmds)):  # type: ignore[operator]
                continue
            for i, (_, c) in enumerate(cmds):
                hit = [d.name for d in _options(c) if pred(d)]
                if hit and plan[i] is not None:
                    plan[i].append(hit[0])  # type: ignore[union-attr]
                    break
        # ... and every (kind of command-line argument, source) pair that exists in the tree, on an option whose field metadata is
        # intact at run time if there is one (only there can the environment / the file get through)
        from gallia.command.config import ConfigArgFieldInfo

        for pk, src in PARSER_PAIRS_EXERCISED:
            def fits(d: S.Decl, c: type, strict: bool) -> bool:
                return parser_kind(d.spec) == pk and src in option_sources(d) and (not strict or isinstance(c.CONFIG_TYPE.model_fields[d.name], ConfigArgFieldInfo))  # noqa: B023

            for strict in (True, False):
                if any(fits(d, c, strict) and (plan[i] is None or d.name in plan[i]) for i, (_, c) in enumerate(cmds) for d in _options(c)):  # type: ignore[operator]
                    break
                hit = [(i, d.name) for i, (_, c) in enumerate(cmds) if plan[i] is not None for d in _options(c) if fits(d, c, strict)]
                if hit:
                    i, name = rng.choice(hit)
                    plan[i].append(name)  # type: ignore[union-attr]
                    break
        for i, (path, _) in enumerate(cmds):
            out.append({"mode": "command", "index": i, "path": list(path), "options": plan[i], "rounds": 1, "full_every": 25})
    out.append({"mode": "template"})
    # the run really stores its configuration: one child process per environment (and part of the command tree)
    sparts, scases = (4, STORED_CASES_THOROUGH) if tier == "thorough" else (1, STORED_CASES_QUICK)
    for env_name in STORED_ENVS:
        out += [{"mode": "stored", "env": env_name, "part": k, "parts": sparts, "cases": scases} for k in range(sparts)]
    return out


def required_reach(tier: str) -> dict[str, int]:
    n = len(_commands())
    need = {"commands.done": n, "commands.enumerated": n, "reload.roundtrips": 100, "reload.fresh-process": 50, "template.keys_checked": 10, "parse.full_tree": 10}
    for bits in range(16):
        need[f"combo.{bits:04b}"] = 1
    for k in KINDS_REQUIRED:
        need[f"kind.{k}"] = 1
    # the template with the commands of an installed third-party plugin: every spelling of the config section a plugin may choose
    # (top level of gallia.toml, a table of its own, a table nested below another, a per-option section) was seen to be honoured at
    # its real key, listed, and effective when filled in at the place where the template lists it
    need["template.plugin.commands"] = 5
    need["template.valid-toml"] = 1
    for c, k in zip(PLUGIN_SECTION_CLASSES, (5, 4, 4, 4)):
        need[f"template.plugin.honoured.{c}"] = k
        need[f"template.plugin.precedence.{c}"] = k
    need["template.plugin.keys_listed_and_honoured"] = 14
    need["template.filled-in.effective"] = 25
    need["template.filled-in.effective.top-level"] = 5
    need["plugin.combo.0011"] = 10  # a plugin option whose value comes from the file (no CLI, no env)
    need["variant.const-flag"] = 1
    need["variant.bool-negated"] = 1
    need["variant.invalid"] = 10
    # files with a non-table (or a table without the next part) at an intermediate position of an option's key: every form, at the
    # first / an inner / the last intermediate position, on options that were seen to take a genuine value from their key in this run
    for f in SHADOW_FORMS:
        need[f"shadow.form.{f}"] = 3
    for dep in ("first", "inner", "last"):
        need[f"shadow.depth.{dep}"] = 10
    need["shadow.cases.option-honours-file"] = 200
    need["shadow.cases.option-honours-file.default-decides"] = 150
    need["shadow.decides.cli"] = 5
    need["shadow.decides.env"] = 5
    need["#shadow.honoured-key."] = 10
    # every kind of command-line argument gallia builds (flag pair, value list, choice of literals, enum, single value) x the source that decides
    for pk, src in PARSER_PAIRS_EXERCISED:
        need[f"parserkind.{pk}.{src}.exercised"] = 1
    for pk, src in PARSER_PAIRS_EFFECTIVE:
        need[f"parserkind.{pk}.{src}.effective"] = 1
    # runs that really stored their configuration (entry_point() with artifacts directory and database), per environment of the process,
    # with string options holding every class of characters - in particular characters outside the locale encoding of the process
    for env_name in STORED_ENVS:
        need[f"stored.cases.{env_name}"] = n + n // 2
        need[f"stored.meta-json.judged.{env_name}"] = n + n // 2
        need[f"stored.database.judged.{env_name}"] = n + n // 2
        for c in TEXT_POOLS:
            need[f"stored.text.{c}.{env_name}"] = 5
    need["stored.text.outside-locale-encoding.non-utf8-locale"] = n
    need["stored.meta-json.judged.text-outside-locale-encoding"] = n
    need["stored.database.judged.text-outside-locale-encoding"] = n
    need["stored.path.non-ascii.utf8-locale"] = 10
    for src in ("cli", "env", "file"):
        need[f"stored.text-source.{src}.utf8-locale"] = 5
    need["stored.text-source.cli.non-utf8-locale"] = n
    need["stored.text-source.file.non-utf8-locale"] = n // 2
    need["stored.file-text.outside-locale-encoding.non-utf8-locale"] = n // 2
    return need


# ------------------------------------------------------------------------------------------------
@dataclass
class Outcome:
    kind: str  # ok | exit | raise
    cfg: Any = None
    code: Any = None
    text: str = ""
    exc: BaseException | None = None

    def brief(self) -> str:
        if self.kind == "ok":
            return "parsed"
        if self.kind == "exit":
            return f"exit {self.code}: {self.text.strip().splitlines()[-1][:300] if self.text.strip() else ''}"
        return f"raised {self.exc!r}"[:400]


@dataclass
class Plan:
    """How the other options of a command are satisfied (argv fragments), found by search."""

    scheme: str = "tcp"
    helper: str | None = None
    forms: dict[str, str] = field(default_factory=dict)  # name -> positional | option


class Harness:
    def __init__(self, ctx: Any, path: tuple[str, ...], cmd: type, full_every: int):
        from gallia.plugins.plugin import CommandTree

        self.ctx = ctx
        self.path = path
        self.cmd = cmd
        self.cfgtype = cmd.CONFIG_TYPE
        self.decls = S.declared(self.cfgtype)
        self.fields = self.cfgtype.model_fields
        self.toml_path = ctx.mkscratch() / "gallia.toml"
        node: Any = cmd
        for k in reversed(path):
            node = CommandTree("pruned", {k: node})
        self.pruned = node.subtree
        self.full_tree: Any = None
        self.full_every = full_every
        self.nparse = 0
        self.cmdname = " ".join(path)
        self.reported_forms: set[str] = set()
        self.last_plan: Plan | None = None
        self.base_expected: dict[str, Any] = {}
        self.reload_culprits: dict[str, str] = {}
        # (what the command stores as run_meta.config -> META.json / database, full dump in this process), re-created in a fresh process later
        self.stored_samples: list[tuple[Any, Any, Any]] = []

    # -- one real parse ----------------------------------------------------------------------
    def parse(self, argv: list[str], env: dict[str, str], toml_text: str, allow_full: bool = True) -> Outcome:
        from gallia.cli.gallia import create_parser

        self.nparse += 1
        use_full = allow_full and self.full_every > 0 and self.nparse % self.full_every == 0
        if use_full and self.full_tree is None:
            from gallia.plugins.plugin import load_commands

            self.full_tree = load_commands()
        saved = dict(os.environ)
        err = io.StringIO()
        try:
            for k in list(os.environ):
                if k.startswith("GALLIA_"):
                    del os.environ[k]
            self.toml_path.parent.mkdir(parents=True, exist_ok=True)
            self.toml_path.write_text(toml_text)
            os.environ["GALLIA_CONFIG"] = str(self.toml_path)
            os.environ.update(env)
            with contextlib.redirect_stderr(err), contextlib.redirect_stdout(io.StringIO()):
                parser = create_parser(self.full_tree if use_full else self.pruned)
                _, cfg = parser.parse_typed_args(list(argv))
            self.ctx.reach("parse.full_tree" if use_full else "parse.pruned_tree")
            return Outcome("ok", cfg=cfg)
        except SystemExit as e:
            self.ctx.reach("parse.full_tree" if use_full else "parse.pruned_tree")
            return Outcome("exit", code=e.code, text=err.getvalue())
        except Exception as e:  # the parser itself blew up
            return Outcome("raise", exc=e, text=err.getvalue())
        finally:
            os.environ.clear()
            os.environ.update(saved)

    # -- argv construction -------------------------------------------------------------------
    def fragment(self, d: S.Decl, v: S.Val, form: str, bare: bool = False, short: bool = False) -> tuple[list[str], list[str]]:
        """(positional tokens, option tokens) that give option d the value v on the command line"""
        if d.spec.kind == "bool":
            return [], [("--no-" + d.flag[2:]) if v.cli_negated else d.flag]
        assert v.cli is not None
        if form == "positional":
            return list(v.cli), []
        flag = f"-{d.short}" if short and d.short else d.flag
        return [], [flag] + ([] if bare else list(v.cli))

    def argv(self, frags: list[tuple[str, list[str], list[str]]]) -> list[str]:
        order = {n: i for i, n in enumerate(self.fields)}
        frags = sorted(frags, key=lambda f: order.get(f[0], 0))
        pos = [t for _, p, _ in frags for t in p]
        opt = [t for _, _, o in frags for t in o]
        return list(self.path) + pos + opt

    def required_others(self, exclude: str | None) -> list[S.Decl]:
        return [d for n, d in self.decls.items() if n != exclude and not d.has_default and not d.hidden and n in self.fields]

    def base_frags(self, plan: Plan, exclude: str | None, rng: random.Random) -> list[tuple[str, list[str], list[str]]] | None:
        frags = []
        self.base_expected = {}
        names = [d.name for d in self.required_others(exclude)]
        if plan.helper and plan.helper != exclude and plan.helper not in names:
            names.append(plan.helper)
        for n in names:
            d = self.decls[n]
            if not d.spec.cli_ok:
                return None
            v = S.gen_value(d.spec, rng, "base", 7, plan.scheme)
            if v is None or v.cli is None:
                return None
            if d.spec.kind == "bool":
                v = S.gen_value(d.spec, rng, "base", 1, plan.scheme)
            p, o = self.fragment(d, v, plan.forms.get(n, "positional" if d.positional else "option"))  # type: ignore[arg-type]
            frags.append((n, p, o))
            self.base_expected[n] = v.expected  # type: ignore[union-attr]
        return frags

    def candidate_plans(self, exclude: str | None) -> Any:
        has_uri = any(d.spec.kind == "TargetURI" for d in self.decls.values())
        schemes = S.URI_SCHEMES if has_uri else ("tcp",)
        pos_decl = [d.name for d in self.decls.values() if d.positional]
        lost = [n for n in pos_decl if not getattr(self.fields[n], "positional", False)]
        form_sets: list[dict[str, str]] = [{}]
        if lost:
            form_sets.append({n: "option" for n in lost})
        mro = list(self.cfgtype.__mro__)
        cands = [d for d in self.decls.values() if d.has_default and not d.hidden and d.spec.cli_ok and d.name != exclude]
        cands.sort(key=lambda d: mro.index(d.owner) if d.owner in mro else 99)  # the command's own options first
        helpers: list[str | None] = [None] + [d.name for d in cands]
        if self.last_plan is not None:
            yield Plan(self.last_plan.scheme, None, dict(self.last_plan.forms))
            if self.last_plan.helper is not None and self.last_plan.helper != exclude:
                yield Plan(self.last_plan.scheme, self.last_plan.helper, dict(self.last_plan.forms))
        for forms in form_sets:
            for helper in helpers[:1]:
                for sch in schemes:
                    yield Plan(sch, helper, dict(forms))
        for forms in form_sets:
            for helper in helpers[1:]:
                for sch in schemes[:2]:
                    yield Plan(sch, helper, dict(forms))


# ------------------------------------------------------------------------------------------------
def mechanism(d: S.Decl, rt: Any) -> str:
    """Metadata class of an option: what, if anything, separates it from an ordinary option."""
    from gallia.command.config import ConfigArgFieldInfo
    from gallia.pydantic_argparse.utils.field import ArgFieldInfo

    if (d.how == "config-field" and not isinstance(rt, ConfigArgFieldInfo)) or (d.how == "arg-field" and not isinstance(rt, ArgFieldInfo)):
        return "field-metadata-lost"
    if d.positional:
        return "positional"
    return "type:" + d.spec.label.replace("|None", "")


def names_source(text: str, src: str, d: S.Decl) -> bool:
    if src == "cli":
        return d.flag in text or (d.short is not None and f"-{d.short}" in text) or (d.positional and re.search(rf"\b{re.escape(d.name)}\b", text, re.I) is not None)
    if src == "env":
        return d.env_name in text
    if src == "file":
        sect = d.section or ""
        return d.name in text and (sect in text) and ("config" in text.lower() or "file" in text.lower() or f"{sect}.{d.name}" in text)
    return False


# ------------------------------------------------------------------------------------------------
# gallia.toml files that have NO value at an option's key although the first parts of the key exist: something that is not a
# table (a scalar, an array, an array of tables) or a table without the next part sits at an intermediate position of the
# dotted key.  By the statement such a file provides nothing for the option ("the one from the MATCHING key of gallia.toml,
# otherwise the built-in default"): a file value that is not there must not be invented.
SHADOW_FORMS: dict[str, str] = {  # form -> what sits at the intermediate position (part of the violation key)
    "false": "scalar", "true": "scalar", "zero": "scalar", "int": "scalar", "float": "scalar", "empty-string": "scalar",
    "string": "scalar", "date": "scalar", "own-value": "scalar",
    "empty-array": "array", "int-array": "array", "string-array": "array", "own-value-array": "array",
    "array-of-tables-holding-rest": "array-of-tables",
    "empty-inline-table": "table-without-next-part", "inline-table-other-key": "table-without-next-part", "table-other-key": "table-without-next-part",
}
SHADOW_NEEDS_LIT = ("own-value", "own-value-array", "array-of-tables-holding-rest")


def toml_lookup(doc: Any, key: str) -> Any:
    """The value a TOML document has at a dotted key (S.UNSET if none): every part but the last must name a table."""
    cur: Any = doc
    for part in key.split("."):
        if not isinstance(cur, dict) or part not in cur:
            return S.UNSET
        cur = cur[part]
    return cur


def shadow_positions(key: str) -> list[int]:
    """Intermediate positions of a dotted key: pos = number of leading parts that the file defines (1 .. parts-1)."""
    return list(range(1, len(key.split("."))))


def shadow_depth(key: str, pos: int) -> list[str]:
    n = len(key.split("."))
    return [x for x, yes in (("first", pos == 1), ("inner", 1 < pos < n - 1), ("last", pos == n - 1)) if yes]


def shadow_toml(key: str, pos: int, form: str, lit: str | None, rng: random.Random) -> tuple[str, str] | None:
    """(TOML text, class of the thing at the intermediate position) for a file in which parts[:pos] of `key` is defined
    as `form` - so that the file holds no value at `key`.  `lit` is a valid file literal of the option itself (the most
    tempting content).  None = the form needs such a literal and there is none."""
    parts = key.split(".")
    parent, name, rest = parts[: pos - 1], parts[pos - 1], parts[pos:]
    if lit is None and form in SHADOW_NEEDS_LIT:
        return None
    word = "".join(rng.choice("abcdefghijklmnopqrstuvwxyz") for _ in range(rng.randint(1, 8)))
    n = rng.randint(1, 0xFFFF)
    klass = SHADOW_FORMS[form]
    head = [f"[{'.'.join(parent)}]"] if parent else []
    sibling = [f"verif_sibling = {n}"] if rng.random() < 0.3 else []
    noise = ["", "[verif_noise]", 'unused = "x"'] if rng.random() < 0.3 else []
    other = lit if lit is not None else str(n)
    if form == "array-of-tables-holding-rest":
        lines = [f"[[{'.'.join(parts[:pos])}]]", f"{'.'.join(rest)} = {lit}"]
        if rng.random() < 0.5:
            lines += ["", f"[[{'.'.join(parts[:pos])}]]", f"{'.'.join(rest)} = {lit}"]
        return "\n".join(lines + noise) + "\n", klass
    if form == "table-other-key":
        return "\n".join([f"[{'.'.join(parts[:pos])}]", f"verif_other = {other}"] + sibling + noise) + "\n", klass
    value = {
        "false": "false", "true": "true", "zero": "0", "int": str(n), "float": f"{n}.5", "empty-string": '""', "string": S.toml_str(word),
        "date": "1979-05-27", "own-value": lit, "empty-array": "[]", "int-array": f"[{n}, {n + 1}]", "string-array": f"[{S.toml_str(word)}]",
        "own-value-array": f"[{lit}]", "empty-inline-table": "{}", "inline-table-other-key": f"{{ verif_other = {other} }}",
    }[form]
    if form == "own-value" and str(lit).startswith("["):
        klass = "array"
    return "\n".join(head + [f"{name} = {value}"] + sibling + noise) + "\n", klass


class OptionRun:
    def __init__(self, h: Harness, d: S.Decl, vseed: str, rounds: int):
        self.h = h
        self.ctx = h.ctx
        self.d = d
        self.rt = h.fields[d.name]
        self.mech = mechanism(d, self.rt)
        self.tkey = "type:" + d.spec.label.replace("|None", "")
        self.vseed = vseed
        self.rounds = rounds
        self.rng = random.Random(vseed)
        # positional arguments are not options: gallia deliberately takes them from the command line only
        self.sources = option_sources(d)
        self.pkind = parser_kind(d.spec)
        self.default = d.default if d.default_is_literal else self.rt.get_default(call_default_factory=True)
        self.restricted = False
        self.bad_text: str | None = None
        self.file_honoured = False  # a genuine value at this option's file key was seen to become the effective value

    def witness(self, present: set[str], argv: list[str], env: dict[str, str], toml_text: str, expected: Any, out: Outcome, variant: str) -> dict[str, Any]:
        got: Any = out.brief()
        if out.kind == "ok":
            got = repr(getattr(out.cfg, self.d.name, "<missing>"))[:300]
        return {
            "command": self.h.cmdname, "option": self.d.name, "type": self.d.spec.text, "declared": self.d.how,
            "runtime_field_info": type(self.rt).__name__, "variant": variant, "sources": sorted(present), "argv": argv, "env": env,
            "toml": toml_text, "expected": repr(expected)[:300], "got": got, "vseed": self.vseed,
        }

    def values(self, present: set[str], rnd: int, plan: Plan, fixed: dict[str, S.Val]) -> dict[str, S.Val]:
        d = self.d
        if d.spec.kind != "bool":
            return {s: fixed[s] for s in present}
        w = S.winner(present, d.has_default)
        base = bool(self.default) if d.has_default else False
        target = (not base) if rnd % 2 == 0 else base
        out = {}
        for s in present:
            v = S.gen_value(d.spec, self.rng, s, 1 if (target if s == w else not target) else 0)
            assert v is not None
            out[s] = v
        return out

    def build(self, plan: Plan, base: list[tuple[str, list[str], list[str]]], present: set[str], vals: dict[str, S.Val], bare: bool = False, short: bool = False) -> tuple[list[str], dict[str, str], str]:
        d = self.d
        frags = list(base)
        if "cli" in present:
            p, o = self.h.fragment(d, vals["cli"], plan.forms.get(d.name, "positional" if d.positional else "option"), bare=bare, short=short)
            frags.append((d.name, p, o))
        env = {d.env_name: str(vals["env"].env)} if "env" in present else {}
        entries = {str(d.file_key): str(vals["file"].toml)} if "file" in present else {}
        noise = {"gallia.verif_noise.unused": S.toml_str("x")} if self.rng.random() < 0.3 else None
        return self.h.argv(frags), env, S.render_toml(entries, noise)

    # -- plan search -------------------------------------------------------------------------
    def find_plan(self) -> tuple[Plan, list[tuple[str, list[str], list[str]]], dict[str, S.Val]] | None:
        """A way to satisfy the rest of the command such that this option's generated CLI values are accepted."""
        d, h = self.d, self.h
        last: tuple[Outcome, list[str]] | None = None
        tried = 0
        for plan in h.candidate_plans(d.name):
            prng = random.Random(self.vseed + "/plan")
            base = h.base_frags(plan, d.name, prng)
            if base is None:
                continue
            fixed: dict[str, S.Val] = {}
            avoid = [self.default] if d.has_default else []
            ok = True
            for i, s in enumerate(("cli", "env", "file")):
                v = S.gen_value(d.spec, random.Random(f"{self.vseed}/{s}"), s, i, plan.scheme, avoid=avoid)
                if v is None:
                    ok = False
                    break
                if self.restricted:
                    self.bad_text = v.cli[0] if v.cli else None
                    v = S.Val(self.default, [self.default], self.default, S.toml_str(self.default), "restricted domain: built-in default")
                fixed[s] = v
                avoid = avoid + [v.expected]
            if not ok:
                self.ctx.reach(f"uncovered.type.{d.spec.label}")
                return None
            if "cli" not in self.sources:
                return plan, base, fixed
            tried += 1
            probes = [fixed["cli"]]
            if d.spec.kind == "bool":
                probes = [S.gen_value(d.spec, prng, "cli", 1), S.gen_value(d.spec, prng, "cli", 0)]  # type: ignore[list-item]
            good = True
            for pv in probes:
                p, o = h.fragment(d, pv, plan.forms.get(d.name, "positional" if d.positional else "option"))
                argv = h.argv(base + [(d.name, p, o)])
                out = h.parse(argv, {}, "", allow_full=False)
                if out.kind != "ok":  # a parsed-but-different value is judged by the precedence cases, not here
                    good = False
                    last = (out, argv)
                    break
            if good:
                h.last_plan = plan
                if plan.forms:
                    self.report_forms(plan, argv)
                return plan, base, fixed
            if tried > 150:
                break
        if last is not None and d.spec.kind == "str" and d.has_default and isinstance(self.default, str) and not self.restricted:
            out, argv = last
            if out.kind == "exit" and names_source(out.text.split("error:")[-1], "cli", d) and "required" not in out.text.split("error:")[-1]:
                # a validator restricts the strings this option takes (e.g. --oem: installed ECU names); the generator
                # cannot know that domain: fall back to the built-in default as the only valid text (trivial cases) and
                # keep the rejected text as the invalid value
                self.restricted = True
                self.ctx.reach("options.restricted-domain")
                return self.find_plan()
        if last is None:
            self.ctx.reach("uncovered.no-baseline")
            self.ctx.sample({"uncovered": self.h.cmdname, "option": d.name, "why": "a required option of the command cannot be spelled on the command line"}, force=True)
        if last is not None:
            out, argv = last
            if out.kind == "raise":
                # no command line whatsoever may make the parser raise something else than SystemExit
                self.ctx.violation(
                    f"parser-raises/{type(out.exc).__name__}/{self.mech}", f"a valid command-line value makes the parser raise {type(out.exc).__name__}",
                    self.witness({"cli"}, argv, {}, "", "<accepted>", out, "plan-search"),
                )
            elif out.kind == "exit" and names_source(out.text.split("error:")[-1], "cli", d) and "required" not in out.text.split("error:")[-1]:
                self.ctx.violation(
                    f"cli/valid-value-rejected/{self.tkey}", f"a valid command-line value is rejected ({d.spec.label})",
                    self.witness({"cli"}, argv, {}, "", "<accepted>", out, "plan-search"),
                )
            elif (about := self.refusal_about_this_option()) is not None:
                # the same command line without this option is fine (or only misses this option): the option's value is what is refused,
                # even though the message does not name it (e.g. argparse's 'unrecognized arguments' for the 2nd item of a list)
                out, argv = about
                self.ctx.violation(
                    f"cli/valid-value-rejected/{self.tkey}", f"a valid command-line value is rejected ({d.spec.label})",
                    self.witness({"cli"}, argv, {}, "", "<accepted>", out, "plan-search"),
                )
            else:
                self.ctx.reach("uncovered.no-baseline")
                self.ctx.sample({"uncovered": self.h.cmdname, "option": d.name, "why": out.brief()}, force=True)
        return None

    def refusal_about_this_option(self) -> tuple[Outcome, list[str]] | None:
        """Is there a way to satisfy the other options such that the command line parses without this option (or fails only because
        this option is missing), while the same command line plus a valid value of this option is refused - and not because the
        resulting configuration breaks a cross-field rule of the command?  Then the refusal is about this option's value."""
        d, h = self.d, self.h
        others = [x for x in h.required_others(d.name)]
        for n, plan in enumerate(h.candidate_plans(d.name)):
            if n >= 30:
                break
            base = h.base_frags(plan, d.name, random.Random(self.vseed + "/plan"))
            if base is None:
                continue
            out = h.parse(h.argv(base), {}, "", allow_full=False)
            msg = out.text.split("error:")[-1]
            only_misses_it = (
                out.kind == "exit" and not d.has_default and "required" in msg and names_source(msg, "cli", d)
                and not any(x.flag in msg.replace(d.flag, "") for x in others)
            )
            if out.kind != "ok" and not only_misses_it:
                continue
            if d.spec.kind == "bool":
                probes = [S.gen_value(d.spec, random.Random(self.vseed), "cli", 1), S.gen_value(d.spec, random.Random(self.vseed), "cli", 0)]
            elif self.restricted:
                probes = [S.Val(self.default, [self.default], self.default, S.toml_str(self.default), "restricted domain: built-in default")]
            else:
                probes = [S.gen_value(d.spec, random.Random(f"{self.vseed}/cli"), "cli", 0, plan.scheme, avoid=[self.default] if d.has_default else [])]
            for pv in probes:
                if pv is None or pv.cli is None:
                    continue
                p, o = h.fragment(d, pv, plan.forms.get(d.name, "positional" if d.positional else "option"))
                argv = h.argv(base + [(d.name, p, o)])
                out = h.parse(argv, {}, "", allow_full=False)
                if out.kind == "ok":
                    continue
                if out.kind == "exit" and self.violates_cross_field_rule({"cli"}, {"cli": pv}):
                    self.ctx.reach("skipped.cross-field-constraint")
                    continue
                return out, argv
        return None

    def report_forms(self, plan: Plan, argv: list[str]) -> None:
        for n, f in plan.forms.items():
            d = self.h.decls[n]
            if d.positional and f == "option" and n not in self.h.reported_forms:
                self.h.reported_forms.add(n)
                self.ctx.violation(
                    f"positional-became-option/{mechanism(d, self.h.fields[n])}",
                    f"an option declared positional=True is only accepted as --{n.replace('_', '-')} VALUE",
                    {"command": self.h.cmdname, "option": n, "type": d.spec.text, "declared": d.how, "variant": "positional",
                     "runtime_field_info": type(self.h.fields[n]).__name__, "argv": argv, "env": {}, "toml": "", "sources": ["cli"], "vseed": self.vseed},
                )

    # -- judging -----------------------------------------------------------------------------
    def violates_cross_field_rule(self, present: set[str], vals: dict[str, S.Val]) -> bool:
        """Is the *expected* effective configuration refused by a model-level (cross-field) validator of the
        command?  Then the case is not a valid configuration and lies outside the statement."""
        import pydantic

        w = S.winner(present, self.d.has_default)
        kw = dict(self.h.base_expected)
        if w in ("cli", "env", "file"):
            kw[self.d.name] = vals[w].expected
        try:
            self.h.cfgtype(**kw)
        except pydantic.ValidationError as e:
            return any(len(x["loc"]) == 0 for x in e.errors())
        except Exception:
            return False
        return False

    def judge_valid(self, present: set[str], vals: dict[str, S.Val], out: Outcome, wit: Any, variant: str, expected_override: Any = S.UNSET) -> None:
        d, ctx = self.d, self.ctx
        w = S.winner(present, d.has_default)
        if out.kind == "exit" and w is not None and self.violates_cross_field_rule(present, vals):
            ctx.reach("skipped.cross-field-constraint")
            return
        if out.kind == "raise":
            ctx.violation(f"parser-raises/{type(out.exc).__name__}/{self.mech}", f"building or running the parser raises {type(out.exc).__name__}", wit())
            return
        if w is None:
            if out.kind == "ok":
                ctx.violation(f"required-not-enforced/{self.mech}", "a required option without any source is accepted", wit())
            else:
                ctx.reach("outcome.usage-error")
            return
        expected = self.default if w == "default" else vals[w].expected
        if expected_override is not S.UNSET:
            expected = expected_override
        if w != "default":
            ctx.reach(f"parserkind.{self.pkind}.{w}.exercised")
        if out.kind == "exit":
            msg = out.text.split("error:")[-1]
            if w in ("env", "file") and ("required" in msg or "expected" in msg):
                ctx.violation(f"precedence/{w}-ignored/{self.mech}", f"value from {w} is not used: the option is still demanded on the command line", wit())
            else:
                ctx.violation(f"precedence/{w}-value-rejected/{self.mech}", f"a valid value from {w} is rejected", wit())
            return
        got = getattr(out.cfg, d.name, S.UNSET)
        if S.same(got, expected):
            ctx.reach("outcome.effective-value-ok")
            rivals = [vals[s].expected for s in present if s != w] + ([self.default] if d.has_default else [])
            if w != "default" and not self.restricted and all(not S.same(expected, r) for r in rivals):
                ctx.reach(f"parserkind.{self.pkind}.{w}.effective")  # identifiably this source's value
            if w == "file":
                self.file_honoured = True
            return
        lower = [s for s in ("cli", "env", "file") if s in present and s != w]
        if any(S.same(got, vals[s].expected) for s in lower) or (d.has_default and S.same(got, self.default)):
            ctx.violation(f"precedence/{w}-ignored/{self.mech}", f"the value from {w} should win but another source or the default is effective", wit())
        else:
            ctx.violation(f"precedence/{w}-wrong-value/{self.tkey}", f"the effective value is not the one given by {w}", wit())

    # -- files without a value at the option's key (non-table at an intermediate position) ------
    def shadow_cases(self, plan: Plan, base: Any, fixed: dict[str, S.Val], rnd: int, exhaustive: bool = False) -> None:
        """The file defines the first parts of the option's key as something that does not lead to the key: the file provides
        no value, so the effective value is that of the next source (CLI > env > default; none and required => usage error)."""
        import tomllib

        d, ctx, h = self.d, self.ctx, self.h
        key = d.file_key
        if key is None or "file" not in self.sources:
            return
        other_keys = {x.file_key for x in h.decls.values() if x.file_key is not None and x.name in h.fields}
        positions = [p for p in shadow_positions(key) if ".".join(key.split(".")[:p]) not in other_keys]
        if not positions:
            ctx.reach("shadow.skipped.no-intermediate-position")
            return
        if d.spec.kind == "bool":
            lv = S.gen_value(d.spec, self.rng, "file", 0 if (d.has_default and bool(self.default)) else 1)
        else:
            lv = fixed.get("file")
        lit = None if lv is None or lv.toml is None else str(lv.toml)
        upper = [s for s in self.sources if s != "file"]
        upper_sets = [set(s for j, s in enumerate(upper) if m >> j & 1) for m in range(1, 1 << len(upper))]
        forms = list(SHADOW_FORMS)
        todo: list[tuple[int, str, set[str]]] = []
        if exhaustive:
            for pos in positions:
                todo += [(pos, f, set()) for f in forms]
            todo += [(self.rng.choice(positions), self.rng.choice(forms), ps) for ps in upper_sets]
        else:
            todo += [(self.rng.choice(positions), f, set()) for f in self.rng.sample(forms, 2)]
            if upper_sets:
                todo.append((self.rng.choice(positions), self.rng.choice(forms), self.rng.choice(upper_sets)))
        for pos, form, present in todo:
            if ctx.out_of_time():
                return
            made = shadow_toml(key, pos, form, lit, self.rng)
            if made is None:
                ctx.reach("shadow.skipped.no-file-literal")
                continue
            toml_text, klass = made
            doc = tomllib.loads(toml_text)  # a generator that writes invalid TOML is a harness error, not a verdict
            hit = [k for k in other_keys | {key} if toml_lookup(doc, k) is not S.UNSET]
            if hit:
                raise RuntimeError(f"shadow file generator: the file has a value at {hit[0]!r}: {toml_text!r}")
            vals = self.values(present, rnd, plan, fixed)
            argv, env, _ = self.build(plan, base, present, vals)
            out = h.parse(argv, env, toml_text)
            w = S.winner(present, d.has_default)
            bits = S.combo_bits(present, d.has_default)
            ctx.case((h.cmdname, d.name, bits, rnd, f"shadow/{form}/{pos}"))
            ctx.reach("shadow.cases")
            ctx.reach(f"shadow.form.{form}")
            ctx.reach(f"shadow.class.{klass}")
            for dep in shadow_depth(key, pos):
                ctx.reach(f"shadow.depth.{dep}")
            ctx.reach(f"shadow.decides.{w or 'nothing'}")
            if self.file_honoured:
                ctx.reach("shadow.cases.option-honours-file")
                ctx.reach(f"shadow.honoured-key.{key}")
                if w == "default":
                    ctx.reach("shadow.cases.option-honours-file.default-decides")
            expected = "<usage error>" if w is None else (self.default if w == "default" else vals[w].expected)
            wit = lambda: {**self.witness(present, argv, env, toml_text, expected, out, f"shadow-{form}"), "file_key": key, "position": pos}  # noqa: E731,B023
            ctx.sample({"command": h.cmdname, "option": d.name, "type": d.spec.label, "sources": sorted(present), "shadow": form, "argv": argv, "env": env, "toml": toml_text, "outcome": out.brief()})
            ctx.trace((d.spec.label, bits, out.kind, self.mech, "shadow", klass))
            self.judge_shadow(present, vals, out, wit, klass, expected)

    def judge_shadow(self, present: set[str], vals: dict[str, S.Val], out: Outcome, wit: Any, klass: str, expected: Any) -> None:
        d, ctx = self.d, self.ctx
        w = S.winner(present, d.has_default)
        if w in ("cli", "env"):
            # a higher source decides: whatever goes wrong is about that source (the file is not among `present`)
            self.judge_valid(present, vals, out, wit, "valid")
            return
        if out.kind == "raise":
            ctx.violation(f"parser-raises/{type(out.exc).__name__}/{self.mech}", f"building or running the parser raises {type(out.exc).__name__}", wit())
            return
        if w is None:
            if out.kind == "ok":
                ctx.violation(f"file/non-matching-key-used/{klass}", "a required option without any source is accepted: a value was taken from a file that has none at the option's key", wit())
            else:
                ctx.reach("outcome.usage-error")
            return
        if out.kind == "exit":
            if self.violates_cross_field_rule(present, vals):
                ctx.reach("skipped.cross-field-constraint")
                return
            ctx.violation(
                f"file/non-matching-key-used/{klass}",
                "gallia.toml has no value at the option's key (the leading parts of the key do not lead to it), yet the run is rejected instead of resolving from the next source", wit(),
            )
            return
        got = getattr(out.cfg, d.name, S.UNSET)
        if S.same(got, expected):
            ctx.reach("outcome.shadow-next-source-ok")
            return
        ctx.violation(
            f"file/non-matching-key-used/{klass}",
            f"gallia.toml has no value at the option's key, yet the effective value is not the one of the next source ({w})", wit(),
        )

    def reload(self, out: Outcome, wit: Any) -> None:
        if out.kind != "ok":
            return
        ctx, cfg = self.ctx, out.cfg
        ctx.reach("reload.roundtrips")
        if len(self.h.stored_samples) < 6 or self.ctx.rng.random() < 0.02:
            try:
                # what the production code really stores for this run (BaseCommand.__init__ builds run_meta from the config)
                stored_by_command = json.loads(json.dumps(self.h.cmd(cfg).run_meta.config))
                self.h.stored_samples.append((stored_by_command, json.loads(cfg.model_dump_json()), wit()))
                ctx.reach("reload.run_meta_config_taken")
            except Exception:
                ctx.reach("reload.command_not_instantiable")
        try:
            stored = json.loads(json.dumps(json.loads(cfg.model_dump_json())))  # META.json / run_meta.config
            again = self.h.cfgtype(**stored)
        except Exception as e:
            culprit, cname = "?", None
            try:
                locs = [str(x["loc"][0]) for x in e.errors() if x.get("loc")]  # type: ignore[attr-defined]
                if locs and locs[0] in self.h.decls:
                    cname = locs[0]
            except Exception:
                pass
            ck = f"{type(e).__name__}:{str(e)[:80]}"
            if cname is None and ck in self.h.reload_culprits:
                cname = self.h.reload_culprits[ck]
            if cname is None:
                # which field's stored form is not accepted back?  put the live value in, one field at a time
                for n in self.h.fields:
                    if n in stored:
                        try:
                            self.h.cfgtype(**{**stored, n: getattr(cfg, n)})
                            cname = n
                            break
                        except Exception:
                            continue
            if cname is not None:
                culprit = self.h.decls[cname].spec.label.replace("|None", "")
                self.h.reload_culprits[ck] = cname
            w = wit()
            w["reload_error"] = repr(e)[:500]
            w["reload_field"] = cname
            w["reload_stored_value"] = repr(stored.get(cname))[:200] if cname else None
            ctx.violation(f"reload/raises/{type(e).__name__}/{culprit}", "the dumped configuration cannot be fed back to the config type", w)
            return
        for n in self.h.fields:
            a, b = getattr(cfg, n), getattr(again, n)
            if not S.same(a, b):
                dn = self.h.decls.get(n)
                w = wit()
                w["reload_field"] = n
                w["reload_before_after"] = [repr(a)[:200], repr(b)[:200]]
                ctx.violation(f"reload/not-equal/{dn.spec.label.replace('|None', '') if dn else '?'}", "the reloaded configuration differs from the parsed one", w)
                return

    # -- the cases ---------------------------------------------------------------------------
    def run(self) -> None:
        d, ctx, h = self.d, self.ctx, self.h
        ctx.reach(f"kind.{d.spec.kind}")
        ctx.reach(f"label.{d.spec.label}")
        ctx.reach(f"mechanism.{self.mech}")
        if d.how != "config-field":
            ctx.reach("options.plain-declared")
        if not self.sources:
            ctx.reach(f"uncovered.type.{d.spec.label}")
            return
        found = self.find_plan()
        if found is None:
            return
        plan, base, fixed = found
        applicable = self.sources
        subsets = [set(s for j, s in enumerate(applicable) if m >> j & 1) for m in range(1 << len(applicable))]
        for rnd in range(self.rounds):
            if rnd > 0:
                avoid = [self.default] if d.has_default else []
                for i, s in enumerate(("cli", "env", "file")):
                    v = S.gen_value(d.spec, random.Random(f"{self.vseed}/{s}/{rnd}"), s, i, plan.scheme, avoid=avoid)
                    if v is not None and not self.restricted:
                        fixed[s] = v
                        avoid = avoid + [v.expected]
            for present in subsets:
                if ctx.out_of_time():
                    return
                vals = self.values(present, rnd, plan, fixed)
                argv, env, toml_text = self.build(plan, base, present, vals)
                out = h.parse(argv, env, toml_text)
                w = S.winner(present, d.has_default)
                others = [vals[s].expected for s in present if s != w] + ([self.default] if d.has_default and w != "default" else [])
                nontrivial = w is None or w == "default" or all(not S.same(vals[w].expected, o) for o in others)
                bits = S.combo_bits(present, d.has_default)
                ctx.case((h.cmdname, d.name, bits, rnd, "valid"), nontrivial=nontrivial)
                ctx.reach(f"combo.{bits}")
                if d.spec.kind == "bool" and "cli" in present and vals["cli"].cli_negated:
                    ctx.reach("variant.bool-negated")
                wit = lambda: self.witness(present, argv, env, toml_text, (self.default if w == "default" else vals[w].expected) if w else "<usage error>", out, "valid")  # noqa: E731,B023
                ctx.sample({"command": h.cmdname, "option": d.name, "type": d.spec.label, "sources": sorted(present), "argv": argv, "env": env, "toml": toml_text, "outcome": out.brief()})
                ctx.trace((d.spec.label, bits, out.kind, self.mech))
                self.judge_valid(present, vals, out, wit, "valid")
                self.reload(out, wit)
            self.special_cases(plan, base, fixed, rnd)
            self.shadow_cases(plan, base, fixed, rnd)
        # soft observation: is GALLIA_<NAME> consulted for options without config metadata?
        if d.how != "config-field" and d.spec.env_ok and "cli" in self.sources:
            v = fixed["env"]
            if d.spec.kind == "bool":
                v = S.gen_value(d.spec, self.rng, "env", 0 if bool(self.default) else 1)  # type: ignore[assignment]
            argv = h.argv(list(base))
            out = h.parse(argv, {d.env_name: str(v.env)}, "", allow_full=False)
            if out.kind == "ok" and S.same(getattr(out.cfg, d.name, None), v.expected):
                ctx.reach("observed.env-consulted.plain-declared")
            else:
                ctx.reach("observed.env-not-consulted.plain-declared")

    def special_cases(self, plan: Plan, base: Any, fixed: dict[str, S.Val], rnd: int) -> None:
        d, ctx, h = self.d, self.ctx, self.h
        lower_all = [s for s in self.sources if s != "cli"]
        # const flag: the bare flag means the declared constant, whatever lower sources say
        if d.const is not S.UNSET and "cli" in self.sources:
            for lower in ([], lower_all) if lower_all else ([],):
                present = {"cli", *lower}
                vals = self.values(present, rnd, plan, fixed)
                argv, env, toml_text = self.build(plan, base, present, vals, bare=True)
                out = h.parse(argv, env, toml_text)
                ctx.case((h.cmdname, d.name, S.combo_bits(present, d.has_default), rnd, "const"))
                ctx.reach("variant.const-flag")
                wit = lambda: self.witness(present, argv, env, toml_text, d.const, out, "const-flag")  # noqa: E731,B023
                if out.kind == "ok" and S.same(getattr(out.cfg, d.name), d.const):
                    ctx.reach("outcome.const-ok")
                else:
                    ctx.violation(f"const-lost/{self.mech}", "the bare flag does not yield the declared constant", wit())
                self.reload(out, wit)
        # short flag
        if d.short and "cli" in self.sources and d.spec.kind != "bool" and not d.positional:
            present = {"cli"}
            vals = self.values(present, rnd, plan, fixed)
            argv, env, toml_text = self.build(plan, base, present, vals, short=True)
            out = h.parse(argv, env, toml_text)
            ctx.case((h.cmdname, d.name, S.combo_bits(present, d.has_default), rnd, "short"))
            ctx.reach("variant.short-flag")
            wit = lambda: self.witness(present, argv, env, toml_text, vals["cli"].expected, out, "short-flag")  # noqa: E731,B023
            if not (out.kind == "ok" and S.same(getattr(out.cfg, d.name), vals["cli"].expected)):
                ctx.violation(f"cli/short-flag-rejected/{self.mech}", f"the declared short flag -{d.short} is not accepted", wit())
        # invalid values: rejected, naming the source
        for src in self.sources:
            if ctx.out_of_time():
                return
            bad = S.gen_invalid(d.spec, random.Random(f"{self.vseed}/bad/{src}/{rnd}"))
            if bad is None and self.restricted and self.bad_text:
                bad = S.Val(None, [self.bad_text], self.bad_text, S.toml_str(self.bad_text), "outside the validator's domain")
            if bad is None or (src == "cli" and bad.cli is None) or (src == "env" and bad.env is None) or (src == "file" and bad.toml is None):
                continue
            lower = [s for s in self.sources if S.PRIORITY.index(s) > S.PRIORITY.index(src)]
            present = {src, *(s for s in lower if self.rng.random() < 0.5)}
            vals = dict(self.values(present - {src}, rnd, plan, fixed))
            vals[src] = bad
            argv, env, toml_text = self.build(plan, base, present, vals)
            out = h.parse(argv, env, toml_text)
            ctx.case((h.cmdname, d.name, S.combo_bits(present, d.has_default), rnd, f"invalid-{src}"))
            ctx.reach("variant.invalid")
            ctx.reach(f"variant.invalid.{src}")
            wit = lambda: self.witness(present, argv, env, toml_text, f"<rejected, naming {src}>", out, f"invalid-{src}")  # noqa: E731,B023
            if out.kind == "raise":
                ctx.violation(f"parser-raises/{type(out.exc).__name__}/{self.mech}", f"an invalid value makes the parser raise {type(out.exc).__name__}", wit())
            elif out.kind == "ok":
                got = getattr(out.cfg, d.name, S.UNSET)
                fallback = [vals[s].expected for s in present if s != src] + ([self.default] if d.has_default else [])
                if any(S.same(got, f) for f in fallback):
                    ctx.violation(f"precedence/{src}-ignored/{self.mech}", f"an invalid value from {src} is silently ignored", wit())
                else:
                    ctx.violation(f"invalid/accepted/{src}/{self.tkey}", f"an invalid value from {src} is accepted", wit())
            else:
                msg = out.text.split("error:")[-1] if "error" in out.text else out.text
                if names_source(msg, src, d):
                    ctx.reach("outcome.invalid-rejected-named")
                elif src in ("env", "file") and "required" in msg:
                    ctx.violation(f"precedence/{src}-ignored/{self.mech}", f"value from {src} is not used: the option is still demanded on the command line", wit())
                else:
                    ctx.violation(f"invalid/source-not-named/{src}/{self.mech}", f"an invalid value from {src} is rejected but the message does not name that source", wit())


# ------------------------------------------------------------------------------------------------
def run_command(ctx: Any, params: dict[str, Any]) -> None:
    cmds = _commands()
    path, cmd = cmds[params["index"]]
    if list(path) != params["path"]:
        raise RuntimeError(f"command tree changed between plan and shard: {path} != {params['path']}")
    ctx.reach("commands.enumerated")
    h = Harness(ctx, path, cmd, params["full_every"])
    opts = _options(cmd)
    if params["options"] is not None:
        opts = [d for d in opts if d.name in params["options"]]
    for d in opts:
        if ctx.out_of_time():
            ctx.reach("stopped.out_of_time")
            return
        ctx.reach("options.exercised")
        OptionRun(h, d, f"{ctx.seed}/{h.cmdname}/{d.name}", params["rounds"]).run()
    fresh_process_reload(ctx, h, params["index"])
    ctx.reach("commands.done")


def fresh_process_reload(ctx: Any, h: Harness, index: int) -> None:
    """'every run can be repeated': the config as stored by the command (run_meta.config) must re-create an equal config in ANOTHER
    process too (a default that differs between processes, e.g. a random seed, must therefore be part of what is stored)."""
    import subprocess
    import sys as _sys

    if not h.stored_samples:
        return
    samples = h.stored_samples[:12]
    f = ctx.mkscratch() / f"reload-{index}.json"
    f.write_text(json.dumps({"index": index, "stored": [x[0] for x in samples]}))
    try:
        cp = subprocess.run([_sys.executable, "-m", "vf.checks.c18", "--reload-child", str(f)], cwd=str(Path(__file__).resolve().parents[2]),
                            capture_output=True, text=True, timeout=120, env={**os.environ, "PYTHONHASHSEED": "1"})
        got = json.loads(cp.stdout.strip().splitlines()[-1])
    except Exception as e:  # harness problem, not a verdict
        ctx.reach("reload.fresh-process.harness-error")
        return
    for (stored, full, w), g in zip(samples, got):
        ctx.reach("reload.fresh-process")
        if isinstance(g, dict) and "error" in g:
            ctx.violation("reload/fresh-process/raises", "the configuration stored by the command cannot be fed back to the same command in a new process", {**w, "stored": stored, "error": g["error"][:300]})
            continue
        diff = [k for k in full if k in g and g[k] != full[k]] + [k for k in full if k not in g]
        if diff:
            ctx.violation("reload/fresh-process/not-equal", "the configuration stored by the command re-creates another configuration in a new process",
                          {**w, "field": diff[0], "stored_has_field": diff[0] in stored, "before": repr(full.get(diff[0]))[:120], "after": repr(g.get(diff[0]))[:120]})


def reload_child(path: str) -> None:
    from vf import runner

    runner.bootstrap_path()
    spec = json.loads(Path(path).read_text())
    _, cmd = _commands()[spec["index"]]
    out = []
    for stored in spec["stored"]:
        try:
            out.append(json.loads(cmd.CONFIG_TYPE(**stored).model_dump_json()))
        except Exception as e:
            out.append({"error": repr(e)})
    print(json.dumps(out))


# ------------------------------------------------------------------------------------------------
# The run really stores its configuration.  'The configuration stored in META.json and in the database, fed back to the same command,
# yields an equal configuration' is a statement about what a run leaves behind, so here the real entry_point() of every command is run
# (its run() replaced by a no-op: no ECU is needed to store a configuration) with --artifacts-base and --db, in a child process that
# has an environment of its own; afterwards META.json is read the way `gallia script rerun --file` reads it (Rerunner.file(), in that
# same environment), the run_meta row is read from the database, and both are fed to the command's CONFIG_TYPE.
# Dimension 1: the environment of the process - a UTF-8 one and one whose locale encoding is not UTF-8 (portable stand-in for the
# latin-1/cp1252 hosts: LC_ALL=C with Python's UTF-8 mode and C-locale coercion off).  Dimension 2: the characters a string / path
# option holds - ASCII, Latin-1, other BMP, astral, characters JSON must escape.
STORED_ENVS: dict[str, dict[str, str]] = {
    "utf8-locale": {"PYTHONUTF8": "1"},
    "non-utf8-locale": {"PYTHONUTF8": "0", "PYTHONCOERCECLOCALE": "0", "LC_ALL": "C", "LANG": "C"},
}
TEXT_POOLS: dict[str, str] = {
    "ascii": "abcxyzXYZ0189_./=:+,;#%(){}[]<>|&*?!~@^$'",
    "latin1": "\u00e4\u00f6\u00fc\u00df\u00e9\u00e8\u00f1\u00e7\u00c5\u00f8\u00a3\u00a7\u00b0\u00b5\u00ff\u00a0",
    "bmp": "\u2013\u2014\u20ac\u03a9\u03bb\u0416\u044f\u6e2c\u8a66\u3042\ud55c\u05e9\u0301\u2028\ufeff\uffed\u0152\u201c",
    "astral": "\U0001f600\U0001d518\U0001f697\U00010348\U0010fffd",
    "json-escaped": "\"\\\t\n\r\x1b\x7f/",
}
NON_ASCII_CLASSES = ("latin1", "bmp", "astral")
PATH_POOL = "\u00e4\u00f6\u00fc\u00e9\u00f1\u03a9\u03bb\u0416\u6e2c\u8a66\U0001f600"
STORED_CASES_QUICK = 2
STORED_CASES_THOROUGH = 12


def gen_text(rng: random.Random, classes: list[str]) -> str:
    """A text holding at least one character of every class in `classes` (never starting with '-': not a flag)."""
    words = []
    for c in classes:
        pool = TEXT_POOLS[c]
        w = "".join(rng.choice(pool) for _ in range(rng.randint(1, 4)))
        words.append(rng.choice("abcdefgh") + w + rng.choice(["", "q", "7"]))
    rng.shuffle(words)
    return "v" + rng.choice([" ", "", " ; "]).join(words)


def text_classes(t: str) -> list[str]:
    out = set()
    for ch in t:
        o = ord(ch)
        if ch in TEXT_POOLS["json-escaped"][:-1]:
            out.add("json-escaped")
        elif o < 0x80:
            out.add("ascii")
        elif o < 0x100:
            out.add("latin1")
        elif o < 0x10000:
            out.add("bmp")
        else:
            out.add("astral")
    return sorted(out)


def run_stored(ctx: Any, params: dict[str, Any]) -> None:
    import subprocess
    import sys as _sys

    env_name = params["env"]
    cmds = _commands()
    scratch = ctx.mkscratch() / f"stored-{env_name}-{params['part']}"
    scratch.mkdir(parents=True, exist_ok=True)
    cases: list[dict[str, Any]] = []
    for i, (path, cmd) in enumerate(cmds):
        if params.get("indices") is not None and i not in params["indices"]:
            continue
        if i % params["parts"] != params["part"]:
            continue
        ctx.reach("stored.commands.enumerated")
        h = Harness(ctx, path, cmd, 0)
        if "pre_hook" not in h.decls or "artifacts_base" not in h.decls or "db" not in h.decls:
            ctx.reach("stored.uncovered.no-generic-options")
            continue
        anchor = OptionRun(h, h.decls["pre_hook"], f"{ctx.seed}/stored/{h.cmdname}", 1)
        found = anchor.find_plan()
        if found is None:
            ctx.reach("stored.uncovered.no-plan")
            continue
        plan, base, _ = found
        for j in range(params["cases"]):
            case = stored_case(ctx, h, plan, list(base), env_name, j, scratch / f"c{i}-{j}", len(cases))
            if case is not None:
                case["index"] = i
                cases.append(case)
    if not cases:
        return
    spec_file, out_file = scratch / "spec.json", scratch / "out.jsonl"
    spec_file.write_text(json.dumps({"env": env_name, "cases": [{k: v for k, v in c.items() if not k.startswith("_")} for c in cases]}))
    env = {k: v for k, v in os.environ.items() if not k.startswith(("LC_", "GALLIA_", "LANG", "PYTHONIOENCODING", "PYTHONUTF8", "PYTHONCOERCECLOCALE")) and v.isascii()}
    env.update(STORED_ENVS[env_name])
    env["PYTHONHASHSEED"] = "1"
    try:
        subprocess.run([_sys.executable, "-m", "vf.checks.c18", "--stored-child", str(spec_file), str(out_file)], cwd=str(Path(__file__).resolve().parents[2]),
                       capture_output=True, timeout=300 if ctx.tier == "quick" else 1500, env=env)
    except subprocess.TimeoutExpired:
        ctx.reach("stored.harness.child-timeout")
    results: dict[int, dict[str, Any]] = {}
    if out_file.exists():
        for line in out_file.read_bytes().splitlines():
            try:
                r = json.loads(line)
                results[r["id"]] = r
                if r["id"] == -1:
                    ctx.reach("stored.harness.child-case-error")
            except Exception:
                ctx.reach("stored.harness.bad-result-line")
    for case in cases:
        r = results.get(case["id"])
        if r is None:  # the child died or ran out of time before this case: a harness problem, not a verdict
            ctx.reach("stored.harness.no-result")
            continue
        judge_stored(ctx, env_name, cmds[case["index"]][1], case, r)


def stored_case(ctx: Any, h: Harness, plan: Plan, base: list[tuple[str, list[str], list[str]]], env_name: str, j: int, adir: Path, ident: int) -> dict[str, Any] | None:
    """One valid configuration of the command with an artifacts directory, a database and string options that hold generated texts."""
    rng = random.Random(f"{ctx.seed}/stored/{env_name}/{h.cmdname}/{j}")
    utf8 = env_name == "utf8-locale"
    # which classes of characters: every case of the non-UTF-8 environment but each fourth holds a character outside that locale
    pure_ascii = j % 4 == 3
    special = [] if pure_ascii else [NON_ASCII_CLASSES[(j + len(h.cmdname)) % 3]] + [c for c in NON_ASCII_CLASSES if rng.random() < 0.3]
    tag = "".join(rng.choice(PATH_POOL) for _ in range(rng.randint(1, 3))) if utf8 and not pure_ascii and rng.random() < 0.7 else "p"
    adir = adir.with_name(adir.name + "-" + tag)
    adir.mkdir(parents=True, exist_ok=True)
    paths = {"artifacts_base": adir / "artifacts", "db": adir / f"runs-{tag}.sqlite"}
    if rng.random() < 0.5 and "lock_file" in h.decls:
        paths["lock_file"] = adir / f"lock-{tag}"
    frags = {n: (n, p, o) for n, p, o in base}
    for n, pth in paths.items():
        frags[n] = (n, [], [h.decls[n].flag, str(pth)])
    if "hooks" in h.decls:
        frags["hooks"] = ("hooks", [], ["--no-hooks"])  # the hook scripts are stored, not executed
    candidates = [d for d in h.decls.values() if d.spec.kind == "str" and d.spec.cli_ok and not d.hidden and not d.positional and d.name in h.fields]
    candidates.sort(key=lambda d: (d.name not in ("pre_hook", "post_hook"), d.name))
    not_free: set[str] = h.__dict__.setdefault("stored_not_free", set())  # options a validator restricts (--oem ...): found once per command
    drawn: list[tuple[S.Decl, str, str]] = []
    for d in candidates:
        classes = sorted(set(special + [c for c in ("ascii", "json-escaped") if rng.random() < 0.5])) or ["ascii"]
        text = gen_text(rng, classes)
        # in the non-UTF-8 environment a text outside the locale is given in-process (command line) or in gallia.toml (a TOML document is
        # UTF-8 whatever the locale says); environment variables are bytes of the locale there and stay ASCII
        allowed = [s for s in option_sources(d) if s in ("cli", "file") or utf8 or text.isascii()]
        if allowed and d.name not in not_free:
            drawn.append((d, rng.choice(allowed), text))

    def place(state: tuple[dict[str, Any], dict[str, str], dict[str, str]], d: S.Decl, src: str, text: str) -> tuple[dict[str, Any], dict[str, str], dict[str, str]] | None:
        fr, ev, en = dict(state[0]), dict(state[1]), dict(state[2])
        if src == "cli":
            fr[d.name] = (d.name, [], [d.flag, text])
            return fr, ev, en
        if d.name in fr:
            if not d.has_default:
                return None  # required option: stays on the command line
            del fr[d.name]
        if src == "env":
            ev[d.env_name] = text
        else:
            en[str(d.file_key)] = S.toml_str(text)
        return fr, ev, en

    def accepted(state: tuple[dict[str, Any], dict[str, str], dict[str, str]], want: dict[str, str]) -> bool:
        out = h.parse(h.argv(list(state[0].values())), state[1], S.render_toml(state[2]), allow_full=False)
        return out.kind == "ok" and all(getattr(out.cfg, n, None) == t for n, t in want.items())

    texts: dict[str, tuple[str, str]] = {}  # option -> (source, text)
    state: tuple[dict[str, Any], dict[str, str], dict[str, str]] = (frags, {}, {})
    # all at once (one parse); only if that is refused, option by option to find the one that is not free
    whole: Any = state
    for d, src, text in drawn:
        whole = place(whole, d, src, text) or whole
    placed = {d.name: (src, text) for d, src, text in drawn if (src == "cli" and d.name in whole[0]) or (src == "env" and d.env_name in whole[1]) or (src == "file" and str(d.file_key) in whole[2])}
    if placed and accepted(whole, {n: t for n, (_, t) in placed.items()}):
        state, texts = whole, placed
    else:
        for d, src, text in drawn:
            trial = place(state, d, src, text)
            if trial is None:
                continue
            if accepted(trial, {d.name: text}):
                state = trial
                texts[d.name] = (src, text)
            else:
                not_free.add(d.name)
                ctx.reach("stored.text-option-not-free")  # a validator restricts the option or its metadata is lost: judged elsewhere
    frags, env, entries = state
    if not texts:
        ctx.reach("stored.uncovered.no-text-option")
        return None
    argv = h.argv(list(frags.values()))
    # control for the attribution of a refusal: the same file with ASCII values at the same keys
    control = {k: (lit if lit.isascii() else S.toml_str("ascii-" + str(n))) for n, (k, lit) in enumerate(entries.items())}
    return {"id": ident, "path": list(h.path), "argv": argv, "env": env, "toml": S.render_toml(entries), "toml_control": S.render_toml(control), "dir": str(adir),
            "artifacts_base": str(paths["artifacts_base"]), "db": str(paths["db"]), "texts": {n: t for n, (_, t) in texts.items()},
            "_sources": {n: s for n, (s, _) in texts.items()}, "_case": j, "_cmdname": h.cmdname}


def judge_stored(ctx: Any, env_name: str, cmd: type, case: dict[str, Any], r: dict[str, Any]) -> None:
    cmdname = case["_cmdname"]
    enc_utf8 = str(r.get("locale_encoding", "")).lower().replace("-", "").replace("_", "") in ("utf8", "cputf8")
    if enc_utf8 != (env_name == "utf8-locale"):
        ctx.reach("stored.harness.environment-not-established")  # e.g. no such locale on this host: nothing is judged
        return
    wit = {"command": cmdname, "option": "pre_hook", "variant": "stored-run", "environment": env_name, "environment_vars": STORED_ENVS[env_name],
           "locale_encoding": r.get("locale_encoding"), "argv": case["argv"], "env": case["env"], "toml": case["toml"], "stored_case": case["_case"],
           "texts": {n: ascii(t) for n, t in case["texts"].items()}, "sources": case["_sources"], "entry_point": r.get("entry_point"),
           "meta_size": r.get("meta_size"), "vseed": f"{ctx.seed}/stored/{cmdname}"}
    ctx.case((cmdname, env_name, case["_case"], "stored-run"))
    ctx.reach(f"stored.cases.{env_name}")
    # values that gallia.toml gives to an option and that hold characters outside the locale encoding of the process: a file value like
    # any other ('otherwise the one from the matching key of gallia.toml'); TOML documents are UTF-8 by definition
    file_outside = [n for n, t in case["texts"].items() if case["_sources"][n] == "file" and not locale_encodable(t, str(r.get("locale_encoding", "")))]
    if file_outside:
        ctx.reach(f"stored.file-text.outside-locale-encoding.{env_name}")
    if r.get("parse") != "ok":
        pr = r.get("parse") if isinstance(r.get("parse"), dict) else {}
        if file_outside and pr.get("control_ok"):
            # the same command line and variables with a file that holds ASCII values at the same keys are accepted in that environment
            ctx.violation(f"file/non-ascii-value-not-honoured/{env_name}", "a gallia.toml value with characters outside the locale encoding of the process is refused instead of becoming the effective value",
                          {**wit, "option": file_outside[0], "file_key": str(S.declared(cmd.CONFIG_TYPE)[file_outside[0]].file_key), "expected": ascii(case["texts"][file_outside[0]]), "parse": pr})
            return
        # the very same command line / file / variables were accepted in this process: the environment made the difference
        ctx.violation(f"stored/valid-configuration-refused/{env_name}", "a configuration that is accepted in one environment is refused in another", {**wit, "parse": r.get("parse")})
        return
    for n, t in case["texts"].items():
        got = r["texts"].get(n)
        if got != t and n in file_outside:
            ctx.violation(f"file/non-ascii-value-not-honoured/{env_name}", "a gallia.toml value with characters outside the locale encoding of the process does not become the effective value",
                          {**wit, "option": n, "file_key": str(S.declared(cmd.CONFIG_TYPE)[n].file_key), "expected": ascii(t), "got": ascii(got)})
            return
        if got != t:
            ctx.violation(f"precedence/{case['_sources'][n]}-wrong-value/type:str", f"the effective value is not the one given by {case['_sources'][n]}", {**wit, "option": n, "expected": ascii(t), "got": ascii(got)})
            return
    classes = sorted({c for t in case["texts"].values() for c in text_classes(t)})
    for c in classes:
        ctx.reach(f"stored.text.{c}.{env_name}")
    if r.get("outside_locale"):
        ctx.reach(f"stored.text.outside-locale-encoding.{env_name}")
    if not str(case["dir"]).isascii():
        ctx.reach(f"stored.path.non-ascii.{env_name}")
    for s in set(case["_sources"].values()):
        ctx.reach(f"stored.text-source.{s}.{env_name}")
    if "construct" in r:
        ctx.reach("stored.uncovered.command-not-instantiable")
        return
    ep = r.get("entry_point") or {}
    ctx.reach("stored.entry-point.returned" if "rc" in ep else "stored.entry-point.raised")
    ctx.trace(("stored", env_name, tuple(classes), "rc" in ep, r.get("meta_files"), r.get("db_rows")))
    ctx.sample({"command": cmdname, "stored_run": env_name, "texts": wit["texts"], "entry_point": ep, "meta": (r.get("meta") or {}).get("error", "fed back"), "db": (r.get("db") or {}).get("error", "fed back")})
    original = r["config"]
    expected_name = f"{cmd.__module__}.{cmd.__name__}"
    for where, nfound, fb in (("meta-json", r.get("meta_files"), r.get("meta")), ("database", r.get("db_rows"), r.get("db"))):
        ctx.reach(f"stored.{where}.judged.{env_name}")
        if r.get("outside_locale"):
            ctx.reach(f"stored.{where}.judged.text-outside-locale-encoding")
        w = {**wit, "where": where}
        if nfound != 1 or fb is None:
            ctx.violation(f"stored/{where}/missing/{env_name}", f"the run did not leave exactly one stored configuration ({where})", {**w, "found": nfound})
            continue
        if "error" in fb:
            w["error"] = fb["error"]
            if fb.get("stage") == "read":
                ctx.violation(f"stored/{where}/not-readable/{env_name}", f"what the run stored ({where}) cannot be read back in the environment that wrote it", w)
            else:
                ctx.violation(f"stored/{where}/reload-raises/{fb.get('type')}", f"the configuration stored by the run ({where}) cannot be fed back to the command", w)
            continue
        if fb.get("command") != expected_name or not fb.get("same_command"):
            ctx.violation(f"stored/{where}/wrong-command", "the stored command name does not lead back to the same command", {**w, "stored_command": fb.get("command"), "expected": expected_name})
            continue
        again = fb["config"]
        diff = [k for k in original if again.get(k, S.UNSET) != original[k]] + [k for k in again if k not in original]
        if diff:
            dn = S.declared(cmd.CONFIG_TYPE).get(diff[0])
            ctx.violation(f"stored/{where}/not-equal/{dn.spec.label.replace('|None', '') if dn else '?'}", f"the configuration stored by the run ({where}) re-creates another configuration",
                          {**w, "field": diff[0], "before": ascii(original.get(diff[0]))[:200], "after": ascii(again.get(diff[0]))[:200]})
            continue
        ctx.reach(f"stored.{where}.equal")
    if file_outside:
        ctx.reach(f"stored.file-text.outside-locale-encoding.honoured.{env_name}")


def locale_encodable(t: str, enc: str) -> bool:
    try:
        t.encode(enc)
        return True
    except LookupError:
        return t.isascii()
    except UnicodeError:
        return False


async def _noop_run(self: Any) -> int:
    return 0


def stored_child(spec_path: str, out_path: str) -> None:
    """Runs in the environment under test.  Everything that crosses the process boundary is ASCII JSON in binary files."""
    from vf import runner

    runner.bootstrap_path()
    import asyncio
    import importlib
    import locale
    import shutil
    import sqlite3
    import traceback

    import gallia.command  # noqa: F401
    from gallia.cli.gallia import create_parser
    from gallia.commands.script.rerun import Rerunner, RerunnerConfig
    from gallia.log import remove_zst_log_handler
    from gallia.plugins.plugin import CommandTree

    spec = json.loads(Path(spec_path).read_bytes())
    cmds = _commands()
    enc = locale.getpreferredencoding(False)

    def encodable(t: str) -> bool:
        try:
            t.encode(enc)
            return True
        except Exception:
            return False

    def feed_back(cmd: type, name: str, stored: Any) -> dict[str, Any]:
        fb: dict[str, Any] = {"command": name}
        try:
            parts = str(name).split(".")
            fb["same_command"] = getattr(importlib.import_module(".".join(parts[:-1])), parts[-1]) is cmd
        except Exception:
            fb["same_command"] = False
        try:
            fb["config"] = json.loads(cmd.CONFIG_TYPE(**stored).model_dump_json())
        except Exception as e:
            fb.update({"error": repr(e)[:400], "type": type(e).__name__, "stage": "instantiate"})
        return fb

    def parse(cmd: type, path: list[str], case: dict[str, Any], toml_path: Path) -> Any:
        saved = dict(os.environ)
        try:
            for k in list(os.environ):
                if k.startswith("GALLIA_"):
                    del os.environ[k]
            toml_path.write_bytes(case["toml"].encode("utf-8"))  # a TOML file is UTF-8, whatever the locale
            os.environ["GALLIA_CONFIG"] = str(toml_path)
            os.environ.update(case["env"])
            node: Any = cmd
            for k in reversed(path):
                node = CommandTree("pruned", {k: node})
            with contextlib.redirect_stderr(io.StringIO()) as err, contextlib.redirect_stdout(io.StringIO()):
                try:
                    _, cfg = create_parser(node.subtree).parse_typed_args(list(case["argv"]))
                except SystemExit as e:
                    return {"exit": repr(e.code), "text": err.getvalue()[-400:]}
            return cfg
        except Exception as e:
            return {"raised": repr(e)[:400]}
        finally:
            os.environ.clear()
            os.environ.update(saved)

    def one(case: dict[str, Any]) -> dict[str, Any]:
        r: dict[str, Any] = {"id": case["id"], "locale_encoding": enc}
        path, cmd = cmds[case["index"]]
        if list(path) != case["path"]:
            r["parse"] = {"raised": "command tree differs between the processes"}
            return r
        cfg = parse(cmd, list(path), case, Path(case["dir"]) / "gallia.toml")
        if isinstance(cfg, dict):
            r["parse"] = cfg
            if case.get("toml_control") is not None and case["toml_control"] != case["toml"]:
                cfg["control_ok"] = not isinstance(parse(cmd, list(path), {**case, "toml": case["toml_control"]}, Path(case["dir"]) / "gallia.toml"), dict)
            shutil.rmtree(case["dir"], ignore_errors=True)
            return r
        r["parse"] = "ok"
        r["config"] = json.loads(cfg.model_dump_json())
        r["texts"] = {n: getattr(cfg, n, None) for n in case["texts"]}
        r["outside_locale"] = [n for n, t in case["texts"].items() if not encodable(t)]
        try:
            runcls = type(cmd.__name__, (cmd,), {"run": _noop_run, "__module__": cmd.__module__, "__qualname__": cmd.__qualname__})
            command = runcls(cfg)
        except Exception as e:
            r["construct"] = repr(e)[:300]
            return r
        try:
            r["entry_point"] = {"rc": asyncio.run(asyncio.wait_for(command.entry_point(), 30))}
        except BaseException as e:  # noqa: BLE001
            r["entry_point"] = {"raised": repr(e)[:300], "type": type(e).__name__, "where": "".join(traceback.format_tb(e.__traceback__)[-2:])[-600:]}
        for hdl in list(getattr(command, "log_file_handlers", [])):  # left behind by a run that blew up while finishing
            with contextlib.suppress(Exception):
                remove_zst_log_handler(logger_name="gallia", handler=hdl)
        if "raised" in r["entry_point"] and getattr(command, "_lock_file_fd", None) is not None:
            with contextlib.suppress(Exception):
                os.close(command._lock_file_fd)
        metas = sorted(Path(case["artifacts_base"]).glob("*/run-*/META.json"))
        r["meta_files"] = len(metas)
        if len(metas) == 1:
            r["meta_size"] = metas[0].stat().st_size
            try:
                name, stored = Rerunner(RerunnerConfig(file=metas[0])).file()  # how `gallia script rerun --file` reads it
            except Exception as e:
                r["meta"] = {"error": repr(e)[:400], "type": type(e).__name__, "stage": "read"}
            else:
                r["meta"] = feed_back(cmd, name, stored)
        try:
            rows = []
            if Path(case["db"]).exists():
                con = sqlite3.connect(case["db"], timeout=5)
                rows = con.execute("SELECT script, config FROM run_meta").fetchall()
                con.close()
            r["db_rows"] = len(rows)
            if len(rows) == 1:
                try:
                    stored = json.loads(rows[0][1])
                except Exception as e:
                    r["db"] = {"error": repr(e)[:400], "type": type(e).__name__, "stage": "read"}
                else:
                    r["db"] = feed_back(cmd, rows[0][0], stored)
        except Exception as e:
            r["db_rows"] = 1
            r["db"] = {"error": repr(e)[:400], "type": type(e).__name__, "stage": "read"}
        shutil.rmtree(case["dir"], ignore_errors=True)
        return r

    with open(out_path, "ab") as f:
        for case in spec["cases"]:
            try:
                r = one(case)
            except BaseException as e:  # noqa: BLE001  harness problem: no result for this case
                r = None
                with contextlib.suppress(Exception):
                    f.write(json.dumps({"id": -1, "harness_error": repr(e)[:300], "case": case["id"]}).encode("ascii") + b"\n")
            if r is not None:
                f.write(json.dumps(r).encode("ascii") + b"\n")
            f.flush()
    os._exit(0)  # no interpreter shutdown: a database worker thread left behind by a run that blew up must not keep the child alive


# ------------------------------------------------------------------------------------------------
# Commands of a third-party plugin.  'All commands of the command tree' are the commands of every installed plugin (the tree is built
# from the `gallia_plugins` entry points), and a plugin's config classes subclass gallia's base configs and choose their config section
# freely: gallia supports options at the TOP LEVEL of gallia.toml (config_section=""), tables of the plugin's own, tables nested below
# an existing one, and a per-option section that differs from the one of the class.  The template shard installs such a plugin the way
# pip would (a module plus a *.dist-info with entry_points.txt on sys.path, in the shard's scratch directory), so gallia's own
# load_commands() / create_parser() / template() see it next to the in-tree commands.  Only plain option types are used (the Annotated
# ones lose their metadata under the installed pydantic - recorded finding, exercised on the in-tree commands).
PLUGIN_ROOT = "verifbench"
PLUGIN_MODULE = "verif_c18_plugin"
PLUGIN_BASES = (
    ("gallia.command.base", "AsyncScriptConfig", "AsyncScript"),
    ("gallia.command.base", "ScannerConfig", "Scanner"),
    ("gallia.command.uds", "UDSScannerConfig", "UDSScanner"),
)
PLUGIN_SECTION_CLASSES = ("top-level", "own-table", "nested-table", "field-override")


def plugin_source(seed: int) -> tuple[str, dict[str, list[str]]]:
    """(source of the plugin module, option -> classes of section spelling).  The seed picks the names of the plugin's tables, the
    in-tree table one of them nests in, and the gallia base config each command builds on; every spelling occurs for every seed."""
    rng = random.Random(f"C18/plugin/{seed}")
    own, own2 = rng.sample(["bench", "rack", "lab", "rig", "zz_site", "a_site"], 2)
    parent = rng.choice(["gallia", "gallia.scanner", "gallia.protocols.uds", "gallia.hooks"])
    nested = f"{parent}.{rng.choice(['bench', 'plugin_x', 'a0'])}"
    deep = f"{own2}.{rng.choice(['east', 'west'])}.{rng.choice(['upper', 'lower'])}"
    bases = [PLUGIN_BASES[0]] * 5
    for k in rng.sample(range(5), 2):  # two of the five commands build on a scanner config (more in-tree options and tables before them)
        bases[k] = rng.choice(PLUGIN_BASES[1:])
    imports = sorted({f"from {m} import {c}, {k}" for m, c, k in bases})
    sections: dict[str, list[str]] = {}

    def opt(name: str, ann: str, default: str, desc: str, classes: list[str], override: str | None = None) -> str:
        sections[name] = classes
        extra = f", config_section={override!r}" if override is not None else ""
        return f"    {name}: {ann} = Field({default}, description={desc!r}{extra})"

    def command(k: int, cls: str, group: str, section: str, body: list[str]) -> list[str]:
        _, cfg, cmd = bases[k]
        return [
            "", "", f"class {cls}Config({cfg}, cli_group={group!r}, config_section={section!r}):", *body,
            "", "", f"class {cls}({cmd}):", f"    CONFIG_TYPE = {cls}Config", f"    SHORT_HELP = {('test bench: ' + group)!r}", "",
            "    async def main(self) -> None:", "        pass",
        ]

    lines = [
        '"""Test bench commands (third-party gallia plugin)."""', "", "from collections.abc import Mapping", "from pathlib import Path", "",
        "from gallia.command import BaseCommand", *imports, "from gallia.command.config import Field", "from gallia.plugins.plugin import CommandTree, Plugin",
    ]
    lines += command(0, "BenchInfo", "bench", "", [
        opt("vb_name", "str", '"unnamed"', "Name of the test bench, stored with every run", ["top-level"]),
        opt("vb_slot", "int | None", "None", "Slot of the ECU in the test bench", ["top-level"]),
        opt("vb_strict", "bool", "False", "Refuse to run on a bench that is not calibrated", ["top-level"]),
        opt("vb_ratio", "float", "1.5", "Divider ratio of the bench supply", ["top-level"]),
    ])
    lines += command(1, "BenchRack", "rack", own, [
        opt("vr_label", "str | None", "None", "Label of the rack", ["own-table"]),
        opt("vr_ports", "int", "4", "Number of ports of the rack", ["own-table"]),
        opt("vr_notes", "Path | None", "None", "File with notes about the rack", ["own-table"]),
    ])
    lines += command(2, "BenchNested", "nested", nested, [
        opt("vn_tag", "str", '"t0"', "Tag of the bench inside the shared table", ["nested-table"]),
        opt("vn_depth", "int | None", "None", "Depth of the bench", ["nested-table"]),
        opt("vn_deep", "bool", "True", "Option in a table three levels below a table of the plugin", ["nested-table", "field-override"], deep),
    ])
    lines += command(3, "BenchMixed", "mixed", own2, [
        opt("vm_local", "str", '"here"', "Option in the table of its class", ["own-table"]),
        opt("vm_top", "int", "7", "Option of a class with a table that lives at the top level", ["top-level", "field-override"], ""),
        opt("vm_shared", "str | None", "None", "Option of a class with a table that lives in a table of gallia", ["nested-table", "field-override"], parent),
    ])
    lines += command(4, "BenchTopMixed", "topmixed", "", [
        opt("vt_top", "str | None", "None", "Top level option without a default", ["top-level"]),
        opt("vt_flag", "bool", "True", "Top level switch", ["top-level"]),
        opt("vt_named", "int", "3", "Option of a top level class that lives in a table", ["own-table", "field-override"], own),
    ])
    lines += [
        "", "", "class VerifBenchPlugin(Plugin):", "    @classmethod", "    def name(cls) -> str:", '        return "Test bench"', "",
        "    @classmethod", "    def commands(cls) -> Mapping[str, CommandTree | type[BaseCommand]]:",
        f'        return {{"{PLUGIN_ROOT}": CommandTree(description="test bench", subtree={{"info": BenchInfo, "rack": BenchRack, "nested": BenchNested, "mixed": BenchMixed, "topmixed": BenchTopMixed}})}}',
    ]
    return "\n".join(lines) + "\n", sections


def install_plugin(ctx: Any) -> dict[str, list[str]]:
    """Installs the plugin for this process (module + dist-info in the shard's scratch directory, appended to sys.path).  Must run
    before the first load_commands() of the process.  Returns option -> classes of section spelling."""
    import importlib
    import sys as _sys

    source, sections = plugin_source(ctx.seed)
    root = ctx.mkscratch() / "site-plugin"
    if str(root) not in _sys.path:
        info = root / f"{PLUGIN_MODULE}-0.0.dist-info"
        info.mkdir(parents=True, exist_ok=True)
        (root / f"{PLUGIN_MODULE}.py").write_text(source)
        (info / "METADATA").write_text(f"Metadata-Version: 2.1\nName: {PLUGIN_MODULE.replace('_', '-')}\nVersion: 0.0\n")
        (info / "entry_points.txt").write_text(f"[gallia_plugins]\n{PLUGIN_ROOT} = {PLUGIN_MODULE}:VerifBenchPlugin\n")
        _sys.path.append(str(root))
        importlib.invalidate_caches()
    return sections


class _PluginCtx:
    """The shard's context with the reach counters prefixed: what the plugin's options reach must not count for the counters that are
    required of the in-tree commands.  Cases, samples, traces and violations go through unchanged (same keys as for in-tree options)."""

    def __init__(self, ctx: Any):
        self._ctx = ctx

    def __getattr__(self, name: str) -> Any:
        return getattr(self._ctx, name)

    def reach(self, name: str, *a: Any, **kw: Any) -> Any:
        return self._ctx.reach("plugin." + name, *a, **kw)


TEMPLATE_KEY = re.compile(r"^(?:# )?([A-Za-z_][A-Za-z0-9_]*) = ")


def template_lines(text: str) -> list[tuple[int, str, str]]:
    """(line number, table the line stands in, option name) for every line of the template that lists an option."""
    out: list[tuple[int, str, str]] = []
    sect = ""
    for n, line in enumerate(text.splitlines()):
        m = re.match(r"^\[([^\]]+)\]\s*$", line)
        if m:
            sect = m.group(1)
            continue
        m = TEMPLATE_KEY.match(line)
        if m and (not line.startswith("# ") or line.rstrip().endswith("= ...")):
            out.append((n, sect, m.group(1)))
    return out


def template_keys() -> tuple[list[str], str]:
    from gallia.cli.gallia import template

    buf = io.StringIO()
    with contextlib.redirect_stdout(buf):
        template()
    text = buf.getvalue()
    return [f"{sect}.{attr}" if sect else attr for _, sect, attr in template_lines(text)], text


def template_filled_in(text: str, at: int, attr: str, lit: str) -> str:
    """The template as a user fills it in for ONE option: the line that lists the option becomes `attr = lit`; every other line that
    sets a value is commented out (so nothing but this option's placement is under test), the table headers stay where they are."""
    listing = {n for n, _, _ in template_lines(text)}
    out = []
    for n, line in enumerate(text.splitlines()):
        if n == at:
            out.append(f"{attr} = {lit}")
        elif n in listing and not line.startswith("#"):
            out.append("# " + line)
        else:
            out.append(line)
    return "\n".join(out) + "\n"


def run_template(ctx: Any) -> None:
    """template(): listed keys == keys honoured by some command; each listed key is honoured as listed - for the in-tree commands and
    for the commands of an installed third-party plugin whose options live at the top level of gallia.toml, in tables of its own, in
    tables nested below existing ones and in per-option sections; a value written where the template lists an option is effective."""
    import tomllib

    plugin_sections = install_plugin(ctx)  # before the first load_commands() of this process, like an installed distribution
    cmds = _commands()  # `gallia --template` prints the template after load_commands(), too
    plugin_cmds = [i for i, (path, _) in enumerate(cmds) if path[0] == PLUGIN_ROOT]
    for _ in plugin_cmds:
        ctx.reach("template.plugin.commands")
    keys, text = template_keys()
    listed = set(keys)
    if len(keys) != len(listed):
        ctx.violation("template/duplicate-key", "the template lists a key twice", {"template": text[:1500]})
    # the template is a TOML document (options without a default are listed as `# name = ...`: given some value here)
    lines = template_lines(text)
    unset = {n: a for n, _, a in lines if text.splitlines()[n].startswith("# ")}
    try:
        tomllib.loads("\n".join(f'{unset[n]} = "unset"' if n in unset else ln for n, ln in enumerate(text.splitlines())))
        ctx.reach("template.valid-toml")
    except tomllib.TOMLDecodeError as e:
        ctx.violation("template/not-valid-toml", "the generated template is not a TOML document once the listed options are filled in", {"error": str(e)[:300], "template": text[:3000]})
    honoured: dict[str, list[str]] = {}
    not_honoured: dict[str, list[tuple[str, str, Any]]] = {}
    declared_keys: dict[str, list[tuple[int, str]]] = {}
    for i, (path, cmd) in enumerate(cmds):
        for d in _options(cmd):
            if d.file_key is not None:
                declared_keys.setdefault(d.file_key, []).append((i, d.name))
    harnesses: dict[int, Harness] = {}

    def probe(i: int, name: str, key: str) -> tuple[bool, Any] | None:
        path, cmd = cmds[i]
        h = harnesses.setdefault(i, Harness(ctx, path, cmd, 0))
        d = h.decls[name]
        if not d.spec.cli_ok:
            return None
        orun = OptionRun(h, d, f"{ctx.seed}/template/{h.cmdname}/{name}", 1)
        found = orun.find_plan()
        if found is None:
            return None
        plan, base, fixed = found
        present = {"file"}
        vals = orun.values(present, 0, plan, fixed)
        argv = h.argv(list(base))
        toml_text = S.render_toml({key: str(vals["file"].toml)})
        out = h.parse(argv, {}, toml_text, allow_full=False)
        ctx.case(("template", key, h.cmdname, name))
        ok = out.kind == "ok" and S.same(getattr(out.cfg, name, None), vals["file"].expected)
        if ok and d.file_key == key:
            filled_in(h, orun, d, key, argv, vals["file"])
        return ok, orun.witness(present, argv, {}, toml_text, vals["file"].expected, out, "template-key")

    def filled_in(h: Harness, orun: OptionRun, d: S.Decl, key: str, argv: list[str], v: S.Val) -> None:
        """The option takes a value from its real key.  Does it take the same value from the place where the template lists it?  The
        line is found by the option's name if the template lists that name once (whatever table the line stands in), else by name
        and table."""
        at = [n for n, _, a in lines if a == d.name]
        if len(at) != 1:
            at = [n for n, s, a in lines if (f"{s}.{a}" if s else a) == key]
        if len(at) != 1:
            ctx.reach("template.filled-in.not-listed-once")  # judged as missing / duplicate key
            return
        toml_text = template_filled_in(text, at[0], d.name, str(v.toml))
        out = h.parse(argv, {}, toml_text, allow_full=False)
        ctx.case(("template-filled-in", key, h.cmdname, d.name))
        top = "." not in key
        if out.kind == "ok" and S.same(getattr(out.cfg, d.name, None), v.expected):
            ctx.reach("template.filled-in.effective")
            if top:
                ctx.reach("template.filled-in.effective.top-level")
            return
        above = [ln for ln in text.splitlines()[: at[0]] if ln.startswith("[")]
        wit = orun.witness({"file"}, argv, {}, "\n".join(ln for ln in toml_text.splitlines() if ln and not ln.startswith("#")) + "\n", v.expected, out, "template-key")
        ctx.violation(
            f"template/filled-in-line-not-effective/{'top-level' if top else 'table'}",
            "the option takes a value from its real key, but not from the place where --template lists it",
            {**wit, "key": key, "template_line": at[0] + 1, "table_header_above_the_line": above[-1] if above else None},
        )

    for key in sorted(listed | set(declared_keys)):
        users = declared_keys.get(key, [])
        if key in listed:
            ctx.reach("template.keys_checked")
        if not users:
            sect, _, attr = key.rpartition(".")
            ctx.violation("template/orphan-key", "the template lists a key that no command of the tree declares", {"key": key})
            continue
        # try up to three commands that declare the key
        for i, name in users[:3] if ctx.tier == "quick" else users:
            if ctx.out_of_time():
                return
            r = probe(i, name, key)
            if r is None:
                continue
            ok, wit = r
            if ok:
                honoured.setdefault(key, []).append(wit["command"])
            else:
                not_honoured.setdefault(key, []).append((wit["command"], name, wit))
    for key in sorted(listed):
        if key in declared_keys and key not in honoured and key in not_honoured:
            cmdname, name, wit = not_honoured[key][0]
            cmd_i = next(i for i, n in declared_keys[key] if n == name)
            d = S.declared(cmds[cmd_i][1].CONFIG_TYPE)[name]
            ctx.violation(
                f"template/listed-key-not-honoured/{mechanism(d, cmds[cmd_i][1].CONFIG_TYPE.model_fields[name])}",
                "a key listed by --template has no effect on any command that declares it", {**wit, "key": key},
            )
        elif key in honoured:
            ctx.reach("template.keys_honoured")
    for key in sorted(set(honoured) - listed):
        ctx.violation("template/missing-key", "a file key that is honoured is not listed by --template", {"key": key, "commands": honoured[key][:5]})
    # the spellings of the config section a plugin may choose: which of them were seen to be honoured at their real key
    for key in sorted(honoured):
        for i, name in declared_keys[key]:
            if i in plugin_cmds and name in plugin_sections and cmds[i][1].CONFIG_TYPE.__module__ == PLUGIN_MODULE:
                for c in plugin_sections[name]:
                    ctx.reach(f"template.plugin.honoured.{c}")
                if key in listed:
                    ctx.reach("template.plugin.keys_listed_and_honoured")
    # ... and the plugin's own options resolve CLI > env > file > default like every other option (all source subsets, invalid values,
    # files without a value at the key; reach counters under plugin.*)
    pctx = _PluginCtx(ctx)
    for i in plugin_cmds:
        path, cmd = cmds[i]
        h = Harness(pctx, path, cmd, 0)
        for d in _options(cmd):
            if d.owner.__module__ != PLUGIN_MODULE:
                continue
            if ctx.out_of_time():
                ctx.reach("stopped.out_of_time")
                return
            OptionRun(h, d, f"{ctx.seed}/{h.cmdname}/{d.name}", 1).run()
            ctx.reach("template.plugin.options.precedence")
            for c in plugin_sections.get(d.name, []):
                ctx.reach(f"template.plugin.precedence.{c}")
    # accidental keys: options without a config section are looked up under the literal table name "None"
    probed = 0
    for i, (path, cmd) in enumerate(cmds):
        if probed >= (6 if ctx.tier == "quick" else 40):
            break
        for d in _options(cmd):
            if d.how == "config-field" and d.section is None and d.spec.cli_ok and not d.positional and d.spec.kind in ("int", "float", "str", "bool", "path"):
                r = probe(i, d.name, f"None.{d.name}")
                if r is None:
                    continue
                probed += 1
                ok, wit = r
                ctx.reach("template.none_table_probed")
                if ok:
                    ctx.violation(
                        "template/unlisted-key-honoured/section-None",
                        "an option without config section is configurable through the table [None], which --template does not list",
                        {**wit, "key": f"None.{d.name}"},
                    )
                break
    ctx.sample({"template_keys": len(listed), "honoured": len(honoured), "declared": len(declared_keys)}, force=True)


def run_shadow(ctx: Any, params: dict[str, Any]) -> None:
    """Every file key of the tree x every intermediate position x every form of 'something there that does not lead to the key',
    on `per_key` commands that declare the key; the option is first shown to take a genuine value from its key."""
    cmds = _commands()
    declared_keys: dict[str, list[tuple[int, str]]] = {}
    for i, (_, cmd) in enumerate(cmds):
        for d in _options(cmd):
            if d.file_key is not None and d.spec.cli_ok and not d.positional:
                declared_keys.setdefault(d.file_key, []).append((i, d.name))
    harnesses: dict[int, Harness] = {}
    for n, key in enumerate(sorted(declared_keys)):
        if n % params["parts"] != params["part"]:
            continue
        users = list(declared_keys[key])
        random.Random(f"C18/shadow/{ctx.seed}/{key}").shuffle(users)
        for i, name in users[: params["per_key"]]:
            if ctx.out_of_time():
                ctx.reach("stopped.out_of_time")
                return
            path, cmd = cmds[i]
            h = harnesses.setdefault(i, Harness(ctx, path, cmd, 0))
            orun = OptionRun(h, h.decls[name], f"{ctx.seed}/shadow/{h.cmdname}/{name}", 1)
            if "file" not in orun.sources:
                continue
            found = orun.find_plan()
            if found is None:
                ctx.reach("shadow.uncovered.no-plan")
                continue
            plan, base, fixed = found
            # a genuine value at the key: does this option take file values at all?  (judged like every valid case)
            present = {"file"}
            vals = orun.values(present, 0, plan, fixed)
            argv, env, toml_text = orun.build(plan, base, present, vals)
            out = h.parse(argv, env, toml_text)
            ctx.case((h.cmdname, name, S.combo_bits(present, orun.d.has_default), 0, "shadow-reference"))
            wit = lambda: orun.witness(present, argv, env, toml_text, vals["file"].expected, out, "valid")  # noqa: E731,B023
            orun.judge_valid(present, vals, out, wit, "valid")
            ctx.reach("shadow.options")
            orun.shadow_cases(plan, base, fixed, 0, exhaustive=True)


def run(ctx: Any, params: dict[str, Any]) -> None:
    if params["mode"] == "template":
        run_template(ctx)
    elif params["mode"] == "shadow":
        run_shadow(ctx, params)
    elif params["mode"] == "stored":
        run_stored(ctx, params)
    else:
        run_command(ctx, params)


def replay(ctx: Any, witness: dict[str, Any]) -> None:
    """Re-run every case of the witness's (command, option) with the recorded value seed."""
    if "command" not in witness or "option" not in witness:
        run_template(ctx)
        return
    if witness.get("variant") == "template-key":
        run_template(ctx)
        return
    if str(witness["command"]).split(" ")[0] == PLUGIN_ROOT:
        install_plugin(ctx)  # a command of the plugin that the template shard installs
    if witness.get("variant") == "stored-run":
        idx = [i for i, (path, _) in enumerate(_commands()) if " ".join(path) == witness["command"]]
        run_stored(ctx, {"mode": "stored", "env": witness["environment"], "part": 0, "parts": 1, "cases": max(STORED_CASES_THOROUGH, int(witness.get("stored_case", 0)) + 1), "indices": idx})
        return
    for path, cmd in _commands():
        if " ".join(path) == witness["command"]:
            h = Harness(ctx, path, cmd, 0)
            d = h.decls[witness["option"]]
            orun = OptionRun(h, d, witness.get("vseed", f"{ctx.seed}/{h.cmdname}/{d.name}"), 2)
            orun.run()
            if str(witness.get("variant", "")).startswith("shadow-") and (found := orun.find_plan()) is not None:
                orun.shadow_cases(found[0], found[1], found[2], 0, exhaustive=True)
            return
    raise RuntimeError(f"command {witness['command']!r} not in the command tree")


if __name__ == "__main__":
    import sys as _s

    if len(_s.argv) == 3 and _s.argv[1] == "--reload-child":
        reload_child(_s.argv[2])
    if len(_s.argv) == 4 and _s.argv[1] == "--stored-child":
        stored_child(_s.argv[2], _s.argv[3])
