"""C05 Concurrent users of one UDS client never interleave their exchanges (DESIGN.md section 3)."""

from __future__ import annotations

import asyncio
import random
from typing import Any

from vf import vtime

PROPERTY = "C05"
LEVEL = "exploration"
ENGINE = "vtime-memstream"
TECHNIQUE = (
    "recorded histories + offline checker: concurrent callers, the cyclic tester-present worker, reconnects and a task waiting for the "
    "ECU to come back (wait_for_ecu) share one real ECU "
    "client on a simulated wire in virtual time; every client call/return and transport write/read/reconnect is logged with the "
    "calling task; the checker decides exclusion (no foreign transport event inside an exchange window), reply ownership (every "
    "request of a history is unique and the simulated ECU's positive reply carries what ISO 14229-1 has the server echo for that "
    "service, so the reply handed to a caller must be byte for byte the one the ECU produces for its request; for replies without an identifier - refusals with a negative response code, byte-identical for different "
    "requests - the request attached to the returned reply object, read when the call returns and again after every later exchange "
    "ended, and the identity of the reply objects held by different callers) and progress after cancellation/failure (empty virtual "
    "schedule = never released)"
)
LEVEL_TEXT = (
    "Exploration of schedules: 2..5 callers + tester-present worker + occasional reconnect + occasionally a task in wait_for_ecu() "
    "(probing every 0.5 s, reconnecting after a connection error, itself cancelled inside a probe); the callers all read data "
    "identifiers or work on one job with related requests through the client's method for each service (seed / key of one or a "
    "neighbouring security level, upload / download / block transfer of one memory area, start / stop / results of one routine, "
    "read / write of one identifier, or a mix; also in raw form), with one caller's reply arriving after it gave up while a colleague "
    "is queued behind it; per-caller reply scripts {immediate, "
    "k x pending, no reply, late reply after the timeout, connection error, b x busyRepeatRequest then the reply to the retransmission, "
    "busyRepeatRequest on every attempt (retries run out), no reply to the first a transmissions then a reply, refusal with a negative "
    "response code from a small set so that different requests of one history get byte-identical replies (immediately or after k x "
    "pending)}, every caller keeps the reply objects it was handed until all callers ended, database logging that takes no time or "
    "some time (other exchanges run while a caller is still inside its call), retries allowed by the "
    "client setting or by the per-request configuration, other callers placed inside the back-off pause between two transmissions of "
    "one request, seeded arrival offsets and yield injection at the "
    "transport's await points, and cancellation of one caller at every transport event index of the uncancelled run (sampled in "
    "quick, enumerated in thorough). Each history is checked offline. Held = held on the recorded histories; the number of "
    "distinct interleavings is reported."
)
LEVEL_NOTE = (
    "Trusted: wire simulation and checker in vf/checks/c05.py, virtual clock. Requests are unique within a history and a positive "
    "reply repeats exactly the request parameters the protocol has the server echo (data identifier, sub-function, routine identifier, "
    "block counter; for upload/download only the service) - two requests that agree in all of them get byte-identical replies, which "
    "no client can tell apart and which are not held against it; negative finals (refusals, a busyRepeatRequest final once the retries have run out) carry no "
    "identifier: they are judged by the negative response code the simulated ECU planned for that request and by the request the "
    "returned reply object names (UDSResponse.trigger_request, compared by bytes with the caller's request). A negative reply that an "
    "abandoned exchange (cancelled caller) left on the wire and the next exchange reads cannot be told apart by any client and is not "
    "judged by its bytes. An exchange window spans all transmissions of one request: it opens at the task's "
    "first transport event and closes when the client hands the final reply or error back (database logging / return of the call)."
)
RULE = (
    "cases = (number of callers, service and parameters of every caller's requests, task waiting for the ECU (start, time limit), reply script per caller, per-request retry setting, arrival offsets, yield seed, tester-present "
    "interval, reconnect time, database logging time, cancellation point); non-trivial = at least two exchanges overlapped in time (a caller arrived while another held the client); "
    "distinct = distinct case tuples; distinct_traces = distinct (event kind, task) sequences"
)
ASSUMPTIONS = [
    "UDSClient._tester_present() is dead code (no caller) and is not driven",
    "yields are injected only at the transport's own await points (write/read/reconnect)",
]
EXHAUSTIVE = {"quick": False, "thorough": False}
EXHAUSTIVE_NOTE = "thorough enumerates every cancellation point (transport event index) of each base history"

KINDS = ["immediate", "pending", "silent", "late", "connerr", "busy", "busy-always", "flaky", "refused", "pending-refused"]
RETRY_KINDS = ("busy", "busy-always", "flaky")
REFUSED_KINDS = ("refused", "pending-refused")
# negative response codes of a refusal: few, so that different requests of one history are answered with byte-identical replies
NRCS = [0x31, 0x31, 0x31, 0x33, 0x22]


def shards(tier: str, seed: int) -> list[dict[str, Any]]:
    if tier == "quick":
        return [{"n": 600, "cancel": "sample", "part": i} for i in range(14)]
    return [{"n": 900, "cancel": "all", "part": i} for i in range(16)]


def required_reach(tier: str) -> dict[str, int]:
    return {"contention.during-pending": 5, "contention.during-retry": 3, "tp.inside-window-attempt": 5, "cancel.while-holding": 5,
            "cancel.while-waiting": 5, "late-reply-surfaced-as-error": 3, "histories": 500, "overlapping-histories": 200,
            "reconnect.contended": 3, "results.owned": 1000, "transport-mode.calls": 200, "cancel.during-db-insert": 20, "cancel.reconnector": 20,
            "db-logging.histories": 200, "raw-form.calls": 500, "plain-client.histories": 300,
            # one request transmitted more than once with a pause in between (busyRepeatRequest / no reply), others wanting the client
            "busy.retried-then-answered": 50, "busy.retries-exhausted": 30, "busy-backoff.caller-arrives": 30, "busy-backoff.caller-queued": 30,
            "busy-backoff.tp-worker-waiting": 5, "busy-backoff.reconnect-waiting": 3, "busy-backoff.second-pause-contended": 5,
            "timeout-backoff.caller-arrives": 20, "timeout-backoff.caller-queued": 20, "timeout-retry.answered": 30,
            "retry.per-request-config": 50, "retry.client-setting": 50,
            # different requests of one history answered with byte-identical replies (refusals without an identifier); every caller keeps
            # its reply object while later exchanges run / is still inside its call (database logging takes time) when the next one ends
            "refused.results-owned": 1000, "attribution.negative-replies-judged": 1000, "same-bytes.reply-held-across-later-exchange": 500,
            "same-bytes.exchange-ends-while-earlier-caller-logs": 30,
            # callers working on one job: an exchange reads the reply the ECU produced for a related request whose caller had given up
            "related-requests.histories": 3000, "results.owned/other-services": 3000,
            "stale-reply-read.seed-read-by-key-of-that-level": 50, "stale-reply-read.key-read-by-seed-of-that-level": 50,
            "stale-reply-read.upload-read-by-download": 50, "stale-reply-read.download-read-by-upload": 50,
            "stale-reply-read.same-service": 500, "stale-reply-read.same-service-other-sub-function": 250,
            "stale-reply-read.same-service-and-sub-function": 250, "stale-reply-read.other-service": 500,
            "stale-positive-reply.accepted-for-a-refused-request": 20,
            # one more kind of user: a task in wait_for_ecu() whose probe is due while a colleague's exchange is open
            "waiter.histories": 1000, "waiter.arrives-inside-exchange/caller": 500, "waiter.arrives-inside-long-exchange": 200,
            "cancel.waiter-inside-a-probe": 100}


class Wire:
    """the shared link + a trivially simple ECU: replies are planned per request bytes"""

    def __init__(self, plans: dict[bytes, list[tuple[Any, ...]]], rng: random.Random, hist: list[tuple[Any, ...]]):
        from gallia.transports.base import BaseTransport, TargetURI

        wire = self

        class WireTransport(BaseTransport, scheme="wire"):
            def __init__(self) -> None:
                super().__init__(TargetURI("tcp-lines://127.0.0.1:1"))

            # reconnect() is NOT overridden: the production BaseTransport.reconnect (close + connect under the transport mutex) runs
            @classmethod
            async def connect(cls, target: Any, timeout: float | None = None) -> Any:
                await wire.event("connect", None)
                return wire.transport

            async def close(self) -> None:
                await wire.event("close", None)

            async def write(self, data: bytes, timeout: float | None = None, tags: Any = None) -> int:
                await wire.event("write", bytes(data))
                wire.on_request(bytes(data))
                return len(data)

            async def read(self, timeout: float | None = None, tags: Any = None) -> bytes:
                try:
                    r = await wire.next_reply(timeout)
                except BaseException as e:
                    if not isinstance(e, asyncio.CancelledError):
                        await wire.event("read", type(e).__name__)
                    raise
                await wire.event("read", r)
                return r

        self.plans = plans
        self.rng = rng
        self.hist = hist
        self.queue: list[tuple[float, int, Any, bytes]] = []
        self.seq = 0
        self.arrived = asyncio.Event()
        self.nevents = 0
        self.cancel_at: int | None = None
        self.cancel_target: asyncio.Task[Any] | None = None
        self.sent: dict[bytes, int] = {}
        # negative replies that were produced for an earlier (abandoned) request and delivered inside a later request's exchange
        self.last_written: bytes | None = None
        self.stale_negative: list[tuple[str, bytes]] = []
        # positive replies produced for one request and delivered inside the exchange of another one: how the two requests are related
        self.stale_positive: list[str] = []
        self.client: Any = None  # the client under test (to recognise its tester-present worker)
        self.stale_positive_read: list[tuple[str, bytes]] = []
        self.transport = WireTransport()

    def who(self) -> str:
        t = asyncio.current_task()
        name = t.get_name() if t else "?"
        # a tester-present worker the client (re)started on its own (wait_for_ecu stops the worker and starts a new one) has no name yet
        if t is not None and name != "tp-worker" and t is getattr(self.client, "tester_present_task", None):
            t.set_name("tp-worker")
            return "tp-worker"
        return name

    async def event(self, kind: str, payload: Any) -> None:
        loop = asyncio.get_running_loop()
        self.hist.append((kind, self.who(), payload, loop.time()))
        self.nevents += 1
        if self.cancel_at is not None and self.nevents == self.cancel_at and self.cancel_target is not None:
            self.cancel_target.cancel()
        for _ in range(self.rng.choice([0, 0, 1, 2])):  # yield injection at an existing await point
            await asyncio.sleep(0)

    def on_request(self, data: bytes) -> None:
        loop = asyncio.get_running_loop()
        now = loop.time()
        self.last_written = data
        plan = self.plans.get(data)
        if isinstance(plan, dict):
            # one reply plan per transmission of this request, then "rest" for every further one
            self.sent[data] = self.sent.get(data, 0) + 1
            plan = plan["attempts"].pop(0) if plan["attempts"] else plan["rest"]
        if plan is None:
            if data[:1] == b"\x3e":
                plan = [(0.0, positive(data))]
            else:
                plan = []
        t = now
        for delay, reply in plan:
            t += delay
            self.seq += 1
            self.queue.append((t, self.seq, reply, data))
        # a plan that contains a one-shot connection error only fires once
        if any(r == "CONNERR" for _, r in plan):
            self.plans[data] = [(0.01, positive(data))]
        self.queue.sort()
        self.arrived.set()

    async def next_reply(self, timeout: float | None) -> bytes:
        loop = asyncio.get_running_loop()
        deadline = None if timeout is None else loop.time() + timeout
        while True:
            now = loop.time()
            if self.queue and self.queue[0][0] <= now + 1e-12:
                _, _, reply, origin = self.queue.pop(0)
                if reply == "CONNERR":
                    raise ConnectionResetError("wire: connection lost")
                if reply[:1] == b"\x7f" and reply[2:3] != b"\x78" and origin != self.last_written:
                    self.stale_negative.append((self.who(), reply))
                elif reply[:1] != b"\x7f" and self.last_written is not None and origin != self.last_written:
                    self.stale_positive.append(relation(origin, self.last_written))
                    self.stale_positive_read.append((self.who(), reply))
                return reply
            wait = None if deadline is None else max(0.0, deadline - now)
            if self.queue:
                until = self.queue[0][0] - now
                wait = until if wait is None else min(wait, until)
            if deadline is not None and now >= deadline - 1e-12 and not (self.queue and self.queue[0][0] <= now + 1e-12):
                raise TimeoutError("wire: no reply")
            self.arrived.clear()
            try:
                await asyncio.wait_for(self.arrived.wait(), wait)
            except TimeoutError:
                pass


def named_request(resp: Any) -> bytes | None:
    """the request a reply object says it answers (None: it names none)"""
    trig = getattr(resp, "trigger_request", None)
    return None if trig is None else bytes(trig.pdu)


def positive(req: bytes) -> bytes:
    """the simulated ECU's positive reply: the response service identifier, the request parameters ISO 14229-1 has the server echo,
    and data that depends on nothing else - so two requests get different replies exactly where the protocol tells them apart"""
    sid = req[0]
    if sid == 0x22:
        return bytes([0x62]) + req[1:3] + b"\xa5" + req[1:3]
    if sid == 0x2E:  # WriteDataByIdentifier: the identifier
        return bytes([0x6E]) + req[1:3]
    if sid == 0x27:  # SecurityAccess: the sub-function; a seed (per level) in reply to requestSeed, nothing more in reply to sendKey
        sub = req[1]
        return bytes([0x67, sub]) + (bytes([sub ^ 0x5A, sub, 0xC3, (sub * 3) & 0xFF]) if sub % 2 else b"")
    if sid == 0x34:  # RequestDownload / RequestUpload: nothing of the request, the server's block length
        return bytes([0x74, 0x20, 0x0A, 0x00])
    if sid == 0x35:
        return bytes([0x75, 0x20, 0x0F, 0xFF])
    if sid == 0x31:  # RoutineControl: the sub-function and the routine identifier
        return bytes([0x71]) + req[1:4]
    if sid == 0x36:  # TransferData: the block sequence counter
        return bytes([0x76, req[1]])
    if sid == 0x3E:
        return b"\x7e\x00"
    raise ValueError(req.hex())


def negative(req: bytes, code: int) -> bytes:
    return bytes([0x7F, req[0], code])


def is_busy(b: Any) -> bool:
    return isinstance(b, bytes) and len(b) == 3 and b[0] == 0x7F and b[2] == 0x21


def is_pending(b: Any) -> bool:
    return isinstance(b, bytes) and len(b) == 3 and b[0] == 0x7F and b[2] == 0x78


def relation(origin: bytes, reader: bytes) -> str:
    """how the request a reply was produced for and the request whose exchange reads it are related"""
    if origin[0] == 0x27 and reader[0] == 0x27:
        if origin[1] == reader[1]:
            return "same-service-and-sub-function"
        if (origin[1] + 1) // 2 == (reader[1] + 1) // 2:
            return "seed-read-by-key-of-that-level" if origin[1] % 2 else "key-read-by-seed-of-that-level"
        return "same-service-other-sub-function"
    if {origin[0], reader[0]} == {0x34, 0x35}:
        return "upload-read-by-download" if origin[0] == 0x35 else "download-read-by-upload"
    if origin[0] == reader[0]:
        if origin[0] == 0x31:
            return "same-service-and-sub-function" if origin[1] == reader[1] else "same-service-other-sub-function"
        return "same-service"
    return "other-service"


# the services the callers use: name -> request bytes from (parameter p, unique byte u, data identifier did)
SERVICES: dict[str, Any] = {
    "rdbi": lambda p, u, did: bytes([0x22]) + did.to_bytes(2, "big"),
    "wdbi": lambda p, u, did: bytes([0x2E]) + p.to_bytes(2, "big") + bytes([u]),
    "seed": lambda p, u, did: bytes([0x27, 2 * p - 1, u]),
    "key": lambda p, u, did: bytes([0x27, 2 * p, u, 0x5A]),
    "download": lambda p, u, did: bytes([0x34, 0x00, 0x22]) + p.to_bytes(2, "big") + bytes([0x01, u]),
    "upload": lambda p, u, did: bytes([0x35, 0x00, 0x22]) + p.to_bytes(2, "big") + bytes([0x01, u]),
    "start": lambda p, u, did: bytes([0x31, 0x01]) + p.to_bytes(2, "big") + bytes([u]),
    "stop": lambda p, u, did: bytes([0x31, 0x02]) + p.to_bytes(2, "big") + bytes([u]),
    "results": lambda p, u, did: bytes([0x31, 0x03]) + p.to_bytes(2, "big") + bytes([u]),
    "transfer": lambda p, u, did: bytes([0x36, p & 0xFF, u]),
}


def call_id(c: dict[str, Any], call: int) -> int:
    """identity of one call of one caller (for "rdbi" also the data identifier it reads)"""
    return int((c["did"] + call * 7) & 0xFFFF)


def request_of(c: dict[str, Any], call: int) -> bytes:
    """the request bytes of one call: unique within a history (a free request parameter carries a per-call byte where the service has one)"""
    return bytes(SERVICES[c.get("svc") or "rdbi"](c.get("p", 0), c.get("idx", 0) * 2 + call, call_id(c, call)))


async def invoke(ecu: Any, c: dict[str, Any], call: int, cfg: Any) -> Any:
    """the call through the client's method for that service"""
    svc, p, u, did = c.get("svc") or "rdbi", c.get("p", 0), c.get("idx", 0) * 2 + call, call_id(c, call)
    if svc == "rdbi":
        return await ecu.read_data_by_identifier(did, config=cfg)
    if svc == "wdbi":
        return await ecu.write_data_by_identifier(p, bytes([u]), config=cfg)
    if svc == "seed":
        return await ecu.security_access_request_seed(2 * p - 1, bytes([u]), config=cfg)
    if svc == "key":
        return await ecu.security_access_send_key(2 * p, bytes([u, 0x5A]), config=cfg)
    if svc == "download":
        return await ecu.request_download(p, 0x100 + u, address_and_length_format_identifier=0x22, config=cfg)
    if svc == "upload":
        return await ecu.request_upload(p, 0x100 + u, address_and_length_format_identifier=0x22, config=cfg)
    if svc == "start":
        return await ecu.routine_control_start_routine(p, bytes([u]), config=cfg)
    if svc == "stop":
        return await ecu.routine_control_stop_routine(p, bytes([u]), config=cfg)
    if svc == "results":
        return await ecu.routine_control_request_routine_results(p, bytes([u]), config=cfg)
    if svc == "transfer":
        return await ecu.transfer_data(p & 0xFF, bytes([u]), config=cfg)
    raise ValueError(svc)


def build_case(rng: random.Random) -> dict[str, Any]:
    n = rng.randint(2, 5)
    callers = []
    for i in range(n):
        kind = rng.choices(KINDS, weights=[4, 4, 2, 3, 2, 3, 1, 2, 4, 2])[0]
        callers.append({"did": 0x1000 + i * 0x111 + rng.randrange(0x100), "kind": kind, "k": rng.randint(1, 4), "start": rng.choice([0.0, 0.0, 0.01, 0.2, 0.9, 1.1, rng.random() * 3]),
                        "calls": rng.choice([1, 1, 2]),
                        # busy: the first b transmissions are answered with busyRepeatRequest; flaky: the first a transmissions get no reply
                        "b": rng.randint(1, 3), "a": rng.randint(1, 2), "nrc": rng.choice(NRCS),
                        # retries allowed for this caller's requests by the per-request configuration (None: the client's setting applies)
                        "retry": rng.choice([None, None, 0, 1, 2, 3]) if kind not in RETRY_KINDS else rng.choice([None, 1, 2, 3])})
    case = {"callers": callers, "timeout": rng.choice([0.5, 1.0]), "max_retry": rng.choice([0, 0, 1, 2]), "tp": rng.choice([None, 0.3, 1.0, 2.0]),
            "reconnect_at": rng.choice([None, None, 0.05, 0.6, 1.5]), "yield_seed": rng.randrange(1 << 30), "mode": "client",
            # reconnect(timeout=t): t bounds the reconnect itself; a reconnect queued behind a long exchange must not disturb it
            "reconnect_timeout": rng.choice([None, None, 0.1, 0.4, 2]),
            # callers may use the raw request form (send_raw), which must be matched against its own reply just as strictly
            "raw": rng.random() < 0.35,
            # a plain UDSClient (no ECU layer, hence no tester-present worker and no database logging) has its own locked request path
            "plain_client": rng.random() < 0.2,
            # a database handler whose insert is a suspension point (as the real queue put / a full queue is): logging happens after the
            # exchange, outside the client mutex
            "db": rng.random() < 0.4,
            # ... and takes no time or some time: the caller is still inside its call while the next exchanges run
            "db_delay": rng.choice([0, 0, 0.02, 0.3, 1.0])}
    # usage class: another user of the client arrives (or is already queued) while a request that will be transmitted again is in the
    # pause between two of its transmissions
    for x in callers:
        allowed = x["retry"] if x["retry"] is not None else case["max_retry"]
        if x["kind"] not in RETRY_KINDS or allowed == 0 or len(callers) < 2 or rng.random() < 0.25:
            continue
        lead = case["timeout"] if x["kind"] == "flaky" else 0.01
        npauses = min(allowed, {"busy": x["b"], "flaky": x["a"]}.get(x["kind"], allowed))
        j = rng.randrange(npauses)
        before = sum(lead + 0.2 * 2**i for i in range(j))
        y = rng.choice([c for c in callers if c is not x])
        y["start"] = rng.choice([x["start"], x["start"] + before + lead + rng.random() * 0.2 * 2**j])
    if rng.random() < 0.25:
        # the transport's own request() (write+read under the transport mutex), used by scanners that bypass the UDS client
        case.update({"mode": "transport", "tp": None, "max_retry": 0})
        for c in callers:
            c["timeout"] = rng.choice([0.05, 0.2, 0.5, 1.0])
            c["calls"] = 1
    vary_usage(case, random.Random(case["yield_seed"] ^ 0x5EED7))
    return case


THEMES: dict[str, list[str]] = {"security": ["seed", "key"], "transfer": ["download", "upload", "download", "upload", "transfer"],
                                "routine": ["start", "stop", "results"], "identifier": ["rdbi", "wdbi"]}


def vary_usage(case: dict[str, Any], r2: random.Random) -> None:
    """further usage dimensions, drawn from a generator of their own (the dimensions above keep their distribution):
    - which service every caller uses: all callers read data identifiers, or they work on one job with related requests - the same
      service with the same / a neighbouring sub-function or parameter (seed and key of one security level, start / stop / results
      of one routine, neighbouring block counters), sibling services (upload / download of one memory area, read / write of one
      identifier) - or anything of that mixed;
    - one more kind of user of the client: a task that waits for the ECU to come back (ECU.wait_for_ecu) while the others go on"""
    callers = case["callers"]
    for i, c in enumerate(callers):
        c["idx"] = i
    theme = r2.choice([None, None, None, "security", "security", "transfer", "transfer", "routine", "identifier", "mixed", "mixed"])
    case["theme"] = theme
    if theme is not None:
        base = {"security": r2.randint(1, 0x20), "transfer": r2.randrange(0x1000, 0xF000), "routine": r2.randrange(0x0200, 0xFF00), "block": r2.randrange(1, 0xF0)}
        for c in callers:
            th = theme if theme != "mixed" else r2.choice(sorted(THEMES))
            c["svc"] = r2.choice(THEMES[th])
            if c["svc"] == "transfer":
                c["p"] = base["block"] + r2.choice([0, 0, 1])
            elif c["svc"] == "wdbi":
                c["p"] = call_id(r2.choice(callers), 0)
            elif c["svc"] != "rdbi":
                c["p"] = base[th] + r2.choice([0, 0, 0, 1])
        if len(callers) >= 2 and r2.random() < 0.5:
            # one caller's reply comes after it has given up while a colleague is queued behind it or arrives just then
            a, b = r2.sample(callers, 2)
            a.update({"kind": "late", "retry": 0})
            b["start"] = a["start"] + r2.choice([0.0, 0.01, case["timeout"] * r2.random(), case["timeout"] + 0.04 * r2.random()])
    if case["mode"] == "client" and not case["plain_client"] and r2.random() < 0.3:
        # wait_for_ecu(timeout): probes every 0.5 s until one probe is answered or the time is up
        case["waiter"] = {"start": r2.choice([0.0, 0.01, 0.2, 0.5, 1.0, 2 * r2.random()]), "timeout": r2.choice([0.6, 0.9, 2, 10])}


def plans_for(case: dict[str, Any]) -> dict[bytes, list[tuple[Any, ...]]]:
    plans: dict[bytes, list[tuple[Any, ...]]] = {}
    to = case["timeout"]
    for c in case["callers"]:
        for call in range(c["calls"]):
            req = request_of(c, call)
            assert req not in plans, "requests of one history are unique"
            pend = negative(req, 0x78)
            busy = negative(req, 0x21)
            if c["kind"] == "immediate":
                plans[req] = [(0.01, positive(req))]
            elif c["kind"] == "pending":
                plans[req] = [(0.05, pend)] + [(0.3, pend)] * (c["k"] - 1) + [(0.3, positive(req))]
            elif c["kind"] == "silent":
                plans[req] = []
            elif c["kind"] == "late":
                plans[req] = [(to + 0.05 * c["k"], positive(req))]
            elif c["kind"] == "connerr":
                plans[req] = [(0.02, "CONNERR")]
            elif c["kind"] == "busy":
                plans[req] = {"attempts": [[(0.01, busy)] for _ in range(c.get("b", 1))], "rest": [(0.01, positive(req))]}  # type: ignore[assignment]
            elif c["kind"] == "busy-always":
                plans[req] = {"attempts": [], "rest": [(0.01, busy)]}  # type: ignore[assignment]
            elif c["kind"] == "refused":
                plans[req] = [(0.01, negative(req, c["nrc"]))]
            elif c["kind"] == "pending-refused":
                plans[req] = [(0.05, pend)] + [(0.3, pend)] * (c["k"] - 1) + [(0.3, negative(req, c["nrc"]))]
            elif c["kind"] == "flaky":
                plans[req] = {"attempts": [[] for _ in range(c.get("a", 1))], "rest": [(0.01, positive(req))]}  # type: ignore[assignment]
    return plans


async def run_history(case: dict[str, Any], cancel_at: int | None, cancel_idx: int) -> dict[str, Any]:
    from gallia.services.uds.core.client import UDSRequestConfig
    from gallia.services.uds.ecu import ECU

    hist: list[tuple[Any, ...]] = []
    wire = Wire(plans_for(case), random.Random(case["yield_seed"]), hist)
    if case.get("plain_client") and case.get("mode") != "transport":
        from gallia.services.uds.core.client import UDSClient

        ecu = UDSClient(wire.transport, timeout=case["timeout"], max_retry=case["max_retry"])  # type: ignore[assignment]
        case = {**case, "tp": None, "db": False}
    else:
        ecu = ECU(wire.transport, timeout=case["timeout"], max_retry=case["max_retry"])
    wire.client = ecu
    if case.get("db"):

        class _DB:
            async def insert_scan_result(self, *a: Any, **k: Any) -> None:
                await wire.event("db-insert", None)
                await asyncio.sleep(case.get("db_delay") or 0)  # always a suspension point (the real handler awaits its queue)

        ecu.db_handler = _DB()  # type: ignore[assignment]
        ctx_reach_db = True
    else:
        ctx_reach_db = False
    loop = asyncio.get_running_loop()
    results: dict[str, list[Any]] = {}
    held: list[dict[str, Any]] = []  # every reply object a caller was handed is kept (as a scanner keeps its findings) until all ended
    ctx_reach: list[str] = ["db-logging.histories"] if ctx_reach_db else []
    if not isinstance(ecu, ECU):
        ctx_reach.append("plain-client.histories")

    class _R:
        def __init__(self, pdu: bytes):
            self.pdu = pdu

    async def caller(i: int, c: dict[str, Any]) -> None:
        name = f"caller{i}"
        await asyncio.sleep(c["start"])
        cfg = UDSRequestConfig(max_retry=c["retry"]) if c.get("retry") is not None else None
        for call in range(c["calls"]):
            did = call_id(c, call)
            hist.append(("call", name, did, loop.time()))
            try:
                if case.get("mode") == "transport":
                    r = _R(await wire.transport.request(request_of(c, call), timeout=c.get("timeout", case["timeout"])))
                    ctx_reach.append("transport-mode.calls")
                elif case.get("raw"):
                    r = await ecu.send_raw(request_of(c, call), config=cfg)
                    ctx_reach.append("raw-form.calls")
                else:
                    r = await invoke(ecu, c, call, cfg)
                hist.append(("return", name, ("ok", r.pdu), loop.time()))
                results.setdefault(name, []).append(("ok", did, r.pdu))
                if case.get("mode") != "transport":
                    held.append({"caller": name, "did": did, "resp": r, "ret": len(hist) - 1, "at_return": named_request(r)})
            except asyncio.CancelledError:
                hist.append(("return", name, ("cancelled", None), loop.time()))
                raise
            except Exception as e:
                hist.append(("return", name, ("exc", type(e).__name__), loop.time()))
                results.setdefault(name, []).append(("exc", did, type(e).__name__))

    async def reconnector(at: float) -> None:
        await asyncio.sleep(at)
        hist.append(("call", "reconnector", None, loop.time()))
        try:
            if case.get("mode") == "transport":
                await wire.transport.reconnect()
            else:
                await ecu.reconnect(case.get("reconnect_timeout"))
            hist.append(("return", "reconnector", ("ok", None), loop.time()))
        except asyncio.CancelledError:
            hist.append(("return", "reconnector", ("cancelled", None), loop.time()))
            raise
        except Exception as e:
            hist.append(("return", "reconnector", ("exc", type(e).__name__), loop.time()))

    waited: list[Any] = []

    async def waiter(wc: dict[str, Any]) -> None:
        # a scanner that waits for the ECU to come back (after a reset, a power cycle, leaving a session) while its colleagues go on;
        # the probes it sends are calls of ecu.ping() and the reconnects it does are calls of ecu.reconnect(): both are recorded below
        await asyncio.sleep(wc["start"])
        waited.append(await ecu.wait_for_ecu(wc["timeout"]))

    orig_reconnect = ecu.reconnect

    async def reconnect(timeout: Any = None) -> None:
        name = wire.who()
        if name == "reconnector":
            return await orig_reconnect(timeout)  # records its call itself
        hist.append(("call", name, None, loop.time()))
        try:
            await orig_reconnect(timeout)
            hist.append(("return", name, ("ok", None), loop.time()))
        except asyncio.CancelledError:
            hist.append(("return", name, ("cancelled", None), loop.time()))
            raise
        except Exception as e:
            hist.append(("return", name, ("exc", type(e).__name__), loop.time()))
            raise

    ecu.reconnect = reconnect  # type: ignore[method-assign]
    # the tester-present worker calls self.ping(): record call/return at that client boundary as well
    orig_ping = getattr(ecu, "ping", None)

    async def ping(config: Any = None) -> Any:
        name = wire.who()
        hist.append(("call", name, "ping", loop.time()))
        try:
            r = await orig_ping(config)
            hist.append(("return", name, ("ok", r.pdu), loop.time()))
            return r
        except asyncio.CancelledError:
            hist.append(("return", name, ("cancelled", None), loop.time()))
            raise
        except Exception as e:
            hist.append(("return", name, ("exc", type(e).__name__), loop.time()))
            raise

    if orig_ping is not None:
        ecu.ping = ping  # type: ignore[method-assign]
    tasks = [asyncio.create_task(caller(i, c), name=f"caller{i}") for i, c in enumerate(case["callers"])]
    # who can be cancelled: caller i at index i, then the reconnector, then the task that waits for the ECU
    targets: list[Any] = list(tasks) + [None, None]
    if case["reconnect_at"] is not None:
        tasks.append(asyncio.create_task(reconnector(case["reconnect_at"]), name="reconnector"))
        targets[-2] = tasks[-1]
    if case.get("waiter") is not None:
        tasks.append(asyncio.create_task(waiter(case["waiter"]), name="waiter"))
        targets[-1] = tasks[-1]
        ctx_reach.append("waiter.histories")
    if case["tp"] is not None:
        await ecu.start_cyclic_tester_present(case["tp"])
        assert ecu.tester_present_task is not None
        ecu.tester_present_task.set_name("tp-worker")
    if cancel_at is not None:
        wire.cancel_at = cancel_at
        wire.cancel_target = targets[cancel_idx]
    done = await asyncio.gather(*tasks, return_exceptions=True)
    end = loop.time()
    if case["tp"] is not None and ecu.tester_present_task is not None:
        await ecu.stop_cyclic_tester_present()
    objs: dict[int, int] = {}
    for h in held:
        r = h.pop("resp")
        h.update({"at_end": named_request(r), "obj": objs.setdefault(id(r), len(objs)), "pdu": bytes(r.pdu)})
    return {"held": held, "stale_negative": wire.stale_negative, "stale_positive": wire.stale_positive, "stale_positive_read": wire.stale_positive_read, "waited": waited, "hist": hist, "results": results, "end": end, "reach": ctx_reach, "transport_mutex_locked": wire.transport.mutex.locked(), "gather": [type(d).__name__ if isinstance(d, BaseException) else None for d in done], "mutex_locked": ecu.mutex.locked()}


def check_history(ctx: Any, case: dict[str, Any], out: dict[str, Any], cancel: tuple[int, int] | None) -> None:
    hist = out["hist"]
    w = {"case": case, "cancel": cancel, "history": [(h[0], h[1], h[2] if not isinstance(h[2], tuple) else list(h[2]), round(h[3], 3)) for h in hist][:80]}
    ctx.reach("histories")
    for r in out.get("reach", []):
        ctx.reach(r)
    for r in out.get("stale_positive", []):
        # an exchange read a (positive) reply the ECU had produced for another request: r says how the two requests are related
        ctx.reach("stale-reply-read." + r)
    if case.get("theme"):
        ctx.reach("related-requests.histories")
    ctx.trace(tuple((h[0], h[1]) for h in hist))
    if out.get("transport_mutex_locked"):
        ctx.violation("progress/transport-left-locked", "after all callers ended the transport mutex is still held", w)
    # ---- exchange windows: from a task's write to that task's return
    open_call: dict[str, int] = {}  # task -> index of call event
    window_owner: str | None = None
    first_write: dict[str, int] = {}
    overlapped = False
    pending_seen_in_window = False
    retry_in_window = False
    for i, (kind, task, payload, t) in enumerate(hist):
        if kind == "call":
            open_call[task] = i
            if window_owner is not None and window_owner != task:
                overlapped = True
                if pending_seen_in_window:
                    ctx.reach("contention.during-pending")
                if retry_in_window:
                    ctx.reach("contention.during-retry")
                if task == "reconnector":
                    ctx.reach("reconnect.contended")
                if task == "waiter":
                    # the waiting task wants to probe (or reconnect) while a colleague's exchange is open
                    ctx.reach("waiter.arrives-inside-exchange/" + ("tp-worker" if window_owner == "tp-worker" else "reconnector" if window_owner == "reconnector" else "caller"))
                    if pending_seen_in_window or retry_in_window:
                        ctx.reach("waiter.arrives-inside-long-exchange")
        elif kind in ("write", "read", "close", "connect"):
            owner = task
            if window_owner is None:
                if kind in ("write", "close", "connect"):
                    window_owner = owner
                    pending_seen_in_window = False
                    retry_in_window = False
                # a read outside any window can only happen if a task reads without having written
                elif owner not in first_write:
                    ctx.violation("exclusion/read-without-own-write", "a task reads from the transport outside an exchange of its own", {**w, "index": i})
                    return
            elif owner != window_owner:
                ctx.violation(f"exclusion/foreign-{'reconnect' if kind in ('close', 'connect') else kind}-inside-exchange/{'tp-worker' if 'tp' in (owner, window_owner) or owner == 'tp-worker' or window_owner == 'tp-worker' else 'reconnector' if 'reconnector' in (owner, window_owner) else 'callers'}",
                              f"{owner} performs a transport {kind} while {window_owner}'s exchange is still open", {**w, "index": i})
                return
            if kind == "write":
                if owner in first_write and first_write[owner] >= open_call.get(owner, -1) and window_owner == owner:
                    retry_in_window = True
                first_write[owner] = i
            if kind == "read" and is_pending(payload):
                pending_seen_in_window = True
            if owner == "tp-worker" and kind == "write" and any(tk != "tp-worker" for tk in open_call):
                pass
        elif kind == "db-insert":
            # the final reply (or error) has been handed to the ECU layer: the exchange is over, logging runs outside the client mutex
            if window_owner == task:
                window_owner = None
            ctx.reach("db-insert.events")
        elif kind == "return":
            if window_owner == task:
                window_owner = None
            open_call.pop(task, None)
    # tp-worker attempts inside somebody's window: it called while a window was open
    tp_waited = any(h[0] == "write" and h[1] == "tp-worker" for h in hist) and overlapped
    if tp_waited:
        ctx.reach("tp.inside-window-attempt")
    if overlapped:
        ctx.reach("overlapping-histories")
    ctx.case((repr(case), cancel), nontrivial=overlapped)
    # ---- ownership of results
    own: dict[str, set[int]] = {}
    for i, c in enumerate(case["callers"]):
        own[f"caller{i}"] = {call_id(c, k) for k in range(c["calls"])}
    reqs: dict[int, bytes] = {call_id(c, k): request_of(c, k) for c in case["callers"] for k in range(c["calls"])}  # call -> its request
    refusal: dict[int, bytes] = {}  # the negative reply the simulated ECU gives to this request
    for c in case["callers"]:
        if c["kind"] in REFUSED_KINDS:
            refusal.update({call_id(c, k): negative(request_of(c, k), c["nrc"]) for k in range(c["calls"])})
    stale = set(out.get("stale_negative", []))
    stale_pos = set(out.get("stale_positive_read", []))
    for name, res in out["results"].items():
        for status, did, val in res:
            if case.get("mode") == "transport":
                continue  # raw bytes: a late reply of an earlier timed-out exchange may legitimately be read here; only exclusion is decided
            if status == "ok" and val == negative(reqs[did], 0x21):
                continue  # a busy final carries no identifier and no request-specific code: judged by the request its object names (below)
            if status == "ok" and val[:1] == b"\x7f" and (name, val) in stale:
                # a negative reply an abandoned exchange (cancelled caller) left on the wire: no client can tell it from its own
                ctx.reach("stale-negative-reply.accepted")
                continue
            if status == "ok" and did in refusal and val == positive(reqs[did]) and (name, val) in stale_pos:
                # a reply to an earlier request (its caller gave up) that has every parameter the protocol echoes in common with this
                # one: byte for byte what the ECU would have sent had it accepted this request - no client can tell it from its own
                ctx.reach("stale-positive-reply.accepted-for-a-refused-request")
                continue
            if status == "ok" and did in refusal:
                if val != refusal[did]:
                    ctx.violation("ownership/foreign-reply-returned", "a caller received a reply that belongs to another request", {**w, "caller": name, "did": did, "got": val})
                    return
                ctx.reach("refused.results-owned")
            elif status == "ok":
                if val != positive(reqs[did]):
                    ctx.violation("ownership/foreign-reply-returned", "a caller received a reply that belongs to another request", {**w, "caller": name, "did": did, "got": val})
                    return
                ctx.reach("results.owned")
                if reqs[did][0] != 0x22:
                    ctx.reach("results.owned/other-services")
            elif val == "RequestResponseMismatch":
                ctx.reach("late-reply-surfaced-as-error")
    for h in out.get("held", []):
        h["req"] = reqs[h["did"]]
    if check_attribution(ctx, w, hist, out.get("held", [])):
        return
    reach_backoff(ctx, case, hist)
    # ---- progress
    if out["mutex_locked"]:
        ctx.violation("progress/client-left-locked", "after all callers ended the client mutex is still held", w)
    n_calls = sum(c["calls"] for c in case["callers"])
    bound = 5.0 + (n_calls + 30) * (case["max_retry"] + 1) * (case["timeout"] + 121 * 0.5 + 21 + 2)
    if out["end"] > bound:
        ctx.violation("progress/too-slow", "callers needed more virtual time than the per-request bounds allow", {**w, "end": out["end"], "bound": bound})
    if cancel is not None:
        # where was the cancelled task?
        tgt = f"caller{cancel[1]}" if cancel[1] < len(case["callers"]) else "reconnector" if cancel[1] == len(case["callers"]) else "waiter"
        held = False
        cur: str | None = None
        n = 0
        for kind, task, payload, t in hist:
            if kind in ("write", "read", "close", "connect", "db-insert"):
                n += 1
                if kind == "db-insert":
                    if n == cancel[0] and task == tgt:
                        ctx.reach("cancel.during-db-insert")
                    if cur == task:
                        cur = None
                if kind in ("write", "close", "connect") and cur is None:
                    cur = task
                if n == cancel[0]:
                    held = cur == tgt
                    break
            elif kind == "return" and cur == task:
                cur = None
        was_cancelled = any(h[0] == "return" and h[1] == tgt and h[2][0] == "cancelled" for h in hist)
        if was_cancelled:
            ctx.reach("cancel.while-holding" if held else "cancel.while-waiting")
            if tgt == "reconnector":
                ctx.reach("cancel.reconnector")
            if tgt == "waiter":
                ctx.reach("cancel.waiter-inside-a-probe")


def check_attribution(ctx: Any, w: dict[str, Any], hist: list[tuple[Any, ...]], held: list[dict[str, Any]]) -> bool:
    """every reply object handed to a caller names the request it answers; that must be the caller's own request when the call returns
    and still when all later exchanges have ended (the caller keeps its reply), and callers of different requests never hold one
    and the same reply object. Decisive for replies whose bytes carry no identifier (refusals, busy finals)."""
    show = [{**h, "at_return": h["at_return"] and h["at_return"].hex(), "at_end": h["at_end"] and h["at_end"].hex(), "pdu": h["pdu"].hex(), "req": h["req"].hex()} for h in held]
    by_obj: dict[int, set[int]] = {}
    for h in held:
        req = h["req"]
        by_obj.setdefault(h["obj"], set()).add(h["did"])
        if h["at_return"] is None or h["at_end"] is None:
            continue  # the statement does not demand that a reply names its request
        ctx.reach("attribution.replies-judged")
        if h["pdu"][:1] == b"\x7f":
            ctx.reach("attribution.negative-replies-judged")
        for when, key in (("at_return", "when-the-call-returned"), ("at_end", "after-a-later-exchange")):
            if h[when] != req:
                ctx.violation(f"ownership/reply-names-foreign-request/{key}", f"{h['caller']} asked for {req.hex()} and holds a reply that says it answers {h[when].hex()}",
                              {**w, "held": show, "caller": h["caller"], "did": h["did"]})
                return True
    if any(len(dids) > 1 for dids in by_obj.values()):
        ctx.violation("ownership/one-reply-object-for-two-requests", "callers of different requests were handed one and the same reply object", {**w, "held": show})
        return True
    # reach: different requests answered with byte-identical replies, the earlier reply still held / its caller still inside its call
    for a in held:
        i_db = None
        for j in range(a["ret"] - 1, -1, -1):
            if hist[j][1] == a["caller"] and hist[j][0] in ("db-insert", "call"):
                i_db = j if hist[j][0] == "db-insert" else None
                break
        for b in held:
            if b["did"] == a["did"] or b["pdu"] != a["pdu"] or b["ret"] < a["ret"]:
                continue
            ctx.reach("same-bytes.reply-held-across-later-exchange")
            if i_db is not None and any(hist[j][0] == "read" and hist[j][1] == b["caller"] and hist[j][2] == b["pdu"] for j in range(i_db + 1, a["ret"])):
                ctx.reach("same-bytes.exchange-ends-while-earlier-caller-logs")
    return False


def reach_backoff(ctx: Any, case: dict[str, Any], hist: list[tuple[Any, ...]]) -> None:
    """reach only (no verdict): pauses between two transmissions of one request (after busyRepeatRequest / after no reply) and who
    wanted the client meanwhile. Runs on histories the exclusion oracle has accepted."""
    spans: dict[str, list[list[int]]] = {}
    for i, (kind, task, payload, t) in enumerate(hist):
        if kind == "call":
            spans.setdefault(task, []).append([i, len(hist)])
        elif kind == "return" and spans.get(task):
            spans[task][-1][1] = i
    owner: str | None = None
    last: tuple[int, str, Any] | None = None  # the owner's latest transport event in this window
    pauses: list[str] = []
    closed: dict[str, tuple[list[str], Any]] = {}  # window closed by the database insert, the call returns later
    for i, (kind, task, payload, t) in enumerate(hist):
        if kind in ("write", "read", "close", "connect"):
            if owner is None and kind != "read":
                owner, last, pauses = task, None, []
            if task != owner:
                continue
            if kind == "write" and last is not None and last[1] == "read" and (is_busy(last[2]) or last[2] == "TimeoutError"):
                pk = "busy-backoff" if is_busy(last[2]) else "timeout-backoff"
                pauses.append(pk)
                contended = False
                for other, sp in spans.items():
                    if other == owner:
                        continue
                    for c0, c1 in sp:
                        if c0 < i < c1:
                            contended = True
                            if other == "tp-worker":
                                ctx.reach(f"{pk}.tp-worker-waiting")
                            elif other == "reconnector":
                                ctx.reach(f"{pk}.reconnect-waiting")
                            else:
                                ctx.reach(f"{pk}.caller-arrives" if c0 > last[0] else f"{pk}.caller-queued")
                if contended and len(pauses) >= 2:
                    ctx.reach(f"{pk}.second-pause-contended")
                if owner.startswith("caller"):
                    c = case["callers"][int(owner[6:])]
                    ctx.reach("retry.per-request-config" if c.get("retry") is not None else "retry.client-setting")
            last = (i, kind, payload)
        elif kind == "db-insert" and task == owner:
            closed[task] = (pauses, last)
            owner = None
        elif kind == "return":
            w_pauses, w_last = closed.pop(task, (pauses, last) if task == owner else ([], None))
            if task == owner:
                owner = None
            if isinstance(payload, tuple) and payload[0] == "ok" and payload[1] is not None:
                if is_busy(payload[1]) and w_last is not None and is_busy(w_last[2]):
                    ctx.reach("busy.retries-exhausted")
                elif not is_busy(payload[1]) and "busy-backoff" in w_pauses:
                    ctx.reach("busy.retried-then-answered")
                if not is_busy(payload[1]) and "timeout-backoff" in w_pauses:
                    ctx.reach("timeout-retry.answered")


def one(ctx: Any, case: dict[str, Any], cancel: tuple[int, int] | None) -> dict[str, Any] | None:
    try:
        out = vtime.run(run_history(case, cancel[0] if cancel else None, cancel[1] if cancel else 0))
    except vtime.Deadlock:
        ctx.violation("progress/blocked-forever" + ("/after-cancellation" if cancel else ""), "some caller can never complete: the client was not released (empty virtual schedule)", {"case": case, "cancel": cancel})
        return None
    check_history(ctx, case, out, cancel)
    return out


def run(ctx: Any, params: dict[str, Any]) -> None:
    import gallia.command  # noqa: F401

    vtime.quiet_logging()
    rng = ctx.rng
    for i in range(params["n"]):
        case = build_case(rng)
        out = one(ctx, case, None)
        if out is None:
            continue
        if i % 50 == 0:
            ctx.sample({"case": case, "events": len(out["hist"])})
        nev = sum(1 for h in out["hist"] if h[0] in ("write", "read", "close", "connect", "db-insert"))
        ks = list(range(1, nev + 1))
        if params["cancel"] == "sample":
            ks = rng.sample(ks, min(len(ks), 4))
        for k in ks:
            tgt = rng.randrange(len(case["callers"]) + (1 if case["reconnect_at"] is not None and rng.random() < 0.5 else 0))
            one(ctx, case, (k, tgt))
        if case.get("waiter") is not None:
            # the task that waits for the ECU is cancelled while it is inside a probe or a reconnect (queued for the client or holding it)
            inside, n, depth = [], 0, 0
            for h in out["hist"]:
                if h[1] == "waiter" and h[0] in ("call", "return"):
                    depth = 1 if h[0] == "call" else 0
                if h[0] in ("write", "read", "close", "connect", "db-insert"):
                    n += 1
                    if depth:
                        inside.append(n)
            r3 = random.Random(case["yield_seed"] ^ 0xCA9CE1)
            for k in r3.sample(inside, min(len(inside), 1 if params["cancel"] == "sample" else 6)):
                one(ctx, case, (k, len(case["callers"]) + 1))
        if ctx.out_of_time():
            break


def replay(ctx: Any, witness: dict[str, Any]) -> None:
    import gallia.command  # noqa: F401

    vtime.quiet_logging()
    c = witness.get("cancel")
    one(ctx, witness["case"], tuple(c) if c else None)
