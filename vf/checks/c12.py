"""C12 A database-backed virtual ECU replays the recorded ECU's answers (DESIGN.md section 3)."""

from __future__ import annotations

import asyncio
import random
import time
import zlib
from pathlib import Path
from typing import Any

from vf import dbharness as dh
from vf import iso14229 as iso
from vf.models import vecu

PROPERTY = "C12"
LEVEL = "exploration"
ENGINE = "ecu-groundtruth"
TECHNIQUE = (
    "record/replay differential monitor: a real ECU client (gallia's ECU class or a vendor subclass of it with one more state attribute) with a real DBHandler "
    "records request histories against ECU models (real RandomUDSServer in-process, scripted ECUs; some of them ignore the suppress bit, some keep more than the session byte under 0xF186) while the transport logs the raw reply bytes; the real DBUDSServer built from that database "
    "as commands/script/vecu.py builds it is then fed the same requests through UDSServerTransport.handle_request and compared reply by "
    "reply and state by state with the recording"
)
LEVEL_TEXT = (
    "Exploration: generated histories of 5..60 requests (session changes, seed/key pairs with fresh seeds - the sendKey request mostly with the right key, now and then with one byte too many "
    "or with no key bytes at all (length probing), which about 40 % of the scripted ECUs accept for one to three of their levels (levels whose key is empty) and every other ECU refuses -, resets, reads/writes/routines, "
    "tester present, DTC services, suppressed requests, arbitrary bytes; the active session is read with 22 F186 alone or in one ReadDataByIdentifier together with other identifiers, "
    "first, between or last) against RandomUDSServer models (seeds x parameter sets) and "
    "scripted ECUs (spontaneous session fallback, malformed, mismatching and missing replies; they answer a read of several identifiers with the records of those they would answer singly, "
    "and about 40 % of them keep a longer record under 0xF186: session byte, security level, 0..2 further bytes - so that the session number both sides derive from a session read has up to 8 bytes; a directed family of a few databases per run has session reads with 8..16 bytes behind 0xF186, "
    "followed by two or more requests recorded in that state); of every kind of ECU some ignore the suppressPosRspMsgIndicationBit for some or all "
    "services and send the positive reply all the same (such requests are then also asked outside the default state and for session changes / resets / keys); about a third of the "
    "recordings is made by a vendor subclass of ECU (as load_ecu hands out) that tracks session and security level as the stock class does and keeps one more attribute in its state "
    "object (logged before or after the other two; constant or changing with the writes / routines of the history); databases with one recording (no selector, "
    "name, properties) and with two or three recordings written one after the other or interleaved (each by a DBHandler / run_meta of its own: different "
    "target urls; the same url recorded twice; one ECU name referenced by two or three address rows - the same ECU recorded over two urls, or further addresses of a recorded ECU that a "
    "discovery run found before or after the recordings and nobody recorded over - so that the replayed sequence belongs to the first, a middle or the last address row of its name; address rows left by a discovery run and labelled with ECU names before the recordings start, "
    "plus addresses of ECUs never recorded), selected by ECU name (always when the file holds several recordings), by integer/null "
    "properties, by string properties or both; every property set also holds a bytes value (ECUProperties subclass with a bytes field: empty, up to 8, 9..16, 17..40 bytes; the values of the ECUs of one file "
    "are distinct but often share their first 8..20 bytes) and about half of the recordings that such a value singles out are replayed once more selected by it (its hexadecimal digits); family 'update': one ECU (one name, one url) recorded with two software generations (two runs whose properties_pre differ in "
    "sw_version, in the nullable variant or in both, same state machine, other reply bytes, recorded in either order), optionally next to another ECU that carries the property "
    "set of one of the two runs, each run replayed with name AND properties (and with the properties alone when no other ECU carries them; never with the name alone); "
    "in families 'update' and multi/same-ECU the two runs of the one ECU (same url, recorded one right after the other) are in most files recorded by ONE DBHandler / run_meta (one script invocation that calls "
    "insert_scan_run and insert_scan_run_properties_pre a second time for the same target) instead of a handler each. "
    "ECU names (any text is a name): per file either plain distinct names or names that are easily taken for one another - differing only in letter case, equal except where one has '_' "
    "for one character of the other, or '%' for a run of characters (possibly none) of the other - assigned to the ECUs in random order, so that the ECU replayed by such a name "
    "was recorded before, after or interleaved with the other ECU, which answers the same requests with other bytes. Held = every replay produced the recorded bytes (silence where none was recorded) and the "
    "same session/security level after every step."
)
LEVEL_NOTE = (
    "Trusted: in-process transport and sqlite helpers vf/dbharness.py, request generator below, scripted ECUs below. Security seeds of the "
    "RandomUDSServer are not reproducible (unseeded RNG); witnesses carry the recorded bytes."
)
RULE = (
    "cases = (ECU model or script [software generation], history seed, database layout incl. the class of ECU names, selector); one case = one record/replay pair; non-trivial = the recording "
    "leaves the default state or repeats a request with another answer; the recording client (stock / vendor subclass), the ECU's attitude to the suppress bit and the number of address rows per ECU name "
    "are drawn per recording / per file from the history seed, not extra cases; so are the bytes property values, the form of the ECU's 0xF186 record, the ECU's levels with an empty key and whether "
    "the two runs of one ECU share one DBHandler; distinct = distinct (history seed, layout, selector); "
    "distinct_traces = distinct (request kind, reply kind, client state) sequences; evaluations = replayed steps compared. After the first "
    "difference of a pair the rest of that replay is not judged (it is a consequence). A replay difference under selection by name is keyed replay/wrong-recording-selected/... "
    "when the file shows that a scan run points to the address row of another url than the one it was recorded against."
)
ASSUMPTIONS = [
    "recording uses max_retry 0 and implicit logging: one transmission and one row per request",
    "databases with several recordings are only replayed with a selector (name, properties or both); recordings of different ECUs have their own ECU name, target and property set",
    "two recordings under one ECU name are only made of an ECU whose answers are a function of (session, security level, request) and whose state the client sees completely (no suppressed requests)",
    "family 'update': the two runs of one ECU name answer differently (software generation) and differ in properties_pre; such a run is only replayed with a selector that singles it out: "
    "name AND properties, or the properties alone if no other ECU of the file carries them (ECU name 'or' properties in the statement is read inclusively: commands/script/vecu.py takes both options "
    "at once); the name alone is not used there, and another ECU of that file is replayed by name, by name AND properties, and by properties alone only if they are its own",
    "an ECU name may be referenced by several address rows (docs/uds/virtual_ecu.md: 'referenced in one or more addresses'); selected by that name, every sequence recorded over any of them is replayed; "
    "two sequences recorded over two addresses of one name come from one ECU whose answers are a function of (session, security level, request)",
    "a vendor subclass of ECU that inherits update_state tracks session and security level identically to the replaying server (the presupposition of the statement); its additional state attribute is "
    "client-side bookkeeping the ECU's answers do not depend on; the state compared after every step is (session, security level). A state column re-written by other tools after the recording is not exercised",
    "an ECU that ignores the suppress bit answers the request as it would answer it without the bit (RandomUDSServer models: the bit is cleared before the model sees the request)",
    "an ECU name selects the ECU whose ecu.name is exactly that text (same characters, same case); '_' and '%' in a name are ordinary characters",
    "ecu rows and address.ecu are written by the harness with SQL (gallia has no writer for them); properties_pre is written by DBHandler.insert_scan_run_properties_pre",
    "address rows that exist before a recording starts come from gallia's own writers: DBHandler.insert_discovery_result of a discovery run in the same file, or an earlier recording of the same url",
    "every await on DBHandler / DBUDSServer has a 60 s wall-clock guard (such a step takes milliseconds). A DBHandler step of a recording that raises or does not return is reported as a "
    "violation (record/...: the recording is not in the database, so it cannot be replayed) and that recording is not replayed; only connect / insert_run_meta failing on a fresh file is a harness error",
    "a bytes-valued property is named in a selector by its hexadecimal digits (lower case, no prefix; the empty value by the empty string), which is how ECUPropertiesEncoder is documented to write bytes; "
    "selected by that text the run is replayed whatever the length of the value",
    "session reads: ECU.update_state takes everything behind the first identifier of a positive ReadDataByIdentifier reply that starts with 0xF186 as one big-endian session number, and the statement "
    "presupposes that the replaying server derives the same number; in the general workload the scripted ECUs refuse ReadDataByIdentifier replies of more than 11 bytes (0x14 responseTooLong, MAX_RDBI_REPLY), "
    "so that number has at most 8 bytes and stays below 2**63. The range above is covered by the directed family 'long session record' (a handful of databases folded into the first scripted shard: "
    "0xF186 first of several identifiers with 8..16 bytes behind it, or an ECU that keeps 9..12 bytes under 0xF186, then at least two requests recorded in that state, no suppressed requests): on the pinned "
    "tree every request replayed in a state whose session number is outside the signed 64-bit range raises OverflowError (sqlite parameter binding) - the open known finding "
    "replay/raises/OverflowError/session-number-beyond-sqlite-integer (key used only for an OverflowError while the logged session number is outside that range; any other raise keeps replay/raises/<type>)",
    "an ECU recorded twice under one name (families multi/same-ECU and update) whose own 0xF186 record is the session byte alone is never asked for 0xF186 as the FIRST of several identifiers: the client "
    "forgets the security level when the session number it reads changes, and with a one-byte record it could not tell the ECU's level afterwards (the assumption above on two recordings under one ECU name: the client sees the ECU's state completely)",
    "a scripted ECU may have security levels whose key has no bytes: it answers '27 <level+1>' without key bytes with '67 <level+1>' and is then unlocked (the client's ECU.update_state follows every positive "
    "SecurityAccess reply with an even sub-function; the statement presupposes that the replaying server does the same, whatever the request looked like); any other key is refused there",
    "one connected DBHandler may record several scan runs one after the other (insert_scan_run + insert_scan_run_properties_pre again, also for the target it has just recorded): each call starts a scan_run row "
    "of its own, and each run is replayed by its own properties; a replay difference of a recording whose scan_run id is also that of another recording is keyed replay/reply-differs/scan-run-row-shared-with-another-recording/...",
    "'clean' histories never provoke silence while the client is outside the default state and never suppress a session change or reset (asking an ECU that ignores the bit is not suppressing); 'any' histories do",
]
EXHAUSTIVE = {"quick": False, "thorough": False}
EXHAUSTIVE_NOTE = ""

RICH = [1, 2, 5, 2, 5, 0, 4]


def shards(tier: str, seed: int) -> list[dict[str, Any]]:
    out: list[dict[str, Any]] = []
    if tier == "quick":
        for i in range(5):
            out.append({"family": "clean", "base": f"q{seed}-c{i}", "n": 40})
        for i in range(4):
            out.append({"family": "any", "base": f"q{seed}-a{i}", "n": 40})
        for i in range(3):
            out.append({"family": "scripted", "base": f"q{seed}-s{i}", "n": 50, "long_session_record": 8 if i == 0 else 0})
        for i in range(4):
            out.append({"family": "multi", "base": f"q{seed}-m{i}", "n": 20})
        for i in range(3):
            out.append({"family": "update", "base": f"q{seed}-u{i}", "n": 20})
        return out
    for i in range(6):
        out.append({"family": "clean", "base": f"t{seed}-c{i}", "n": 700})
    for i in range(4):
        out.append({"family": "any", "base": f"t{seed}-a{i}", "n": 700})
    for i in range(2):
        out.append({"family": "scripted", "base": f"t{seed}-s{i}", "n": 900, "long_session_record": 120 if i == 0 else 0})
    for i in range(4):
        out.append({"family": "multi", "base": f"t{seed}-m{i}", "n": 250})
    for i in range(4):
        out.append({"family": "update", "base": f"t{seed}-u{i}", "n": 250})
    return out


def required_reach(tier: str) -> dict[str, int]:
    k = 1 if tier == "quick" else 8
    return {
        "pairs": 300 * k, "steps.compared": 5000 * k, "pairs.held-to-the-end": 150 * k, "pairs.held-to-the-end.non-trivial": 80 * k,
        "family.clean": 100 * k, "family.any": 80 * k, "family.scripted": 80 * k, "family.multi": 60 * k,
        "hist.session-change": 200 * k, "hist.seed-key-success": 40 * k, "hist.reset": 50 * k, "hist.repeated-request-other-answer": 100 * k,
        "hist.fresh-seed-repeated": 40 * k, "hist.recorded-silence": 100 * k, "hist.recorded-silence-outside-default-state": 20 * k,
        "hist.suppressed-request": 50 * k, "hist.write-or-routine": 200 * k, "step.non-default-session": 1000 * k, "step.security-level": 100 * k,
        "select.none": 100 * k, "select.name": 40 * k, "select.int-properties": 40 * k, "select.string-properties": 20 * k, "select.name+properties": 20 * k,
        "db.two-or-more-recordings": 40 * k, "db.interleaved-recordings": 10 * k, "db.same-ecu-recorded-twice": 12 * k, "db.other-recording-shares-requests": 30 * k,
        # the situations in which DBHandler.insert_scan_run meets an address row it did not create itself (measured on the file just before the call)
        "db.scan-run-starts.new-address-row": 100 * k, "db.scan-run-starts.address-row-already-exists.same-url-recorded-before": 12 * k,
        "db.scan-run-starts.address-row-already-exists.from-discovery-run-labelled-up-front": 30 * k,
        "replay-by-name.same-url-recorded-before": 12 * k, "replay-by-name.address-from-discovery-run-labelled-up-front": 30 * k,
        # one ECU name with two runs, two property sets and other answers (a software update between the recordings)
        "family.update": 40 * k, "db.same-ecu-recorded-with-other-properties": 40 * k, "db.same-ecu-recorded-with-other-properties.answers-differ": 30 * k,
        "db.same-ecu-recorded-with-other-properties.differ-in:sw_version": 6 * k, "db.same-ecu-recorded-with-other-properties.differ-in:variant": 6 * k,
        "db.same-ecu-recorded-with-other-properties.differ-in:both": 6 * k, "db.same-ecu-recorded-with-other-properties.second-property-set-recorded-first": 10 * k,
        "db.other-ecu-shares-a-property-set": 8 * k,
        "replay-by-name+properties.other-run-of-the-ecu-has-other-properties.and-answers-differently": 50 * k,
        "replay-by-int-properties.other-run-of-the-ecu-has-other-properties.and-answers-differently": 30 * k,
        "replay-by-name+properties.neither-option-alone-selects-the-run": 8 * k,
        "replay-by-name+properties.other-ecu-has-the-same-properties.and-answers-differently": 10 * k,
        # ECUs of one file whose names are easily taken for one another (letter case, '_' / '%' in the selected name), replayed by the name that could stand for the other
        **{f"db.several-ecus.ecu-names.{c}": 6 * k for c in ("plain", "case", "underscore", "percent")},
        **{f"replay-by-name.other-ecu-name.{r}{sfx}": n * k
           for r in ("differs-only-in-case", "equal-but-for-underscores", "equal-but-for-percent-signs")
           for sfx, n in (("", 8), (".and-answers-differently", 6), (".and-answers-differently.and-was-recorded-first-or-interleaved", 4))},
        # requests with the suppress bit set that the recorded ECU answered positively all the same (ECUs that ignore the bit, for some or all services)
        "hist.suppress-bit-set.answered-positively": 60 * k, "hist.suppress-bit-set.answered-positively.state-relevant-reply": 15 * k,
        "hist.suppress-bit-set.answered-positively.outside-default-state": 15 * k, "replay.ecu-ignores-suppress-bit.and-history-has-such-a-reply": 30 * k,
        # recordings made by a vendor subclass of ECU whose state object has one more attribute (logged before or after session / security level)
        "client.stock-ecu-class": 100 * k, "client.vendor-ecu-class.extra-state-attribute": 100 * k,
        "client.vendor-ecu-class.extra-state-attribute.logged-first": 30 * k, "client.vendor-ecu-class.extra-state-attribute.logged-last": 30 * k,
        "client.vendor-ecu-class.extra-state-attribute.changes-during-the-recording": 20 * k,
        "replay.recorded-by-vendor-ecu-class": 100 * k, "replay.recorded-by-vendor-ecu-class.non-trivial": 60 * k,
        # one ECU name referenced by several address rows; the replayed sequence was recorded over the first / a later one of them
        "db.ecu-name-referenced-by-several-address-rows": 30 * k, "replay-by-name.ecu-name-referenced-by-several-address-rows": 40 * k,
        "replay-by-name.ecu-name-referenced-by-several-address-rows.recorded-over-the-first-of-them": 12 * k,
        "replay-by-name.ecu-name-referenced-by-several-address-rows.recorded-over-a-later-one": 12 * k,
        "replay-by-name.ecu-name-referenced-by-several-address-rows.other-address-recorded-over-too": 10 * k,
        "replay-by-name.ecu-name-referenced-by-several-address-rows.other-addresses-never-recorded-over": 10 * k,
        "scripted.fallback": 10 * k, "scripted.malformed-reply": 10 * k, "scripted.mismatching-reply": 10 * k, "#model:": 40,
        # property sets with a bytes value of every length class, replayed selected by that value; other ECUs of the file whose value starts alike
        **{f"db.bytes-property.value-{c}": 60 * k for c in ("empty", "up-to-8-bytes", "9-to-16-bytes", "longer-than-16-bytes")},
        "select.bytes-properties": 150 * k, "replay-by-bytes-properties.value-empty": 20 * k, "replay-by-bytes-properties.value-up-to-8-bytes": 40 * k,
        "replay-by-bytes-properties.value-9-to-16-bytes": 20 * k, "replay-by-bytes-properties.value-longer-than-16-bytes": 50 * k,
        "db.several-ecus.bytes-property-values-share-first-8-bytes-or-more": 10 * k,
        "replay-by-bytes-properties.other-ecu-value-shares-first-8-bytes-or-more": 8 * k,
        "replay-by-bytes-properties.other-ecu-value-shares-first-8-bytes-or-more.and-answers-differently": 6 * k,
        # the session read as one of several identifiers of a read; session reads answered with more than the one session byte (longer record of the ECU, or the
        # records of the further identifiers), and requests recorded in the state the client derived from such a reply
        "hist.read-of-several-identifiers": 300 * k, "hist.read-of-several-identifiers.answered-positively": 150 * k,
        "hist.read-of-several-identifiers.session-identifier-first": 150 * k, "hist.read-of-several-identifiers.session-identifier-not-first": 150 * k,
        "hist.session-read.one-byte-record": 600 * k, "hist.session-read.longer-record": 150 * k, "hist.session-read.longer-record.one-identifier-read": 100 * k,
        "hist.session-read.longer-record.several-identifiers-read": 40 * k, "hist.session-read.longer-record.client-had-a-security-level": 15 * k,
        "step.session-number-from-longer-record": 500 * k, "replay.history-has-session-read-with-longer-record": 100 * k,
        "replay.history-has-session-read-with-longer-record.and-requests-recorded-in-that-state": 100 * k,
        # directed family: session reads with a record of 8..16 bytes (0xF186 first of several identifiers / the ECU's own long record), at least two requests recorded after it
        "directed.long-session-record": 6 * k, "directed.long-session-record.own-record": 3 * k, "directed.long-session-record.several-identifiers": 3 * k,
        "directed.long-session-record.session-number-beyond-signed-64-bit.two-or-more-requests-recorded-in-that-state": 5 * k,
        "directed.long-session-record.session-number-of-8-bytes.two-or-more-requests-recorded-in-that-state": 1 * k,
        # sendKey requests without key bytes (length probing, levels whose key is empty), refused and accepted; requests recorded in the level so unlocked
        "hist.send-key-without-key-bytes": 100 * k, "hist.send-key-without-key-bytes.refused": 40 * k, "hist.send-key-without-key-bytes.answered-positively": 50 * k,
        "hist.send-key-without-key-bytes.answered-positively.and-requests-recorded-in-the-unlocked-state": 50 * k,
        "replay.history-has-send-key-without-key-bytes.answered-positively.and-requests-recorded-in-the-unlocked-state": 50 * k,
        # one DBHandler (one script invocation / run_meta) records two scan runs against the same target, each replayed
        "db.two-scan-runs-of-one-target-recorded-through-one-handler": 8 * k, "db.two-scan-runs-of-one-target-recorded-through-one-handler.property-sets-differ": 5 * k,
        "db.two-scan-runs-of-one-target-recorded-through-one-handler.property-sets-differ.answers-differ": 4 * k,
        "replay.first-of-two-scan-runs-recorded-through-one-handler.other-run-has-other-properties": 8 * k,
        "replay.second-of-two-scan-runs-recorded-through-one-handler.other-run-has-other-properties": 8 * k,
    }


# ---- request generation -----------------------------------------------------------------------------
class Gen:
    """history generator: reads the ECU model's offered services when there is one, the wire for outstanding seeds"""

    def __init__(self, rng: random.Random, clean: bool, pure: bool = False, pool: random.Random | None = None, answers_anyway: frozenset[int] = frozenset(),
                 session_first: bool = True, keyless: frozenset[int] = frozenset()):
        self.rng = rng
        self.keyless = keyless  # security levels (requestSeed sub-functions) of this ECU whose key has no bytes
        self.clean = clean
        self.pure = pure  # never ask for suppression: the ECU's state stays what the client sees
        # False: never put 0xF186 first in a read of several identifiers (an ECU recorded twice under one name whose own 0xF186 record does not tell
        # the security level: the client, which forgets the level when the session number it reads changes, would lose sight of the ECU's state)
        self.session_first = session_first
        self.answers_anyway = answers_anyway  # services for which this ECU ignores the suppress bit: asking for suppression never yields silence there
        pool = pool or rng
        self.dids = [pool.choice([0xF190, 0xF18C, 0x0100, 0x1234, pool.randrange(65536)]) for _ in range(5)]
        self.rids = [pool.randrange(65536) for _ in range(2)]
        self.last_seed: tuple[int, bytes] | None = None

    def observe(self, q: bytes, reply: bytes | None) -> None:
        if reply is not None and reply[0] == 0x67 and len(reply) >= 2 and reply[1] % 2 == 1 and q[:1] == b"\x27":
            self.last_seed = (reply[1], reply[2:])
        elif q[:1] != b"\x3e":
            self.last_seed = None

    def session_read(self) -> bytes:
        """the active session identifier read on its own or (a legal ReadDataByIdentifier just as well) together with other identifiers, first, last or between them"""
        rng = self.rng
        if rng.random() >= 0.3:
            return b"\x22\xf1\x86"
        form = rng.random()
        other = rng.choice(self.dids)
        ids = [0xF186, other] if form < 0.6 else [other, 0xF186] if form < 0.8 else [0xF186, other, rng.choice(self.dids)] if form < 0.9 else [other, 0xF186, rng.choice(self.dids)]
        if not self.session_first and ids[0] == 0xF186:
            ids = [d for d in ids if d != 0xF186] + [0xF186]
        return b"\x22" + b"".join(d.to_bytes(2, "big") for d in ids)

    def next(self, offered: dict[int, list[int] | None] | None, client_default: bool) -> bytes:
        rng = self.rng
        may_silence = ((not self.clean) or client_default) and not self.pure
        anyway = self.answers_anyway

        def spr(p: float, sid: int = -1, hidden_state_change: bool = False) -> int:
            # hidden_state_change: a suppressed positive reply to this request would change the ECU's state behind the client's back
            ok = sid in anyway or (may_silence and not (hidden_state_change and self.clean))
            return 0x80 if (ok and rng.random() < (max(p, 0.3) if sid in anyway else p)) else 0

        k = rng.random()
        if self.last_seed is not None and rng.random() < 0.75:
            lvl, seed = self.last_seed
            kr = rng.random()
            if lvl in self.keyless:
                key = b"" if kr < 0.8 else seed
            else:
                # mostly the right key; now and then one byte too many, or (a tester probing the key length) a sendKey without any key bytes
                key = seed if kr < 0.8 else seed + b"\x00" if kr < 0.93 else b""
            return bytes([0x27, (lvl + 1) | spr(0.08, 0x27)]) + key
        if k < 0.18:
            tg = (offered or {}).get(0x10) or []
            s = rng.choice(tg) if tg and rng.random() < 0.8 else rng.choice([1, 2, 3, 0x40, rng.randrange(1, 128)])
            return bytes([0x10, s | spr(0.12, 0x10, True)])
        if k < 0.30:
            sa = [x for x in ((offered or {}).get(0x27) or []) if x & 1]
            lvl = rng.choice(sa) if sa and rng.random() < 0.85 else rng.choice([1, 3, 0x11])
            return bytes([0x27, lvl])
        if k < 0.35:
            sf = rng.choice(((offered or {}).get(0x11) or [1]) + [1])
            return bytes([0x11, sf | spr(0.15, 0x11, True)])
        if k < 0.46:
            return self.session_read()
        if k < 0.60:
            return b"\x22" + rng.choice(self.dids).to_bytes(2, "big")
        if k < 0.68:
            return b"\x2e" + rng.choice(self.dids).to_bytes(2, "big") + rng.choice([b"\x00", b"\x01\x02", rng.randbytes(3)])
        if k < 0.76:
            return bytes([0x31, rng.choice([1, 2, 3]) | spr(0.1, 0x31)]) + rng.choice(self.rids).to_bytes(2, "big") + rng.choice([b"", b"\x01"])
        if k < 0.81:
            return bytes([0x3E, spr(0.5, 0x3E)])
        if k < 0.85:
            return b"\x2f" + rng.choice(self.dids).to_bytes(2, "big") + bytes([rng.choice([0, 1, 2, 3])]) + rng.choice([b"", b"\xff"])
        if k < 0.89:
            return rng.choice([b"\x19\x02\xff", b"\x19\x02\x08", b"\x14\xff\xff\xff", b"\x19\x01\xff"])
        q = vecu.gen_request(rng, None, None)[:64]
        if not may_silence and q[0] in iso.HAS_SUBFUNCTION and len(q) >= 2:
            q = bytes([q[0], q[1] & 0x7F]) + q[2:]
        if self.clean and q[0] in (0x10, 0x11) and len(q) >= 2:
            q = bytes([q[0], q[1] & 0x7F]) + q[2:]
        return q


# ---- scripted ECUs --------------------------------------------------------------------------------------
class ScriptedECU:
    """An ECU that is not gallia's virtual ECU: session timer fallback, malformed / mismatching / missing replies."""

    def __init__(self, rng: random.Random, flavour: str, dids: list[int], sw: int = 0, ignores: frozenset[int] = frozenset(), rng_seed: str | None = None,
                 directed: dict[str, Any] | None = None, keyless: frozenset[int] = frozenset()):
        self.rng = rng
        self.flavour = flavour
        self.keyless = keyless  # levels whose key has no bytes: the sendKey request that unlocks them is '27 <level+1>' and nothing else
        self.ignores = ignores  # services whose suppressPosRspMsgIndicationBit this ECU ignores: it sends the positive reply all the same
        self.sw = sw  # software generation ('pure' only): same state machine, other answers (0 = the answers below as they stand)
        self.session = 1
        self.level: int | None = None
        self.idle = 0
        self.seed: tuple[int, bytes] | None = None
        self.fallback_after = rng.randint(2, 6)
        self.odd = {d: rng.choice(["malformed", "mismatch", "silent"]) for d in dids[:3]} if flavour == "odd" else {}
        self.fallbacks = 0
        # the data record this ECU keeps under 0xF186: the session byte alone (most ECUs), or the session byte followed by the security level and
        # 0..2 further bytes (a property of the ECU; own generator: the other draws of this ECU stay what they were)
        self.session_record_tail: bytes | None = session_record_tail(rng_seed) if rng_seed is not None else None
        # directed family 'long session record': a larger transmit buffer, a long record under 0xF186 itself or under another identifier
        self.max_reply = MAX_RDBI_REPLY
        self.long_dids: dict[int, bytes] = {}
        if directed is not None:
            self.max_reply = 64
            self.session_record_tail = directed.get("session_record_tail")
            self.long_dids = dict(directed.get("long_dids", {}))

    async def __call__(self, q: bytes) -> list[bytes]:
        r = self.answer(q)
        return [r] if r is not None else []

    def answer(self, q: bytes) -> bytes | None:
        sid = q[0]
        if self.flavour == "fallback" and self.session != 1:
            self.idle += 1
            if sid == 0x3E:
                self.idle = 0
            elif self.idle > self.fallback_after:
                self.session, self.level, self.idle = 1, None, 0  # the session timer expired unnoticed by the tester
                self.fallbacks += 1
        sup = sid in iso.HAS_SUBFUNCTION and len(q) >= 2 and bool(q[1] & 0x80)
        pos: bytes | None
        if sid == 0x10 and len(q) == 2:
            self.session, self.level, self.idle, self.seed = q[1] & 0x7F, None, 0, None
            pos = bytes([0x50, q[1] & 0x7F, 0x00, 0x32 - 7 * self.sw, 0x01, 0xF4])
        elif sid == 0x11 and len(q) == 2:
            self.session, self.level, self.seed = 1, None, None
            pos = bytes([0x51, q[1] & 0x7F])
        elif sid == 0x3E and len(q) == 2:
            pos = b"\x7e\x00"
        elif sid == 0x27 and len(q) >= 2:
            sf = q[1] & 0x7F
            if sf == 0:
                return b"\x7f\x27\x12"
            if self.flavour == "pure":
                # a function of (session, level, request) only: fixed seed per level, key accepted without a preceding seed request
                if sf % 2 == 1:
                    pos = bytes([0x67, sf]) + bytes([sf, sf ^ 0x5A ^ self.sw, self.session])
                elif q[2:] == (b"" if sf - 1 in self.keyless else bytes([sf - 1, (sf - 1) ^ 0x5A ^ self.sw, self.session])):
                    self.level = sf - 1
                    pos = bytes([0x67, sf])
                else:
                    return bytes([0x7F, 0x27, 0x35])
            elif sf % 2 == 1:
                self.seed = (sf, self.rng.randbytes(4))
                pos = bytes([0x67, sf]) + self.seed[1]
            elif self.seed is not None and sf == self.seed[0] + 1 and q[2:] == (b"" if self.seed[0] in self.keyless else self.seed[1]):
                self.level, self.seed = sf - 1, None
                pos = bytes([0x67, sf])
            else:
                self.seed = None
                return bytes([0x7F, 0x27, 0x35 if len(q) > 2 else 0x24])
        elif sid == 0x22 and len(q) >= 5 and len(q) % 2 == 1:
            # several identifiers in one read: the records of those this ECU would answer positively on their own, in the order asked;
            # 0x31 if there is none, 0x14 if they do not fit the transmit buffer
            reply = b"\x62"
            for k in range(1, len(q), 2):
                rec = self.record(int.from_bytes(q[k : k + 2], "big"))
                if rec is not None:
                    reply += q[k : k + 2] + rec
            if len(reply) == 1:
                return b"\x7f\x22\x31"
            return reply if len(reply) <= self.max_reply else b"\x7f\x22\x14"
        elif sid == 0x22 and len(q) == 3:
            did = int.from_bytes(q[1:3], "big")
            if did in self.long_dids:
                return b"\x62" + q[1:3] + self.long_dids[did]
            if did == 0xF186:
                return bytes([0x62, 0xF1, 0x86]) + self.session_record()
            kind = self.odd.get(did)
            if kind == "malformed":
                return self.rng.choice([b"\x62" + q[1:2], b"\x7f\x22", b"\x62"])
            if kind == "mismatch":
                return self.rng.choice([b"\x62" + bytes([q[1] ^ 1, q[2]]) + b"\x00", b"\x7f\x2e\x31", bytes([0x50, self.session])])
            if kind == "silent":
                return None
            if self.session == 1 and did & 1:
                return b"\x7f\x22\x7f"
            if self.sw and did & 4 and self.level is None:
                return b"\x7f\x22\x33"  # the update protected this identifier
            return b"\x62" + q[1:3] + bytes([self.session, self.level or 0, did & 0xFF]) + (b"SW" + bytes([self.sw]) if self.sw else b"")
        elif sid == 0x2E and len(q) >= 4:
            if self.sw and self.session == 1:
                return b"\x7f\x2e\x7f"  # the update moved writing out of the default session
            return (b"\x6e" + q[1:3]) if self.level is not None else b"\x7f\x2e\x33"
        elif sid == 0x31 and len(q) >= 4:
            pos = bytes([0x71, q[1] & 0x7F]) + q[2:4] + bytes([self.session]) + (bytes([self.sw]) if self.sw else b"")
        else:
            return bytes([0x7F, sid, 0x11])
        return None if (sup and sid not in self.ignores) else pos


    def session_record(self) -> bytes:
        if self.session_record_tail is None:
            return bytes([self.session])
        return bytes([self.session, self.level or 0]) + self.session_record_tail

    def record(self, did: int) -> bytes | None:
        """the data record of one identifier within a read of several; None = this ECU does not answer it positively in its present state"""
        if did == 0xF186:
            return self.session_record()
        if did in self.long_dids:
            return self.long_dids[did]
        if did in self.odd or (self.session == 1 and did & 1) or (self.sw and did & 4 and self.level is None):
            return None
        return bytes([self.session, self.level or 0, did & 0xFF]) + (b"SW" + bytes([self.sw]) if self.sw else b"")


# Transmit buffer of the scripted ECUs for ReadDataByIdentifier replies (longer ones are refused with responseTooLong): 0x62 + identifier + 8 bytes.
# gallia attributes everything behind the first identifier to the first data record, and ECU.update_state reads the record of 0xF186 as one
# big-endian number: with 8 bytes (first of them a session byte <= 0x7F) that number stays below 2**63.  See ASSUMPTIONS.
MAX_RDBI_REPLY = 11


def session_record_tail(ecu_seed: str, p: float = 0.4) -> bytes | None:
    r = random.Random(f"{ecu_seed}/session-record")
    if r.random() >= p:
        return None
    return r.choice([b"", b"", b"\x00", b"\xa5", bytes([r.randrange(256)]), bytes([r.randrange(256), r.randrange(256)])])


# Directed family 'long session record' (a handful of databases per run): the number the client derives from a session read has 8..16 bytes,
# i.e. (from 9 bytes on) lies beyond the signed 64-bit range; at least two requests are recorded in that state.
LONG_MARK = "/long-session-record/"


def long_session_record_case(hseed: str, dids: list[int]) -> dict[str, Any]:
    r = random.Random(hseed + "/directed")
    i = int(hseed.split(LONG_MARK)[1].split("/")[0])  # hseed: <base>/long-session-record/<i>[/req/<j>]
    at = r.randint(1, 8)
    if i % 2:
        # the ECU keeps 9..12 bytes under 0xF186 itself (session byte, security level, further bytes)
        total = r.randint(9, 12)
        cfg: dict[str, Any] = {"form": "own-record", "session_record_tail": r.randbytes(total - 2), "read": b"\x22\xf1\x86"}
    else:
        # 0xF186 first of several identifiers: the records of the others follow the session byte (8 bytes in every other case: the largest that fits)
        total = 8 if i % 4 == 0 else r.randint(9, 16)
        other = r.choice([0xF190, 0xF18C, 0xF190])
        cfg = {"form": "several-identifiers", "session_record_tail": None, "long_dids": {other: r.randbytes(total - 3)}, "read": b"\x22\xf1\x86" + other.to_bytes(2, "big")}
    # requests that leave session and security level alone
    quiet = [b"\x22" + d.to_bytes(2, "big") for d in dids if d != 0xF186] + [b"\x3e\x00", b"\x31\x01\x12\x34", b"\x2e" + dids[0].to_bytes(2, "big") + b"\x00"]
    cfg["forced"] = {at: cfg["read"], **{at + k: r.choice(quiet) for k in range(1, r.randint(3, 5))}}
    cfg["record_bytes"] = total
    return cfg


SUPPRESSIBLE = [0x10, 0x11, 0x27, 0x31, 0x3E]


def keyless_levels(ecu_seed: str, p: float = 0.4) -> frozenset[int]:
    """the security levels of the scripted ECU with this seed whose key has no bytes (a property of the ECU, so both recordings of one ECU
    get the same set; own generator); empty for most ECUs"""
    r = random.Random(f"{ecu_seed}/keyless")
    if r.random() >= p:
        return frozenset()
    return frozenset(r.choice([[1], [3], [1, 3], [1, 3, 0x11], [0x11], [1, 0x11]]))


def ignored_suppress_bits(ecu_seed: str, p: float) -> frozenset[int]:
    """the services for which the ECU with this seed sends its positive reply although the request asked to suppress it (a property of the ECU,
    so both recordings of one ECU get the same set); empty for most ECUs"""
    r = random.Random(f"{ecu_seed}/suppress-bit")
    if r.random() >= p:
        return frozenset()
    if r.random() < 0.4:
        return frozenset(SUPPRESSIBLE)
    return frozenset(r.sample(SUPPRESSIBLE, r.randint(1, 3)))


def has_suppress_bit(q: bytes) -> bool:
    return q[0] in iso.HAS_SUBFUNCTION and len(q) >= 2 and bool(q[1] & 0x80)


# ---- recording clients ---------------------------------------------------------------------------------
# gallia's ECU class is made to be subclassed ("Vendor specific implementations can be derived from this class", loaded by load_ecu(oem)).
# The vendor client below tracks session and security level exactly as the stock class does (it inherits update_state) and keeps one more
# attribute in its state object, which DBHandler.insert_scan_result logs along with the other two.
VENDOR_ATTRS = ["boot_mode", "vendor_mode", "programming_counter", "last_routine", "a_flag", "zz_unlocked_by"]


def vendor_client_kind(seed: str, p: float = 0.35) -> dict[str, Any] | None:
    r = random.Random(f"{seed}/client")
    if r.random() >= p:
        return None
    return {"attribute": r.choice(VENDOR_ATTRS), "logged": r.choice(["first", "last"]), "changes": r.random() < 0.5,
            "initial": r.choice([0, None, False, "app", 7])}


def make_client(transport: Any, handler: Any, vendor: dict[str, Any] | None) -> Any:
    if vendor is None:
        return dh.make_ecu(transport, handler, 0)
    from gallia.services.uds.core import service
    from gallia.services.uds.ecu import ECU, ECUState

    attr, first, changes, initial = vendor["attribute"], vendor["logged"] == "first", vendor["changes"], vendor["initial"]

    class VendorECUState(ECUState):
        def __init__(self) -> None:
            if first:
                setattr(self, attr, initial)  # __dict__ order = order in the logged JSON object
            super().__init__()
            setattr(self, attr, initial)

        def reset(self) -> None:
            super().reset()
            setattr(self, attr, initial)

    class VendorECU(ECU):
        OEM = "vf-vendor"

        def __init__(self, *a: Any, **kw: Any) -> None:
            super().__init__(*a, **kw)
            self.state = VendorECUState()

        async def update_state(self, request: Any, response: Any) -> None:
            await super().update_state(request, response)
            # bookkeeping of the client only (the ECU's answers do not depend on it): the last identifier written / routine run in this session
            if changes and not isinstance(response, service.NegativeResponse):
                q = request.pdu
                if q[0] in (0x2E, 0x31) and len(q) >= 4:
                    setattr(self.state, attr, int.from_bytes(q[2:4] if q[0] == 0x31 else q[1:3], "big"))

    ecu = VendorECU(transport, timeout=0.05, max_retry=0)
    ecu.retry_wait = 0.0
    ecu.db_handler = handler
    return ecu


# ---- recording ----------------------------------------------------------------------------------------
def make_props(values: dict[str, Any]) -> Any:
    from dataclasses import make_dataclass

    from gallia.services.uds.ecu import ECUProperties

    cls = make_dataclass("HarnessECUProperties", [(k, Any) for k in values], bases=(ECUProperties,))
    return cls(**values)


class Recording:
    def __init__(self, name: str, target: str, props: dict[str, Any], model_id: str):
        self.name, self.target, self.props, self.model_id = name, target, props, model_id
        self.requests: list[bytes] = []
        self.replies: list[bytes | None] = []
        self.client_states: list[dict[str, Any]] = []  # after each step: session and security level as the recording client tracked them
        self.client: dict[str, Any] | None = None  # None = gallia's ECU class; else the vendor subclass (one more state attribute)
        self.ignores: frozenset[int] = frozenset()  # services for which the recorded ECU ignores the suppress bit
        self.keyless: frozenset[int] = frozenset()  # security levels of the recorded ECU whose key has no bytes
        self.handler_shared: str | None = None  # 'first' / 'second' of two scan runs that one DBHandler (one run_meta) recorded against this target
        self.errors: list[str | None] = []
        self.lost: list[str] = []
        self.scan_run: int | None = None
        self.info: dict[str, Any] = {}
        self.first_on_file = False  # no other handler touched the file before this recording
        self.address_before: dict[str, Any] | None = None  # the target's address row just before insert_scan_run
        self.failed: dh.HandlerStep | None = None  # a DBHandler step of this recording raised / did not return
        self.attached_url: str | None = None  # url of the address row the scan_run row points to (read back after the recordings)
        self.foreign_runs: list[tuple[int, str]] = []  # (scan run, address situation) of recordings of OTHER targets that point to this target's address row

    def address_situation(self) -> str:
        return "address-row-already-exists" if (self.address_before or {}).get("exists") else "new-address-row"


class Recorder:
    """one recording in progress: client + handler + ECU"""

    def __init__(self, rec: Recording, path: Path, hseed: str, family: str, ecu_kind: tuple[Any, ...], clean: bool, length: int, pool_seed: str | None = None):
        self.rec, self.path, self.family, self.ecu_kind, self.length = rec, path, family, ecu_kind, length
        self.rng = random.Random(hseed)
        pure = ecu_kind[0] == "script" and ecu_kind[2] == "pure"
        rec.ignores = ignored_suppress_bits(str(ecu_kind[1]), 0.3 if ecu_kind[0] == "rng" else 0.4 if pure else 0.5)
        rec.client = vendor_client_kind(f"{hseed}|{rec.target}|{rec.model_id}")
        own_record_tells_level = ecu_kind[0] == "script" and session_record_tail(str(ecu_kind[1])) is not None
        if ecu_kind[0] == "script" and LONG_MARK not in hseed:
            rec.keyless = keyless_levels(str(ecu_kind[1]))
        self.directed: dict[str, Any] | None = None
        if LONG_MARK in hseed:
            pure = True  # no suppressed requests: the replay gets as far as the long session read (a recorded silence makes the replaying server reset, a known finding of its own)
        self.gen = Gen(self.rng, clean, pure=pure, pool=random.Random(pool_seed) if pool_seed else None, answers_anyway=rec.ignores,
                       session_first=not pure or own_record_tells_level, keyless=rec.keyless)
        if LONG_MARK in hseed:
            self.directed = long_session_record_case(hseed, self.gen.dids)
            self.length = max(self.length, max(self.directed["forced"]) + 2)
            rec.info["long_session_record"] = {k: v for k, v in self.directed.items() if k in ("form", "record_bytes")}
        self.handler: Any = None
        self.ecu: Any = None
        self.tr: Any = None
        self.driver: Any = None
        self.script: ScriptedECU | None = None

    def look_at_address(self) -> None:
        """the target's address row as the file shows it just before insert_scan_run (separate sqlite3 connection, SELECT only)"""
        rows = dh.sql(self.path, "SELECT a.id, (SELECT name FROM ecu e WHERE e.id = a.ecu), (SELECT count(*) FROM scan_run s WHERE s.address = a.id) "
                                 "FROM address a WHERE a.url = ?", (self.rec.target,))
        self.rec.address_before = {"exists": bool(rows), "id": rows[0][0] if rows else None, "ecu_label": rows[0][1] if rows else None,
                                   "earlier_scan_runs": rows[0][2] if rows else 0}

    async def start(self, inherited: Any = None) -> bool:
        """Script._db_insert_run_meta + UDSScanner.setup; False = gallia's database code refused (self.rec.failed says where).
        inherited: the connected DBHandler that has just recorded another scan run (same script invocation, same run_meta): this recording is its next scan run"""
        self.rec.first_on_file = not self.path.exists()
        try:
            if inherited is not None:
                self.handler = inherited
                try:
                    self.look_at_address()
                    await dh.guarded(self.handler.insert_scan_run(self.rec.target), "insert_scan_run")
                except BaseException:
                    await dh.force_close(self.handler)
                    raise
            else:
                self.handler = await dh.open_handler(self.path, self.rec.target, script="vf.c12.record", before_scan_run=self.look_at_address)
            self.rec.scan_run = self.handler.scan_run
            try:
                await dh.guarded(self.handler.insert_scan_run_properties_pre(make_props(self.rec.props)), "insert_scan_run_properties_pre")
            except BaseException:
                await dh.force_close(self.handler)
                raise
        except dh.HandlerStep as e:
            if self.rec.first_on_file and e.step in ("connect", "insert_run_meta"):
                raise  # nothing of the layout is involved yet: indistinguishable from a broken scratch directory -> harness error
            self.rec.failed = e
            self.handler = None
            return False
        await self._start_ecu()
        return True

    async def _start_ecu(self) -> None:
        if self.ecu_kind[0] == "rng":
            self.driver = vecu.Driver(self.ecu_kind[1], vecu.PARAM_SETS[self.ecu_kind[2]], vecu.all_switches())
            await self.driver.setup()

            ignores = self.rec.ignores

            async def responder(q: bytes) -> list[bytes]:
                if q[0] in ignores and has_suppress_bit(q):
                    q = bytes([q[0], q[1] & 0x7F]) + q[2:]  # this ECU does not look at the bit
                r, _ = await self.driver.transport.handle_request(q)
                return [r] if r is not None else []

            self.tr = dh.ResponderTransport(responder)
        else:
            self.script = ScriptedECU(random.Random(f"{self.ecu_kind[1]}"), self.ecu_kind[2], self.gen.dids, sw=self.ecu_kind[3] if len(self.ecu_kind) > 3 else 0,
                                      ignores=self.rec.ignores, rng_seed=str(self.ecu_kind[1]), directed=self.directed, keyless=self.rec.keyless)
            self.tr = dh.ResponderTransport(self.script)
        self.ecu = make_client(self.tr, self.handler, self.rec.client)

    async def step(self) -> bool:
        if self.rec.failed is not None or len(self.rec.requests) >= self.length:
            return False
        from gallia.services.uds.core import service

        st = self.ecu.state
        offered = None
        if self.driver is not None:
            srv = self.driver.server
            offered = {int(k): v for k, v in srv.services.get(srv.state.session, {}).items()}
        q = self.gen.next(offered, st.session == 1 and st.security_access_level is None)
        if self.directed is not None:
            q = self.directed["forced"].get(len(self.rec.requests), q)
        err = None
        t0 = time.monotonic()
        try:
            await asyncio.wait_for(self.ecu.request(service.RawRequest(q)), dh.GUARD_S)
        except Exception as e:  # noqa: BLE001
            err = type(e).__name__
            if time.monotonic() - t0 >= dh.GUARD_S:
                raise RuntimeError(f"harness: ECU.request({q.hex()}) did not return within {dh.GUARD_S:.0f} s wall clock") from e
        assert self.tr.log[-1][0] == q
        delivered = self.tr.log[-1][1]
        reply = delivered[0] if delivered else None
        self.gen.observe(q, reply)
        r = self.rec
        r.requests.append(q)
        r.replies.append(reply)
        r.errors.append(err)
        r.client_states.append({"session": st.session, "security_access_level": st.security_access_level})
        return True

    async def finish(self, catch: dh.Catcher, keep_open: bool = False) -> Any:
        """keep_open: the script goes on to record another scan run through the same handler; the connected handler is returned"""
        if self.handler is None:
            return None
        handler, self.handler = self.handler, None
        kept = None
        if keep_open:
            kept = handler
        else:
            try:
                await dh.close_handler(handler)
            except dh.HandlerStep as e:
                self.rec.failed = e  # the rows of this recording may or may not be in the file
        self.rec.lost = catch.take_lost()
        if self.script is not None:
            self.rec.info["fallbacks"] = self.script.fallbacks
            self.rec.info["odd"] = {f"{k:04x}": v for k, v in self.script.odd.items()}
        return kept

    async def abort(self) -> None:
        """something went wrong elsewhere: leave no connection (and no worker thread) behind"""
        if self.handler is not None:
            handler, self.handler = self.handler, None
            await dh.force_close(handler)
        if self.driver is not None:
            self.driver = None


# ---- replay --------------------------------------------------------------------------------------------
async def replay_recording(path: Path, name: str | None, props: dict[str, Any] | None, requests: list[bytes]) -> list[tuple[Any, dict[str, Any]]]:
    """exactly what commands/script/vecu.py does: DBUDSServer(path, ecu, properties, behaviour defaults), setup(), transport"""
    from gallia.services.uds.server import DBUDSServer, UDSServerTransport
    from gallia.transports import TargetURI

    server = DBUDSServer(path, name, props, DBUDSServer.Behavior())
    transport = UDSServerTransport(server, TargetURI("tcp-lines://127.0.0.1:1"))
    out: list[tuple[Any, dict[str, Any]]] = []
    try:
        await asyncio.wait_for(server.setup(), dh.GUARD_S)
        for q in requests:
            try:
                r, _ = await asyncio.wait_for(transport.handle_request(q), dh.GUARD_S)  # an expired guard is judged like an exception: no answer
            except Exception as e:  # noqa: BLE001
                out.append((e, dict(server.state.__dict__)))
                break
            out.append((r, dict(server.state.__dict__)))
    finally:
        conn = server.connection
        try:
            await asyncio.wait_for(server.teardown(), dh.GUARD_S)
        except BaseException:
            if conn is not None:
                conn.stop()  # no worker thread may outlive the shard
            raise
    return out


def reply_kind(q: bytes, r: bytes | None) -> str:
    if r is None:
        return "recorded-silence"
    d = iso.decode_response(r)
    if d is None:
        return "malformed-reply"
    if r[0] == 0x7F:
        return "negative-reply" if r[1] == q[0] else "mismatching-reply"
    if r[0] != (q[0] + 0x40) & 0xFF:
        return "mismatching-reply"
    if r[0] == 0x62 and r[1:3] == b"\xf1\x86":
        # what follows the first identifier is (to gallia) the data record of that identifier: one session byte, or more (the ECU's own longer record,
        # or the records of the further identifiers of the read)
        return "session-read" if len(r) <= 4 else "session-read-with-longer-record"
    return {"session": "session-change", "reset": "reset", "security": "security-access"}.get(d["kind"], "other-positive-reply")


def judge(ctx: Any, rec: Recording, rows: list[dict[str, Any]], out: list[tuple[Any, dict[str, Any]]], case: dict[str, Any], selector: str,
          others: list[Recording] | None = None) -> None:
    ctx.reach("pairs")
    ctx.reach(f"select.{selector}")

    def witness(i: int, extra: dict[str, Any]) -> dict[str, Any]:
        lo = max(0, i - 40)
        return {**case, "selector": selector, "ecu_name": rec.name, "properties": rec.props, "step": i, "first_shown_step": lo,
                "recording_client": rec.client or "gallia.services.uds.ecu.ECU", "ecu_ignores_suppress_bit_of_services": sorted(rec.ignores),
                "history": [[q, r, f"{s['session']:#x}/{s['security_access_level']}"] for q, r, s in zip(rec.requests[lo : i + 1], rec.replies[lo : i + 1], rec.client_states[lo : i + 1])],
                **extra}

    held = True
    for i, q in enumerate(rec.requests):
        want = rec.replies[i]
        if i >= len(out):
            break
        got, sstate = out[i]
        ctx.evals()
        ctx.reach("steps.compared")
        cstate = rec.client_states[i]
        if isinstance(got, Exception):
            malformed = want is not None and iso.decode_response(want) is None
            key = "replay/raises/malformed-recorded-reply" if malformed else f"replay/raises/{type(got).__name__}"
            logged_session = rec.client_states[i - 1]["session"] if i else 1  # the state this request was logged with
            if isinstance(got, OverflowError) and isinstance(logged_session, int) and not -(2**63) <= logged_session < 2**63:
                key = "replay/raises/OverflowError/session-number-beyond-sqlite-integer"
            ctx.violation(key, "the replaying server raises while answering (a TCP server would drop the connection) instead of sending the recorded bytes",
                          witness(i, {"request": q, "recorded": want, "error": repr(got)[:300]}))
            held = False
            break
        if got != want:
            row = rows[i] if len(rows) == len(rec.requests) else None
            stored = dh.unhex(row["response_pdu"]) if row is not None else None
            if row is None and rec.scan_run is not None and any(o.scan_run == rec.scan_run for o in (others or [])):
                cause = "scan-run-row-shared-with-another-recording"  # two recordings, one scan_run row: the file does not keep them apart
            elif row is None:
                cause = "row-not-recorded"
            elif stored != want:
                cause = "row-not-byte-exact"
            elif got is None:
                cause = "silence-instead-of-recorded-reply"
            elif want is None:
                cause = "reply-instead-of-recorded-silence"
            else:
                cause = "another-rows-reply"
            if selector == "string-properties" and got is None and all(o[0] is None for o in out):
                cause = "string-property-selects-nothing"
            if selector == "bytes-properties" and got is None and all(o[0] is None for o in out):
                cause = f"bytes-property-selects-nothing/value-{length_class(rec.props[BYTES_PROPERTY])}"
            detail = {"request": q, "recorded": want, "replayed": got, "row_response_pdu": row["response_pdu"] if row else None, "rows": len(rows), "warnings": rec.lost[:3]}
            # diagnosis only (the key does not depend on it): which other recordings of the file hold the replayed reply for this request
            served = [{"ecu_name": o.name, "properties": o.props, "scan_run": o.scan_run} for o in (others or []) if any(q2 == q and r2 == got for q2, r2 in zip(o.requests, o.replies))]
            if served:
                detail["replayed_reply_was_recorded_for_this_request_in"] = served
            misattached = rec.attached_url != rec.target
            if selector in ("name", "name+properties") and (misattached or rec.foreign_runs):
                # the join scan_run -> address -> ecu leads elsewhere: the file attaches this run to another address row and/or another ECU's run to this one
                existed = (misattached and rec.address_situation() == "address-row-already-exists") or any(sit == "address-row-already-exists" for _, sit in rec.foreign_runs)
                ctx.violation(f"replay/wrong-recording-selected/by-ecu-name/{'address-row-already-exists' if existed else 'new-address-row'}",
                              "selected by ECU name the virtual ECU does not replay this ECU's recording: DBHandler.insert_scan_run attached a scan run to the address row of "
                              "another url, so the name selects another ECU's rows (or none)",
                              witness(i, {**detail, "difference": cause, "target": rec.target, "scan_run": rec.scan_run, "scan_run_points_to_address_of_url": rec.attached_url,
                                          "address_row_before_insert_scan_run": rec.address_before,
                                          "scan_runs_of_other_targets_attached_to_this_address": [r for r, _ in rec.foreign_runs]}))
                held = False
                break
            ctx.violation(f"replay/reply-differs/{cause}/select-{selector}" if "-property-selects-nothing" not in cause else f"replay/reply-differs/{cause}",
                          "the replayed reply differs from the recorded bytes although both state trackers agreed before this request", witness(i, detail))
            held = False
            break
        if sstate != cstate:
            ctx.violation(f"replay/state-diverges/after-{reply_kind(q, want)}",
                          "after this step the replaying server's session/security level differs from the state the recording client derived",
                          witness(i, {"request": q, "recorded": want, "client_state": cstate, "server_state": sstate}))
            held = False
            break
    if held:
        ctx.reach("pairs.held-to-the-end")
        if case.get("nontrivial"):
            ctx.reach("pairs.held-to-the-end.non-trivial")


def survey(ctx: Any, rec: Recording) -> bool:
    """reach counters about one recording; returns non-triviality"""
    seen: dict[bytes, set[bytes | None]] = {}
    left_default = False
    other_answer = False
    trace = []
    long_reads = 0
    keyless_unlocks_followed = 0
    prev = {"session": 1, "security_access_level": None}
    for n, (q, r, s) in enumerate(zip(rec.requests, rec.replies, rec.client_states)):
        k = reply_kind(q, r)
        if q[0] == 0x27 and len(q) == 2 and q[1] & 0x7F and (q[1] & 0x7F) % 2 == 0:
            # a sendKey sub-function without key bytes (length probing; the one legal sendKey of a level whose key is empty)
            ctx.reach("hist.send-key-without-key-bytes")
            if k == "security-access" and r is not None and r[1] % 2 == 0:
                ctx.reach("hist.send-key-without-key-bytes.answered-positively")
                if s["security_access_level"] is not None and n + 1 < len(rec.requests):
                    keyless_unlocks_followed += 1
                    ctx.reach("hist.send-key-without-key-bytes.answered-positively.and-requests-recorded-in-the-unlocked-state")
            elif r is not None and r[0] == 0x7F:
                ctx.reach("hist.send-key-without-key-bytes.refused")
        trace.append((q[0], k, s["session"], s["security_access_level"]))
        if k == "session-change":
            ctx.reach("hist.session-change")
        if k == "reset":
            ctx.reach("hist.reset")
        if k == "security-access" and r is not None and r[1] % 2 == 0:
            ctx.reach("hist.seed-key-success")
        if q[0] in (0x2E, 0x31, 0x2F) and r is not None and r[0] != 0x7F:
            ctx.reach("hist.write-or-routine")
        if q[0] == 0x22 and len(q) >= 5 and len(q) % 2 == 1:
            ctx.reach("hist.read-of-several-identifiers")
            if q[1:3] == b"\xf1\x86":
                ctx.reach("hist.read-of-several-identifiers.session-identifier-first")
            elif b"\xf1\x86" in [q[n : n + 2] for n in range(1, len(q), 2)]:
                ctx.reach("hist.read-of-several-identifiers.session-identifier-not-first")
            if r is not None and r[0] == 0x62:
                ctx.reach("hist.read-of-several-identifiers.answered-positively")
        if k == "session-read":
            ctx.reach("hist.session-read.one-byte-record")
        if k == "session-read-with-longer-record":
            long_reads += 1
            ctx.reach("hist.session-read.longer-record")
            ctx.reach("hist.session-read.longer-record." + ("several-identifiers-read" if len(q) > 3 else "one-identifier-read"))
            if s["session"] != prev["session"] and prev["security_access_level"] is not None:
                ctx.reach("hist.session-read.longer-record.client-had-a-security-level")
        if s["session"] > 0xFF:
            ctx.reach("step.session-number-from-longer-record")
        if r is None:
            ctx.reach("hist.recorded-silence")
            if prev["session"] != 1 or prev["security_access_level"] is not None:
                ctx.reach("hist.recorded-silence-outside-default-state")
            if has_suppress_bit(q):
                ctx.reach("hist.suppressed-request")
        elif has_suppress_bit(q) and r[0] != 0x7F and k not in ("malformed-reply", "mismatching-reply"):
            # the request asked to suppress the positive reply and the recorded ECU sent it all the same: a row with reply bytes like any other
            ctx.reach("hist.suppress-bit-set.answered-positively")
            if k in ("session-change", "reset", "security-access"):
                ctx.reach("hist.suppress-bit-set.answered-positively.state-relevant-reply")
            if prev["session"] != 1 or prev["security_access_level"] is not None:
                ctx.reach("hist.suppress-bit-set.answered-positively.outside-default-state")
        if q in seen and r not in seen[q]:
            other_answer = True
            ctx.reach("hist.repeated-request-other-answer")
            if q[0] == 0x27 and r is not None and r[0] == 0x67:
                ctx.reach("hist.fresh-seed-repeated")
        seen.setdefault(q, set()).add(r)
        if s["session"] != 1:
            ctx.reach("step.non-default-session")
            left_default = True
        if s["security_access_level"] is not None:
            ctx.reach("step.security-level")
            left_default = True
        prev = s
    ctx.trace(tuple(trace))
    rec.info["session_reads_with_longer_record"] = long_reads
    rec.info["keyless_unlocks_followed"] = keyless_unlocks_followed
    return left_default or other_answer


def _loads(text: Any) -> Any:
    import json

    try:
        return json.loads(text)
    except (TypeError, ValueError):
        return None


def int_props(rec: Recording) -> dict[str, Any]:
    return {"sw_version": rec.props["sw_version"], "variant": rec.props["variant"]}


def answered_otherwise(rec: Recording, other: Recording) -> int:
    """number of steps of `rec` for which `other` holds a row with the same request in the same (client) state and another reply:
    the rows a replay of `rec` is served from as soon as the selection lets `other` in"""
    theirs: dict[tuple[Any, ...], set[bytes | None]] = {}
    prev: dict[str, Any] = {"session": 1, "security_access_level": None}
    for q, r, s in zip(other.requests, other.replies, other.client_states):
        theirs.setdefault((prev["session"], prev["security_access_level"], q), set()).add(r)
        prev = s
    n = 0
    prev = {"session": 1, "security_access_level": None}
    for q, r, s in zip(rec.requests, rec.replies, rec.client_states):
        if theirs.get((prev["session"], prev["security_access_level"], q), {r}) != {r}:
            n += 1
        prev = s
    return n


# ---- ECU names --------------------------------------------------------------------------------------------
# A name is any text the user put into ecu.name.  Besides the plain names the files carry names that are easily taken for one another:
# names that differ only in the case of their letters, names that are equal except where one of them has '_' (or has '%' where
# the other has some run of characters, possibly none).  The relations below only describe the names of a file (reach counters);
# the verdict is the byte comparison of the replay.
NAME_CLASSES = ["plain", "plain", "case", "underscore", "percent"]
_FILL = "0123456789ABCDEFGHKXYZabcdefxyz-."


def ecu_names(rng: random.Random, cls: str, n: int, tag: int) -> list[str]:
    """n distinct ECU names of one class (n <= 3), in random order"""
    stem = rng.choice(["ECU", "Gateway", "bcm", "Engine", "Door", "tcu"])
    if cls == "case":
        s = f"{stem}-{rng.choice(['front', 'Rear', 'a', 'Left'])}-{tag}"
        out = [s.lower(), s.upper(), s.title()]
        mixed = "".join(c.upper() if rng.random() < 0.5 else c.lower() for c in s)
        if mixed not in out and rng.random() < 0.5:
            out[rng.randrange(3)] = mixed
    elif cls == "underscore":
        c1, c2 = rng.choice(_FILL), rng.choice(_FILL)
        tail = rng.choice(["", "F", "-left"])
        out = [f"{stem}_{tag}_{tail}", f"{stem}{c1}{tag}_{tail}", f"{stem}{c1}{tag}{c2}{tail}"]
        if rng.random() < 0.3:
            out[1] = f"{stem}_{tag}{c2}{tail}"
    elif cls == "percent":
        w1 = rng.choice(["-front", "11", " (old)", rng.choice(_FILL)])
        w2 = rng.choice(["", "", "-rear-", "x", rng.choice(_FILL) * 2])
        if rng.random() < 0.5:
            out = [f"{stem}%{tag}", f"{stem}{w1}%{tag}", f"{stem}{w1}{w2}{tag}"]
        else:
            out = [f"{tag}-{stem}%", f"{tag}-{stem}{w1}%", f"{tag}-{stem}{w1}{w2}"]
    else:
        out = [f"ECU-{k}-{tag}" for k in range(3)]
    assert len(set(out)) == 3, out
    out = out[:n] if cls == "plain" else rng.sample(out, 3)[:n]
    return out


def differs_only_in_case(a: str, b: str) -> bool:
    return a != b and a.lower() == b.lower()


def equal_but_for_underscores(a: str, b: str) -> bool:
    """b is a with every '_' of a replaced by one character (at least one of them by another character)"""
    return a != b and len(a) == len(b) and all(x == y or x == "_" for x, y in zip(a, b))


def equal_but_for_percent_signs(a: str, b: str) -> bool:
    """b is a with every '%' of a replaced by some run of characters (possibly none)"""
    if a == b or "%" not in a:
        return False
    parts = a.split("%")
    if not b.startswith(parts[0]):
        return False
    pos = len(parts[0])
    for mid in parts[1:-1]:
        k = b.find(mid, pos)
        if k < 0:
            return False
        pos = k + len(mid)
    return len(b) - pos >= len(parts[-1]) and b.endswith(parts[-1])


NAME_RELATIONS = [("differs-only-in-case", differs_only_in_case), ("equal-but-for-underscores", equal_but_for_underscores),
                  ("equal-but-for-percent-signs", equal_but_for_percent_signs)]


# ---- bytes-valued properties ------------------------------------------------------------------------------
# ECUProperties subclasses may carry bytes (ECUPropertiesEncoder: bytes are written as their hexadecimal digits): a serial number, a VIN read
# as raw bytes.  Every ECU of a file gets one such value: empty, a few bytes, or longer; values of different ECUs of one file are distinct but
# may share their first bytes (one may be the beginning of another).
BYTES_PROPERTY = "serial_number"


def bytes_property_values(rng: random.Random, ecu_ids: list[int]) -> dict[int, bytes]:
    base = rng.randbytes(40) if rng.random() < 0.5 else b"WVWZZZ1KZAW" + rng.randbytes(29)
    shared = rng.choice([0, 0, 8, 10, 12, 16, 20]) if len(ecu_ids) > 1 else 0
    out: dict[int, bytes] = {}
    for jj in ecu_ids:
        while True:
            n = rng.choice([0, rng.randint(1, 8), rng.randint(9, 16), 17, rng.randint(17, 40), shared + rng.randint(0, 4)])
            v = (base[:shared] + rng.randbytes(40))[:n]
            if v not in out.values():
                break
        out[jj] = v
    return out


def length_class(v: bytes) -> str:
    return "empty" if not v else "up-to-8-bytes" if len(v) <= 8 else "9-to-16-bytes" if len(v) <= 16 else "longer-than-16-bytes"


def common_prefix(a: bytes, b: bytes) -> int:
    n = 0
    while n < min(len(a), len(b)) and a[n] == b[n]:
        n += 1
    return n


# ---- one database ---------------------------------------------------------------------------------------
async def one_database(ctx: Any, family: str, hseed: str, path: Path, catch: dh.Catcher) -> None:
    rng = random.Random(hseed + "/layout")
    update = family == "update"  # one ECU (name, target) recorded with two software versions: two runs, two property sets, other answers
    several = family in ("multi", "update")
    same_ecu = family == "multi" and rng.random() < 0.4
    nrec = 1 if not several else 2 if same_ecu else rng.choice([2, 3, 3]) if update else rng.choice([2, 2, 3])
    interleaved = several and rng.random() < 0.35
    clean = family in ("clean", "multi", "update") or LONG_MARK in hseed
    recs: list[Recording] = []
    recorders: list[Recorder] = []
    share = several and rng.random() < 0.8
    gens = rng.sample([0, 1, 2, 3], 3) if update else []  # software generations (up- or downgrade; the third is another ECU)
    differs = rng.choice(["sw_version", "variant", "both"]) if update else None  # what the update changed in the property set
    shares_with = rng.randrange(2) if update and nrec == 3 and rng.random() < 0.6 else None  # the other ECU has the property set of this run
    # third layout stream: the names the ECUs of this file carry (own generator: the layouts drawn above stay what they were)
    rng3 = random.Random(hseed + "/names")
    ecu_ids = sorted({0 if same_ecu or (update and j < 2) else j for j in range(nrec)})
    name_class = rng3.choice(NAME_CLASSES)
    names = dict(zip(ecu_ids, ecu_names(rng3, name_class, len(ecu_ids), zlib.crc32(hseed.encode()) % 1000)))
    # fourth layout stream: ECU names referenced by more than one address row (docs/uds/virtual_ecu.md: the name is "referenced in one or more addresses"):
    # the ECU was reached over two target urls (two recordings), or a second address of it is known (discovery run) and was never recorded over
    rng4 = random.Random(hseed + "/addresses")
    # fifth layout stream: the bytes-valued property of every ECU of the file, and which recordings are also replayed by it
    rng5 = random.Random(hseed + "/bytes-property")
    serials = bytes_property_values(rng5, ecu_ids)
    two_urls = (same_ecu and rng4.random() < 0.5) or (update and rng4.random() < 0.3)
    for j in range(nrec):
        if update:
            # the same state machine (answers are a function of session, level, request and software generation)
            kind: tuple[Any, ...] = ("script", f"{hseed}/pure", "pure", gens[j])
            model_id = f"script:pure:sw{gens[j]}"
        elif same_ecu:
            # the same deterministic ECU (answers are a function of session, level and request) recorded twice under one name and target
            kind = ("script", f"{hseed}/pure", "pure")
            model_id = "script:pure"
        elif family == "scripted":
            flavour = rng.choice(["fallback", "odd", "plain"])
            if LONG_MARK in hseed:
                flavour = "plain"
            kind = ("script", f"{hseed}/{j}", flavour)
            model_id = f"script:{flavour}"
        else:
            rp = rng.choice(RICH)
            sseed = f"{hseed}/{j}" if rng.random() < 0.7 else f"ecu{rng.randrange(12)}"
            kind = ("rng", sseed, rp)
            model_id = f"rng:{sseed}:{rp}"
        ctx.reach(f"model:{model_id}" if kind[0] == "script" else f"model:rng:{kind[2]}:{zlib.crc32(str(kind[1]).encode()) % 16}")
        jj = 0 if same_ecu or (update and j < 2) else j
        props = {"sw_version": 100 + jj, "variant": None if jj % 2 == 0 else jj, "vin": f"VIN{hseed}#{jj}", "hw": "A" if same_ecu else rng.choice(["A", "B"])}
        props[BYTES_PROPERTY] = serials[jj]
        if update and j == 1:
            if differs in ("sw_version", "both"):
                props["sw_version"] = 101
            if differs in ("variant", "both"):
                props["variant"] = 1
        if update and j == 2 and shares_with is not None:
            props["sw_version"], props["variant"] = recs[shares_with].props["sw_version"], recs[shares_with].props["variant"]
        rec = Recording(names[jj], f"vf://c12/{hseed}/{jj}" + ("/second-url" if two_urls and j == 1 else ""), props, model_id)
        recs.append(rec)
        length = rng.choice([5, 8, 60, rng.randint(5, 60), rng.randint(5, 60), rng.randint(20, 60)])
        if same_ecu or update:
            length = max(length, rng.randint(30, 60))  # the other recording's rows are only consulted for requests both recordings contain
        # recordings that share the history seed ask (mostly) the same questions of different ECUs
        rseed = f"{hseed}/req" if (share and not same_ecu) else f"{hseed}/req/{j}"
        recorders.append(Recorder(rec, path, rseed, family, kind, clean, length, pool_seed=f"{hseed}/pool" if same_ecu or update else None))
    if update:
        rng.shuffle(recorders)  # recording order: the other ECU first, between or last; the later software first or second (recs keeps the layout order)
    # second layout stream (own generator: the layouts drawn above stay what they were)
    rng2 = random.Random(hseed + "/layout2")
    discovery = several and rng2.random() < 0.5  # address rows exist up front and carry their ECU names before any recording
    label_between = (same_ecu or update) and not discovery and not interleaved and rng2.random() < 0.5
    extra_urls = [f"vf://c12/{hseed}/other{k}" for k in range(rng2.choice([0, 0, 1, 2]))] if discovery else []
    # sixth layout stream: the two runs of one ECU (same url) are recorded by ONE script invocation - one DBHandler, one run_meta, insert_scan_run called
    # a second time for the same target (e.g. a script that scans before and after a software update) - instead of by a handler each
    rng6 = random.Random(hseed + "/one-handler")
    twice = [n for n, r in enumerate(recorders) if (same_ecu or update) and r.rec in recs[:2]]
    one_handler = (len(twice) == 2 and twice[1] - twice[0] == 1 and not interleaved and not two_urls and not label_between and rng6.random() < 0.8)
    if one_handler:
        recorders[twice[0]].rec.handler_shared, recorders[twice[1]].rec.handler_shared = "first", "second"
    # further addresses of recorded ECUs, never recorded over: found by the discovery run up front, or by a discovery run after the recordings
    alias_urls = [(f"vf://c12/{hseed}/alias{k}", rng4.choice(recs).name) for k in range(rng4.choice([0, 1, 1, 2]))] if discovery else []
    alias_after = [(f"vf://c12/{hseed}/alias-late", rng4.choice(recs).name)] if several and not discovery and rng4.random() < 0.3 else []
    labelled: set[tuple[str, str]] = set()

    def label(name: str, url: str) -> None:
        # ECU names: gallia has no writer for the ecu table; a user fills it in with SQL (one ecu row per name, referenced by one or more address rows)
        if (name, url) in labelled:
            return
        if not any(n == name for n, _ in labelled):
            dh.sql(path, "INSERT INTO ecu(name, oem, manufacturer) VALUES (?, 'default', 'vf')", (name,))
        labelled.add((name, url))
        dh.sql(path, "UPDATE address SET ecu = (SELECT id FROM ecu WHERE name = ?) WHERE url = ?", (name, url))

    def reach_address(rec: Recording) -> None:
        a = rec.address_before
        if a is None or not a["exists"]:
            if a is not None:
                ctx.reach("db.scan-run-starts.new-address-row")
            return
        ctx.reach("db.scan-run-starts.address-row-already-exists")
        if a["earlier_scan_runs"] > 0:
            ctx.reach("db.scan-run-starts.address-row-already-exists.same-url-recorded-before")
        if a["ecu_label"] is not None and a["earlier_scan_runs"] == 0:
            ctx.reach("db.scan-run-starts.address-row-already-exists.from-discovery-run-labelled-up-front")

    catch.take_lost()
    kept_handler: Any = None  # the connected handler between the two scan runs it records
    try:
        if discovery:
            urls = sorted({r.target for r in recs}) + extra_urls + [u for u, _ in alias_urls]
            rng2.shuffle(urls)
            await dh.open_discovery(path, urls, script="vf.c12.discover")
            for rec in recs:
                label(rec.name, rec.target)
            for u, nm in alias_urls:
                label(nm, u)
            for k, u in enumerate(extra_urls):
                label(f"OTHER-{k}-{zlib.crc32(hseed.encode()) % 1000}", u)
            ctx.reach("db.addresses-from-discovery-run-labelled-up-front")
        if interleaved:
            for r in recorders:
                await r.start()
                reach_address(r.rec)
            live = list(recorders)
            while live:
                r = rng.choice(live)
                if not await r.step():
                    live.remove(r)
            for r in recorders:
                await r.finish(catch)
            ctx.reach("db.interleaved-recordings")
        else:
            for n, r in enumerate(recorders):
                handed_on, kept_handler = kept_handler, None
                await r.start(handed_on)
                reach_address(r.rec)
                while await r.step():
                    pass
                kept_handler = await r.finish(catch, keep_open=one_handler and n == twice[0])
                if label_between and n == 0:
                    label(r.rec.name, r.rec.target)
    finally:
        for r in recorders:
            await r.abort()
        if kept_handler is not None:
            await dh.force_close(kept_handler)
    for rec in recs:
        label(rec.name, rec.target)
    if alias_after:
        await dh.open_discovery(path, [u for u, _ in alias_after], script="vf.c12.discover-late")
        for u, nm in alias_after:
            label(nm, u)
    # the address rows each ECU name is referenced by, in address id order (reach counters only)
    addresses_of: dict[str, list[tuple[int, str, int]]] = {}
    for aid, url, nm, runs in dh.sql(path, "SELECT a.id, a.url, e.name, (SELECT count(*) FROM scan_run s WHERE s.address = a.id) FROM address a JOIN ecu e ON a.ecu = e.id ORDER BY a.id"):
        addresses_of.setdefault(nm, []).append((aid, url, runs))
    if any(len(v) > 1 for v in addresses_of.values()):
        ctx.reach("db.ecu-name-referenced-by-several-address-rows")
    # where gallia attached the scan runs (diagnosis only; the verdict comes from the replayed bytes)
    by_run = {row[0]: row[1] for row in dh.sql(path, "SELECT s.id, a.url FROM scan_run s LEFT JOIN address a ON s.address = a.id")}
    for rec in recs:
        rec.attached_url = by_run.get(rec.scan_run) if rec.scan_run is not None else None
    for rec in recs:
        rec.foreign_runs = [(o.scan_run, o.address_situation()) for o in recs if o.scan_run is not None and o.target != rec.target and o.attached_url == rec.target]
    # a recording gallia's database code refused is an observation about the property, not about the harness
    for j, rec in enumerate(recs):
        if rec.failed is None:
            continue
        e = rec.failed
        what = {"family": family, "hseed": hseed, "recordings": nrec, "interleaved": interleaved, "same_ecu_twice": same_ecu, "discovery_run_first": discovery,
                "recording": j, "ecu_name": rec.name, "target": rec.target, "step": f"DBHandler.{e.step}", "error": e.error,
                "address_row_before_insert_scan_run": rec.address_before, "first_handler_on_the_file": rec.first_on_file,
                "earlier_recordings_in_this_file": [{"ecu_name": o.name, "target": o.target, "scan_run": o.scan_run} for o in recs[:j]]}
        if e.step == "insert_scan_run" and e.kind == "raises":
            ctx.violation(f"record/scan-run-not-recorded/{rec.address_situation()}",
                          "DBHandler.insert_scan_run raises for a recording into a database that may already hold runs / address rows (UDSScanner.setup only warns and "
                          "goes on): no scan_run row, so none of the exchanges of this run is recorded and there is nothing to replay", what)
        else:
            ctx.violation(f"record/handler-{e.kind}/{e.step}" + ("" if rec.first_on_file else "/database-holds-earlier-runs"),
                          "a DBHandler step of the recording run raises or does not return: the recording is not (completely) in the database", what)
    if same_ecu:
        ctx.reach("db.same-ecu-recorded-twice")
    if one_handler and all(r.failed is None for r in recs[:2]):
        oh = "db.two-scan-runs-of-one-target-recorded-through-one-handler"
        ctx.reach(oh)
        if int_props(recs[0]) != int_props(recs[1]):
            ctx.reach(f"{oh}.property-sets-differ")
            if answered_otherwise(recs[0], recs[1]) or answered_otherwise(recs[1], recs[0]):
                ctx.reach(f"{oh}.property-sets-differ.answers-differ")
    if update:
        ctx.reach("db.same-ecu-recorded-with-other-properties")
        ctx.reach(f"db.same-ecu-recorded-with-other-properties.differ-in:{differs}")
        when = {id(r.rec): n for n, r in enumerate(recorders)}
        if when[id(recs[1])] < when[id(recs[0])]:
            ctx.reach("db.same-ecu-recorded-with-other-properties.second-property-set-recorded-first")
        if all(r.failed is None for r in recs[:2]) and (answered_otherwise(recs[0], recs[1]) or answered_otherwise(recs[1], recs[0])):
            ctx.reach("db.same-ecu-recorded-with-other-properties.answers-differ")
        if shares_with is not None:
            ctx.reach("db.other-ecu-shares-a-property-set")
    if nrec > 1:
        ctx.reach("db.two-or-more-recordings")
        common = set(recs[0].requests)
        for r in recs[1:]:
            common &= set(r.requests)
        if any(len({tuple(r.replies[i] for i, q in enumerate(r.requests) if q == c)[:1] for r in recs}) > 1 for c in common):
            ctx.reach("db.other-recording-shares-requests")
    ctx.reach(f"family.{family}")
    if LONG_MARK in hseed and recs[0].failed is None:
        lk = "directed.long-session-record"
        ctx.reach(lk)
        ctx.reach(f"{lk}.{recs[0].info['long_session_record']['form']}")
        in_state = [st["session"] for st in recs[0].client_states[:-1]]
        if sum(1 for n in in_state if not -(2**63) <= n < 2**63) >= 2:
            ctx.reach(f"{lk}.session-number-beyond-signed-64-bit.two-or-more-requests-recorded-in-that-state")
        elif sum(1 for n in in_state if n >= 2**56) >= 2:
            ctx.reach(f"{lk}.session-number-of-8-bytes.two-or-more-requests-recorded-in-that-state")
    ctx.reach(f"db.ecu-names.{name_class}")
    if any(common_prefix(serials[a], serials[b]) >= 8 for a in ecu_ids for b in ecu_ids if a < b):
        ctx.reach("db.several-ecus.bytes-property-values-share-first-8-bytes-or-more")
    if len(ecu_ids) > 1:
        ctx.reach(f"db.several-ecus.ecu-names.{name_class}")
    recorded_at = {id(r.rec): n for n, r in enumerate(recorders)}
    for j, rec in enumerate(recs):
        if rec.failed is not None or rec.scan_run is None:
            ctx.reach("recordings.refused-by-the-database-handler")
            continue  # nothing (reliable) was recorded: a replay difference would only be a consequence
        rows = dh.read_rows(path, rec.scan_run)
        nontrivial = survey(ctx, rec)
        ctx.reach(f"db.bytes-property.value-{length_class(rec.props[BYTES_PROPERTY])}")
        if rec.client is None:
            ctx.reach("client.stock-ecu-class")
        else:
            vk = "client.vendor-ecu-class.extra-state-attribute"
            ctx.reach(vk)
            ctx.reach(f"{vk}.logged-{rec.client['logged']}")
            logged = {row["state"] for row in rows}
            if len({r.get(rec.client["attribute"], "<absent>") if isinstance(r, dict) else "<no object>" for r in map(_loads, logged)}) > 1:
                ctx.reach(f"{vk}.changes-during-the-recording")
        answered_anyway = any(has_suppress_bit(q) and r is not None and r[0] == (q[0] + 0x40) & 0xFF for q, r in zip(rec.requests, rec.replies))
        if rec.info.get("fallbacks"):
            ctx.reach("scripted.fallback")
        for q, r in zip(rec.requests, rec.replies):
            k = reply_kind(q, r)
            if family == "scripted" and k == "malformed-reply":
                ctx.reach("scripted.malformed-reply")
            if family == "scripted" and k == "mismatching-reply":
                ctx.reach("scripted.mismatching-reply")
        case = {"family": family, "hseed": hseed, "recordings": nrec, "interleaved": interleaved, "same_ecu_twice": same_ecu, "discovery_run_first": discovery,
                "recording": j, "model": rec.model_id, "length": len(rec.requests), "nontrivial": nontrivial,
                "ecu_names_in_file": sorted({o.name for o in recs}), "target": rec.target,
                "properties_pre_in_file": (dh.sql(path, "SELECT properties_pre FROM scan_run WHERE id = ?", (rec.scan_run,)) or [(None,)])[0][0],
                "address_rows_of_this_ecu_name": [[aid, url, f"{runs} scan runs"] for aid, url, runs in addresses_of.get(rec.name, [])],
                "scan_run": rec.scan_run, "one_handler_recorded_two_scan_runs_of_this_target_this_is_the": rec.handler_shared,
                "ecu_levels_whose_key_has_no_bytes": sorted(rec.keyless)}
        if update:
            case.update({"software_update": True, "update_changed_properties": differs, "other_ecu_has_properties_of_recording": shares_with,
                         "recorded_in_order": [recs.index(r.rec) for r in recorders]})
        selectors: list[tuple[str, str | None, dict[str, Any] | None]] = []
        twins = [o for o in recs if o is not rec and o.name == rec.name and int_props(o) != int_props(rec)]  # other runs of this ECU, other properties
        namesakes = [o for o in recs if o is not rec and o.name != rec.name and int_props(o) == int_props(rec)]  # other ECUs, same properties
        if update:
            # the name alone does not say which software was meant, the properties alone do not when another ECU carries them too
            extra = None
            selectors.append(("name+properties", None, None))
            if not namesakes:
                selectors.append(("int-properties", None, None))
            if not twins:
                selectors.append(("name", None, None))
            other_answers = sum(answered_otherwise(rec, o) for o in twins if o.failed is None)
            for sel, _, _ in selectors:
                if twins and sel != "name":
                    ctx.reach(f"replay-by-{sel}.other-run-of-the-ecu-has-other-properties")
                    if other_answers:
                        ctx.reach(f"replay-by-{sel}.other-run-of-the-ecu-has-other-properties.and-answers-differently")
            if twins and namesakes:
                ctx.reach("replay-by-name+properties.neither-option-alone-selects-the-run")
            if namesakes and any(answered_otherwise(rec, o) for o in namesakes if o.failed is None):
                ctx.reach("replay-by-name+properties.other-ecu-has-the-same-properties.and-answers-differently")
        elif nrec == 1:
            selectors.append(("none", None, None))
            extra = rng.choice(["name", "int-properties", "string-properties", "name+properties", None, None])
        else:
            selectors.append((rng.choice(["name", "int-properties"]), None, None))
            extra = rng.choice(["name", "int-properties", "string-properties", "name+properties"])
        if extra and extra != selectors[0][0]:
            selectors.append((extra, None, None))
        if nrec > 1 and not any(sel in ("name", "name+properties") for sel, _, _ in selectors):
            selectors.append(("name", None, None))  # several recordings in one file: the scan_run -> address -> ecu join is always exercised
        if not twins and rng5.random() < 0.5:
            # the bytes-valued property singles out this ECU (all runs of its name answer alike): replayed by it as well
            selectors.append(("bytes-properties", None, None))
            mine_b = rec.props[BYTES_PROPERTY]
            ctx.reach(f"replay-by-bytes-properties.value-{length_class(mine_b)}")
            for o in recs:
                if o.name != rec.name and common_prefix(o.props[BYTES_PROPERTY], mine_b) >= 8:
                    ctx.reach("replay-by-bytes-properties.other-ecu-value-shares-first-8-bytes-or-more")
                    if o.failed is None and answered_otherwise(rec, o):
                        ctx.reach("replay-by-bytes-properties.other-ecu-value-shares-first-8-bytes-or-more.and-answers-differently")
                    break
        by_name = [sel for sel, _, _ in selectors if sel in ("name", "name+properties")]
        mine = addresses_of.get(rec.name, [])
        if by_name and len(mine) > 1 and any(url == rec.target for _, url, _ in mine):
            # the name stands for several address rows; this sequence was recorded over one of them
            sit = "replay-by-name.ecu-name-referenced-by-several-address-rows"
            ctx.reach(sit)
            ctx.reach(f"{sit}.recorded-over-the-{'first' if mine[0][1] == rec.target else 'last' if mine[-1][1] == rec.target else 'middle'}-of-them")
            if mine[0][1] != rec.target:
                ctx.reach(f"{sit}.recorded-over-a-later-one")
            others_rec = any(url != rec.target and runs > 0 for _, url, runs in mine)
            ctx.reach(f"{sit}.{'other-address-recorded-over-too' if others_rec else 'other-addresses-never-recorded-over'}")
        if by_name and rec.address_before is not None and rec.address_before["exists"]:
            ctx.reach("replay-by-name.address-row-existed-before-scan-run")
            if rec.address_before["earlier_scan_runs"] > 0:
                ctx.reach("replay-by-name.same-url-recorded-before")
            elif rec.address_before["ecu_label"] is not None:
                ctx.reach("replay-by-name.address-from-discovery-run-labelled-up-front")
        for o in recs:
            # other ECUs of the file whose name is easily taken for this one's (and which the selection by this name must keep out all the same)
            if not by_name or o.name == rec.name or o.failed is not None or o.scan_run is None:
                continue
            if "name" not in by_name and int_props(o) != int_props(rec):
                continue  # replayed with name AND properties only, and the properties alone already tell the two apart
            for rel, related in NAME_RELATIONS:
                if not related(rec.name, o.name):
                    continue
                ctx.reach(f"replay-by-name.other-ecu-name.{rel}")
                if answered_otherwise(rec, o):
                    ctx.reach(f"replay-by-name.other-ecu-name.{rel}.and-answers-differently")
                    if interleaved or recorded_at[id(o)] < recorded_at[id(rec)]:
                        ctx.reach(f"replay-by-name.other-ecu-name.{rel}.and-answers-differently.and-was-recorded-first-or-interleaved")
        for sel, _, _ in selectors:
            name = rec.name if sel in ("name", "name+properties") else None
            props: dict[str, Any] | None = None
            if sel in ("int-properties", "name+properties"):
                props = {"sw_version": rec.props["sw_version"], "variant": rec.props["variant"]}
            elif sel == "string-properties":
                props = {"vin": rec.props["vin"]}
            elif sel == "bytes-properties":
                props = {BYTES_PROPERTY: rec.props[BYTES_PROPERTY].hex()}
            out = await replay_recording(path, name, props, rec.requests)
            if rec.client is not None:
                ctx.reach("replay.recorded-by-vendor-ecu-class")
                if nontrivial:
                    ctx.reach("replay.recorded-by-vendor-ecu-class.non-trivial")
            if answered_anyway:
                ctx.reach("replay.ecu-ignores-suppress-bit.and-history-has-such-a-reply")
            if rec.handler_shared is not None:
                ctx.reach(f"replay.{rec.handler_shared}-of-two-scan-runs-recorded-through-one-handler")
                if twins:
                    ctx.reach(f"replay.{rec.handler_shared}-of-two-scan-runs-recorded-through-one-handler.other-run-has-other-properties")
            if rec.info.get("keyless_unlocks_followed"):
                ctx.reach("replay.history-has-send-key-without-key-bytes.answered-positively.and-requests-recorded-in-the-unlocked-state")
            if rec.info.get("session_reads_with_longer_record"):
                ctx.reach("replay.history-has-session-read-with-longer-record")
                if any(s["session"] > 0xFF for s in rec.client_states[:-1]):
                    ctx.reach("replay.history-has-session-read-with-longer-record.and-requests-recorded-in-that-state")
            ctx.case((hseed, j, sel, nrec, interleaved), nontrivial=nontrivial, n=0)
            judge(ctx, rec, rows, out, case, sel, [o for o in recs if o is not rec])
        if ctx.rng.random() < 0.03:
            ctx.sample({**case, "ecu_name": rec.name, "properties": rec.props,
                        "history": [[q, r, f"{s['session']:#x}/{s['security_access_level']}"] for q, r, s in zip(rec.requests[:12], rec.replies[:12], rec.client_states[:12])]})


async def arun(ctx: Any, params: dict[str, Any], only: str | None = None) -> None:
    catch = dh.install_catcher()
    scratch = ctx.mkscratch()
    seeds = [only] if only else [f"{params['base']}/{i}" for i in range(params["n"])]
    if not only:
        # directed family (folded into this shard, run first): session reads whose data record has 8..16 bytes
        seeds = [f"{params['base']}{LONG_MARK}{i}" for i in range(params.get("long_session_record", 0))] + seeds
    for n, hseed in enumerate(seeds):
        if ctx.out_of_time():
            break
        path = scratch / f"c12-{n}.sqlite"
        try:
            await one_database(ctx, params["family"], hseed, path, catch)
        finally:
            for suffix in ("", "-wal", "-shm"):
                p = path.with_name(path.name + suffix)
                if p.exists():
                    p.unlink()


def _run(ctx: Any, params: dict[str, Any], only: str | None) -> None:
    import gallia.command  # noqa: F401

    # every await on gallia's database code has its own guard; this one is for whatever nobody thought of (and for the interpreter
    # shutdown, which joins aiosqlite's non-daemon worker threads): the shard ends on its own long before the runner's watchdog
    dh.arm_exit_watchdog(min(max(ctx.time_left(), 0.0), 3000.0) + 240.0)
    try:
        asyncio.run(arun(ctx, params, only))
    finally:
        dh.stop_leaked_connections()


def run(ctx: Any, params: dict[str, Any]) -> None:
    _run(ctx, params, None)


def replay(ctx: Any, witness: dict[str, Any]) -> None:
    _run(ctx, {"family": witness["family"]}, witness["hseed"])

